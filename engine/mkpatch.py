#!/usr/bin/env python3
"""mkpatch.py <scratch-copy-dir> <out.patch>: unified diff of a scratch copy against /repo in `git apply` form (a/ b/ prefixes)"""
import sys, os, subprocess, difflib
d, out = sys.argv[1], sys.argv[2]
chunks = []
for root, dirs, files in os.walk(d):
    dirs[:] = [x for x in dirs if x not in ("target", ".git")]
    for fn in files:
        p = os.path.join(root, fn)
        rel = os.path.relpath(p, d)
        q = os.path.join("/repo", rel)
        if not os.path.exists(q):
            continue
        try:
            a, b = open(q).read().splitlines(True), open(p).read().splitlines(True)
        except UnicodeDecodeError:
            continue
        if a != b:
            chunks.append("diff --git a/%s b/%s\n" % (rel, rel))
            chunks.extend(difflib.unified_diff(a, b, "a/" + rel, "b/" + rel))
open(out, "w").write("".join(chunks))
print(out, len(chunks), "lines")
