"""C06 (statistic wiring, normalise-before-f typestate) and C14 (scale invariance wiring, monomorphic cells)."""
from facts import P, pstr, op_place, op_local, op_const, const_val, ostr, rvstr, callee_is, callee_name, rv_operands
import an
import names as N

CALCULATE = "sfs::stat::Statistic::calculate"
HEADER_NAME = "sfs::stat::Statistic::header_name"
STATISTIC = "sfs::stat::Statistic"
SPECTRUM = "sfs_core::spectrum::Spectrum"
SP = "sfs_core::spectrum::Spectrum::<S>::"
SCS = "sfs_core::spectrum::Spectrum::<sfs_core::spectrum::Counts>::"
SFS = "sfs_core::spectrum::Spectrum::<sfs_core::spectrum::Frequencies>::"
STAT = "sfs_core::spectrum::stat::"

# reviewed: CLI variant -> (library method, header text, needs normalisation)
CLI_TABLE = {
    "DFuLi": (SCS + "d_fu_li", "d_fu_li", False),
    "DTajima": (SCS + "d_tajima", "d_tajima", False),
    "F2": (SFS + "f2", "f2", True),
    "F3": (SFS + "f3", "f3", True),
    "F4": (SFS + "f4", "f4", True),
    "Fst": (SFS + "fst", "fst", True),
    "King": (SP + "king", "king", False),
    "Pi": (SP + "pi", "pi", False),
    "PiXY": (SP + "pi_xy", "pi_xy", False),
    "R0": (SP + "r0", "r0", False),
    "R1": (SP + "r1", "r1", False),
    "S": (SCS + "segregating_sites", "segregating_sites", False),
    "Sum": (SP + "sum", "sum", False),
    "Theta": (SP + "theta_watterson", "theta", False),
}
# reviewed: library method -> estimator constructor it must call
LIB_TABLE = {
    SP + "king": STAT + "King::from_spectrum",
    SP + "r0": STAT + "R0::from_spectrum",
    SP + "r1": STAT + "R1::from_spectrum",
    SP + "pi": STAT + "theta::Theta::<E>::from_spectrum|sfs_core::spectrum::stat::theta::Tajima",
    SP + "theta_watterson": STAT + "theta::Theta::<E>::from_spectrum|sfs_core::spectrum::stat::theta::Watterson",
    SP + "pi_xy": STAT + "PiXY::from_spectrum",
    SFS + "f2": STAT + "F2::from_sfs",
    SFS + "f3": STAT + "F3::from_sfs",
    SFS + "f4": STAT + "F4::from_sfs",
    SFS + "fst": STAT + "Fst::from_sfs",
    SCS + "d_fu_li": STAT + "d::D::<S>::from_scs|sfs_core::spectrum::stat::d::FuLi",
    SCS + "d_tajima": STAT + "d::D::<S>::from_scs|sfs_core::spectrum::stat::d::Tajima",
}
D_TABLE = {
    "sfs_core::spectrum::stat::d::Tajima": ("sfs_core::spectrum::stat::theta::Tajima", "sfs_core::spectrum::stat::theta::Watterson"),
    "sfs_core::spectrum::stat::d::FuLi": ("sfs_core::spectrum::stat::theta::Watterson", "sfs_core::spectrum::stat::theta::FuLi"),
}


def spectrum_calls(fn, blocks, prog=None):
    out = []
    for b in sorted(blocks):
        t = fn.term(b)
        if t["k"] == "call":
            p = t["callee"].get("path") or ""
            if p.startswith("sfs_core::spectrum::Spectrum::<") and not p.endswith("::clone"):
                out.append((b, p))
            elif prog is not None and p.startswith("core::ops::function::Fn") and t["args"]:
                # a local closure called here (`let normalized = || scs.clone().into_normalized(); .. normalized().f2()`): what it calls
                # on the spectrum happens at this point of the arm
                cp = an.closure_of_operand(fn, t["args"][0])
                if cp is None:
                    l_ = op_local(t["args"][0])
                    tg_ = fn.resolve_ptr(l_) if l_ is not None else None
                    if tg_ is not None and not tg_[1]:
                        cp = an.closure_of_operand(fn, {"k": "copy", "place": {"l": tg_[0], "p": []}})
                g = prog.fn(cp) if cp else None
                if g is not None:
                    out += [(b, p2) for b2, p2 in spectrum_calls(g, set(g.nodes()))]
    return out


def calc_table(chk):
    f = chk.fn(CALCULATE)
    if f is None:
        return None, None
    table, sb = an.enum_match_table(f, lambda s: s.get("adt") == STATISTIC)
    if table is None:
        chk.fail("SHAPE", "Statistic::calculate/match", f.loc(), "match on the Statistic discriminant not recognised")
        return f, None
    arms = {}
    for v, tgt in table.items():
        region = an.arm_region(f, sb, tgt)
        arms[v] = spectrum_calls(f, region, chk.prog)
    return f, arms


def check_C06(chk):
    chk.explanation = (
        "Wiring clauses of C06 (the formulas themselves are numeric and not decided): (a) each of the 14 CLI statistics calls the library "
        "method its name promises and prints under the matching header; (b) each library method constructs the estimator of the reviewed "
        "map, the D statistics combine (theta1, theta2) = (Tajima, Watterson) / (Watterson, FuLi) as (t1 - t2) / variance; (c) typestate: "
        "f2/f3/f4/Fst take &Spectrum<Frequencies>, the only state-changing conversion is into_normalized, in which normalize() dominates "
        "into_state_unchecked, every other into_state_unchecked is state-preserving, Spectrum literals occur only in the three reviewed places, "
        "and normalize divides every element by the sum taken before the loop; (d) every estimator's *_unchecked body is reached only under "
        "its dimension/shape guard; (e) shape-level definitional facts: Fst's per-population correction terms pair the frequency and sample size of "
        "the same axis, harmonic(n) = p_harmonic(n, 1) on every path, p_harmonic sums 1/i^p over 1..n.")
    chk.not_decided = "the numeric formulas of every estimator and their equality with the genotype-level definitions"
    c06a(chk)
    c06b(chk)
    c06c(chk)
    c06d(chk)
    stat_run_hands_spectrum_on(chk, "C06.d")
    stat_runner_prints_value_as_computed(chk, "C06.d")
    c06e(chk)
    f_statistic_formulas(chk)
    cells_paired_with_frequencies(chk)
    frequency_definition(chk, "C06.e")
    # shared clauses: the estimators sum over the polymorphic classes only (decided for C14), and pi's C(n, 2) comes from the factorial
    # helpers decided for C02
    chk.borrow(lambda: c14d(chk), "C06.f", 5)
    import rules_create as RC_
    chk.borrow(lambda: RC_.c02g(chk), "C06.g", 7)
    # `equal the same quantities computed directly from the genotypes`: which genotypes count as 0, 1 or 2 ALT alleles (C08.a/b/c/e)
    import rules_geno as RG6_
    def _geno6():
        g_ = RG6_.GenoFrom(chk)
        if g_.ok:
            RG6_.c08a(chk, g_)
            RG6_.c08b(chk, g_)
            RG6_.c08c(chk, g_)
            RG6_.c08e(chk, g_)
    chk.borrow(_geno6, "C06.h", 5)
    for r, n in (("C06.a", 28), ("C06.b", 16), ("C06.c", 7), ("C06.d", 10), ("C06.e", 6)):
        chk.floor(r, n)


def c06a(chk):
    f, arms = calc_table(chk)
    if f is None or arms is None:
        return
    chk.ob("C06.a", "Statistic::calculate/variants", sorted(arms) == sorted(CLI_TABLE), f.loc(),
           "the 14 CLI statistics must be exactly the reviewed set (found %s)" % sorted(arms))
    for v in sorted(arms):
        if v not in CLI_TABLE:
            chk.ob("C06.a", "calculate/%s/UNREVIEWED" % v, False, f.loc(), "new statistic without a reviewed row")
            continue
        want, hdr, norm = CLI_TABLE[v]
        calls = [p for b, p in arms[v] if not p.endswith("::into_normalized")]
        chk.saw_calls(len(arms[v]))
        chk.ob("C06.a", "calculate/%s->%s" % (v, want.split("::")[-1]), calls == [want], f.loc(),
               "Statistic::%s must evaluate exactly %s (found %s)" % (v, want, calls))
    h = chk.fn(HEADER_NAME)
    if h is not None:
        table, sb = an.enum_match_table(h, lambda s: s.get("adt") == STATISTIC)
        if table is None:
            chk.fail("C06.a", "header_name/match", h.loc(), "match not recognised")
        else:
            for v, tgt in sorted(table.items()):
                lit = None
                for b in an.arm_region(h, sb, tgt):
                    for s in h.stmts(b):
                        if s["k"] == "assign" and P(s["place"])[0] == 0 and s["rv"]["k"] == "use":
                            cv = const_val(s["rv"]["op"])
                            if isinstance(cv, dict) and "str" in cv:
                                lit = cv["str"]
                want = CLI_TABLE.get(v, (None, None, None))[1]
                chk.ob("C06.a", "header_name/%s=%s" % (v, want), lit == want, h.loc(), "header for %s must read %r (found %r)" % (v, want, lit))


def c06b(chk):
    prog = chk.prog
    for meth, want in sorted(LIB_TABLE.items()):
        f = chk.fn(meth)
        if f is None:
            continue
        wpath, _, wgen = want.partition("|")
        found = []
        for b, t in f.calls():
            p = t["callee"].get("path") or ""
            if p.startswith(STAT) and ("::from_s" in p):
                found.append((p, t["callee"].get("args", [])))
        ok = len(found) == 1 and found[0][0] == wpath and (not wgen or (found[0][1] and found[0][1][0] == wgen))
        chk.saw_calls(len(found))
        chk.ob("C06.b", "%s->%s" % (meth.split("::")[-1], (wgen or wpath).split("stat::")[-1]), ok, f.loc(),
               "library method must construct %s%s (found %s)" % (wpath, ("<" + wgen + ">") if wgen else "", found))
        # the value returned is field 0 of the estimator: Result::map(closure |x| x.0)
        cls = [c for c in prog.closures_of(meth)]
        ok0 = False
        for c in cls:
            d0 = [d for d in c.defs.get(0, []) if d[0] == "assign"]
            if len(d0) == 1 and d0[0][3]["k"] == "use":
                p = op_place(d0[0][3]["op"])
                if p and p[0] == 2 and [e[:2] for e in p[1]] == [("field", 0)]:
                    ok0 = True
        chk.ob("C06.b", "%s/returns-estimate" % meth.split("::")[-1], ok0, f.loc(), "the method returns the estimator's value (`.0`) unchanged", nontrivial=False)
    # D statistic theta pairs (associated types)
    for imp in prog.impls:
        tr = imp.get("trait")
        if tr and tr["path"] == "sfs_core::spectrum::stat::d::private::Statistic":
            tys = {it["name"]: it.get("ty") for it in imp["items"] if it["kind"] == "Type"}
            want = D_TABLE.get(imp["self_ty"])
            chk.ob("C06.b", "D<%s>/(T1,T2)" % imp["self_ty"].split("::")[-1], want is not None and (tys.get("T1"), tys.get("T2")) == want,
                   "%s:%d" % (imp["span"]["file"], imp["span"]["line"]),
                   "theta pair must be %s (found %s)" % (want, (tys.get("T1"), tys.get("T2"))))
    e = chk.fn("sfs_core::spectrum::stat::d::private::Statistic::estimate_unchecked")
    if e is not None:
        t = {}
        for b, tt in e.calls():
            p = tt["callee"].get("path") or ""
            if p.endswith("Theta::<E>::from_spectrum_unchecked"):
                ga = (tt["callee"].get("args") or [""])[0]
                which = "T1" if ga.endswith("::T1") else ("T2" if ga.endswith("::T2") else None)
                t[which] = an.call_dest_local(tt)
            if p.endswith("Statistic::variance"):
                t["var"] = an.call_dest_local(tt)
        ok = False
        why = "shape not recognised"
        d0 = [d for d in e.defs.get(0, []) if d[0] == "assign"]
        if len(d0) == 1 and d0[0][3]["k"] == "binop" and d0[0][3]["op"] == "Div" and {"T1", "T2", "var"} <= set(t):
            num = op_local(d0[0][3]["l"])
            den = op_local(d0[0][3]["r"])
            nd = e.single_def(e.copy_root(num)) if num is not None else None
            if nd and nd[0] == "assign" and nd[3]["k"] == "binop" and nd[3]["op"] == "Sub":
                def root(op):
                    l = op_local(op)
                    if l is None:
                        return None
                    l = e.copy_root(l)
                    d = e.single_def(l)
                    if d and d[0] == "assign" and d[3]["k"] == "use":
                        p = op_place(d[3]["op"])
                        if p and p[1] and p[1][0][:2] == ("field", 0):
                            return p[0]
                    return l
                ok = root(nd[3]["l"]) == t["T1"] and root(nd[3]["r"]) == t["T2"] and e.copy_root(den) == t["var"]
                why = "numerator = theta<%s> - theta<%s>, denominator = variance: %s" % ("T1" if root(nd[3]["l"]) == t["T1"] else "?", "T2" if root(nd[3]["r"]) == t["T2"] else "?", e.copy_root(den) == t["var"])
        chk.ob("C06.b", "D::estimate_unchecked=(t1-t2)/variance", ok, e.loc(), why)
    # Theta::from_spectrum_unchecked dispatches to E::estimate_unchecked; FuLi overrides it (weight unimplemented)
    for imp in prog.impls:
        tr = imp.get("trait")
        if tr and tr["path"] == "sfs_core::spectrum::stat::theta::private::Estimator":
            names = sorted(it["name"] for it in imp["items"])
            nm = imp["self_ty"].split("::")[-1]
            want = ["estimate_unchecked", "weight"] if nm == "FuLi" else ["weight"]
            chk.ob("C06.b", "theta::%s/overrides" % nm, names == want, "%s:%d" % (imp["span"]["file"], imp["span"]["line"]),
                   "estimator %s must define %s (found %s)" % (nm, want, names), nontrivial=False)
    theta_default_estimator(chk)


def theta_default_estimator(chk):
    """theta = sum over the interior classes i of weight(i, n) * value_i with n = elements() - 1: the class index handed to weight() is
    the position of the value it multiplies, whatever pairs them up (enumerate, a zipped range)"""
    import iters as IT
    prog = chk.prog
    f = chk.fn(STAT + "theta::private::Estimator::estimate_unchecked")
    if f is None:
        return
    unit = [f] + prog.closures_of(f.path)
    ws = [(g, b, t) for g in unit for b, t in g.calls() if callee_name(t["callee"]).endswith("Estimator::weight") or (t["callee"].get("path") or "").endswith("Estimator::weight")]
    if not ws:
        # the weight function handed over as a value and called through Fn::call (after a helper was inlined)
        ws = [(g, b, t) for g in unit for b, t in g.calls() if (t["callee"].get("path") or "").startswith("core::ops::function::Fn") and len(t["args"]) == 2]
    ok = False
    why = "expected exactly one weight(i, n) call inside the iteration over the values (found %d)" % len(ws)
    if len(ws) == 1:
        g, wb, wt = ws[0]
        its = [it for it in IT.iterations(prog, f) if it.body is g and wb in it.blocks]
        it = min(its, key=lambda x: len(x.blocks)) if its else None
        args = wt["args"]
        if len(args) == 2 and (wt["callee"].get("path") or "").startswith("core::ops::function::Fn"):
            # Fn::call(&weight, (i, n)): the tuple's parts
            tl = op_local(args[1])
            td = g.single_def(g.copy_root(tl)) if tl is not None else None
            args = td[3]["ops"] if td and td[0] == "assign" and td[3]["k"] == "aggregate" and td[3].get("akind") == "tuple" else []
        if it is not None and len(args) == 2:
            chk.fns_analysed.add(g.path)
            w = IT.value_window(f, it.chain(), lambda pl, names: bool([e for e in pl[1] if e[0] == "field" and e[2] in ("array", "data")]) or ("Spectrum<" in f.local_ty(pl[0]) and ("inner" in names or "as_slice" in names)))
            ipath = it.elem_path(args[0])
            # n: elements() - 1, computed outside the body
            o = it.outer_root(args[1])
            nform = an.affine_form_opaque(it.parent, o) if o is not None else None
            n_ok = nform is not None and nform[0] == 1 and nform[1] == -1 and nform[2] is not None and "elements" in nform[2]
            # the product weight * value is what is summed
            res = an.call_dest_local(wt)
            prod = False
            vpath = None
            for _, _, p_, rv, _ in g.assigns():
                if rv["k"] == "binop" and rv["op"] == "Mul":
                    ls = [op_local(rv["l"]), op_local(rv["r"])]
                    if any(l_ is not None and g.copy_root(l_) == res for l_ in ls):
                        other = rv["r"] if (ls[0] is not None and g.copy_root(ls[0]) == res) else rv["l"]
                        vpath = it.elem_path(other)
                        prod = (p_[0] == 0 or it.kind == "loop")
            aligned = w is not None and w["index_path"] is not None and ipath == w["index_path"] and vpath == w["value_path"] and w["index_first"] == w["first"]
            ok = aligned and n_ok and prod
            why = "weight's class index is element part %s, the value multiplied is part %s; the chain pairs index part %s (starting at %s) with value part %s (starting at position %s); n = elements() - 1: %s; weight * value is the term: %s" % (
                ipath, vpath, w and w["index_path"], w and w["index_first"], w and w["value_path"], w and w["first"], n_ok, prod)
    chk.ob("C06.b", "theta::Estimator::estimate_unchecked=sum(weight(i,n)*v_i)", ok, f.loc(), why)


def c06c(chk):
    prog = chk.prog
    # signatures: from_sfs take &Spectrum<Frequencies>
    for nm in ("F2", "F3", "F4", "Fst"):
        f = chk.fn(STAT + nm + "::from_sfs")
        if f is None:
            continue
        ty = f.locals[1]["ty"]
        chk.ob("C06.c", "%s::from_sfs/takes-&Sfs" % nm, ty == "&sfs_core::spectrum::Spectrum<sfs_core::spectrum::Frequencies>", f.loc(),
               "f-statistics are only defined on the normalised type (argument type %s)" % ty)
    # into_normalized
    f = chk.fn(SP + "into_normalized")
    if f is not None:
        n = an.calls(f, SP + "normalize")
        c = an.calls(f, SP + "into_state_unchecked")
        ok = len(n) == 1 and len(c) == 1 and f.dominates(n[0][0], c[0][0]) and n[0][0] != c[0][0]
        same = ok and an.arg_pointee(f, n[0][1], 0) == (1, ()) and op_local(c[0][1]["args"][0]) is not None and f.copy_root(op_local(c[0][1]["args"][0])) == 1
        chk.ob("C06.c", "into_normalized/normalize-dominates-state-change", ok and same, f.loc(), "self.normalize() must precede self.into_state_unchecked::<Frequencies>() on the same value")
    # every into_state_unchecked::<R> elsewhere preserves the state
    for g in prog.fn_list:
        if g.derived:
            continue
        for b, t in g.calls():
            if callee_is(t["callee"], SP + "into_state_unchecked"):
                chk.saw_calls()
                args = t["callee"].get("args", [])
                src, dst = (args + [None, None])[:2]
                if g.path == SP + "into_normalized":
                    ok = dst == "sfs_core::spectrum::Frequencies"
                    chk.ob("C06.c", "into_state_unchecked@into_normalized", ok, g.loc(b), "the one state-changing conversion targets Frequencies (found %s)" % dst, nontrivial=False)
                    continue
                # state-preserving: destination is the enclosing impl's own parameter S, or the source equals the destination
                pres = (dst == "S") or (src == dst)
                # Scs::from(array).into_state_unchecked::<S>() inside Spectrum<S> methods: the array came from self (same state)
                chk.ob("C06.c", "into_state_unchecked@%s" % g.path.split("spectrum::")[-1], pres, g.loc(b),
                       "outside into_normalized a state conversion must be state-preserving (from %s to %s)" % (src, dst))
    # Spectrum literals
    lits = set()
    for g in prog.fn_list:
        for b, i, p, rv, s in g.assigns():
            if rv["k"] == "aggregate" and rv["akind"] == "adt" and rv["adt"] == SPECTRUM:
                lits.add(g.path)
    allowed = {SP + "into_state_unchecked", "<sfs_core::spectrum::Spectrum<S> as core::clone::Clone>::clone",
               "<sfs_core::spectrum::Spectrum<sfs_core::spectrum::Counts> as core::convert::From<sfs_core::array::Array<f64>>>::from"}
    chk.ob("C06.c", "Spectrum-literals", lits <= allowed and len(lits) == 3, "", "Spectrum { array, state } may only be written in %s (found %s)" % (sorted(allowed), sorted(lits)))
    # normalize
    f = chk.fn(SP + "normalize")
    if f is not None:
        sums = an.calls(f, SP + "sum")
        upd = an.each_element_update(prog, f)
        ok = False
        why = "sum() / per-element update not recognised (accepted idioms: iter_mut().for_each(|x| ..), `for x in ..iter_mut()`)"
        if len(sums) == 1 and upd is not None and upd["kind"] in ("for_each", "loop") and f.dominates(sums[0][0], upd["bb"]):
            sd = an.call_dest_local(sums[0][1])
            adapt = [a_ for a_ in upd["adaptors"] if a_ not in ("into_iter", "sum")]
            whole = adapt == ["iter_mut"] and (SPECTRUM, "array") in upd["fields"]
            g = upd["store_fn"]
            st = upd["store"]
            div_ok = False
            cap_ok = False
            if st is not None and st["k"] == "binop" and st["op"] == "Div" and g is not None:
                lp = op_place(st["l"])
                elem = (2, (("deref",),)) if upd["kind"] == "for_each" else (upd.get("payload"), (("deref",),))
                same_elem = lp == elem
                sl2, info2 = g.slice_locals(st["r"], through_calls=False)
                if upd["kind"] == "for_each":
                    caps = an.closure_captures(f, g.path) or []
                    cap_ok = [c for c in caps if c is not None] == [(sd, ())]
                    div_ok = same_elem and 1 in sl2 and not info2["binops"]
                else:
                    cap_ok = sd in sl2 or (op_local(st["r"]) is not None and f.copy_root(op_local(st["r"])) == sd)
                    div_ok = same_elem and not info2["binops"]
            ok = cap_ok and whole and div_ok and upd["unconditional"]
            why = "divisor is the sum taken before the loop=%s, iterates every element=%s, element = element / sum=%s, unconditional (no early return / branch around the division)=%s [%s idiom]" % (cap_ok, whole, div_ok, upd["unconditional"], upd["kind"])
        chk.ob("C06.c", "normalize/divides-every-element-by-prior-sum", ok, f.loc(), why)
    s = chk.fn(SP + "sum")
    if s is not None:
        sl_ok = False
        for b, t in s.calls():
            if callee_is(t["callee"], "core::iter::traits::iterator::Iterator::sum"):
                sl, info = s.slice_locals(t["args"][0])
                adapt = [(x[1]["callee"].get("path") or "").split("::")[-1] for x in info["calls"]]
                sl_ok = adapt == ["iter"]
        chk.ob("C06.c", "Spectrum::sum/over-all-elements", sl_ok, s.loc(), "sum() adds every element (no skip/take)")


GUARDS = {
    # unchecked fn -> (checked caller, kind, constant)
    STAT + "PiXY::from_spectrum_unchecked": (STAT + "PiXY::from_spectrum", "dim", 2),
    STAT + "F2::from_sfs_unchecked": (STAT + "F2::from_sfs", "dim", 2),
    STAT + "F3::from_sfs_unchecked": (STAT + "F3::from_sfs", "dim", 3),
    STAT + "F4::from_sfs_unchecked": (STAT + "F4::from_sfs", "dim", 4),
    STAT + "Fst::from_sfs_unchecked": (STAT + "Fst::from_sfs", "dim", 2),
    STAT + "King::from_spectrum_unchecked": (STAT + "King::from_spectrum", "shape33", None),
    STAT + "R0::from_spectrum_unchecked": (STAT + "R0::from_spectrum", "shape33", None),
    STAT + "R1::from_spectrum_unchecked": (STAT + "R1::from_spectrum", "shape33", None),
    STAT + "theta::Theta::<E>::from_spectrum_unchecked": (STAT + "theta::Theta::<E>::from_spectrum", "dim", 1),
    STAT + "d::D::<S>::from_spectrum_unchecked": (STAT + "d::D::<S>::from_scs", "dim", 1),
}
INHERIT = {
    # callers that may call an unchecked fn because they carry the same precondition themselves
    STAT + "theta::Theta::<E>::from_spectrum_unchecked": {STAT + "d::private::Statistic::estimate_unchecked": "DIM(1) inherited from D::from_scs"},
}


def dim_guard_edge(f, call_bb, kind, const):
    """is call_bb dominated by the true edge of `dimensions() == const` / `shape().0 == [3,3]`?"""
    for sb, st in f.switches():
        s = an.switch_subject(f, sb)
        if s["kind"] != "value" or s["root"] is None:
            continue
        d = f.single_def(s["root"])
        if kind == "dim" and d and d[0] == "assign" and d[3]["k"] == "binop" and d[3]["op"] in ("Eq", "Ne"):
            ls = [d[3]["l"], d[3]["r"]]
            cs = []
            for x in ls:
                cc = an.const_of(f, x)
                cs.append(cc.get("val") if cc is not None and isinstance(cc.get("val"), int) and not isinstance(cc.get("val"), bool) else None)
            if const in cs:
                other = ls[1 - cs.index(const)]
                ol = op_local(other)
                od = f.single_def(f.copy_root(ol)) if ol is not None else None
                if od and od[0] == "call" and callee_is(od[2]["callee"], SP + "dimensions") and _param_deref(f, od[2]["args"][0]) == 1:
                    equal_edge = st["otherwise"] if d[3]["op"] == "Eq" else an.edge_target(st, 0)
                    if an.dominated_by_edge(f, sb, equal_edge, call_bb):
                        return True
        if kind == "shape33" and d and d[0] == "call" and callee_is(d[2]["callee"], "core::cmp::PartialEq::eq"):
            # Vec<usize> == [usize; 2] with promoted [3, 3]
            a1 = d[2]["args"][1]
            c = an.const_of(f, a1)
            val = None
            if c is not None and "promoted" in c:
                val = promoted_value(f, c["promoted"])
            elif c is not None:
                val = c.get("val")
            lhs = d[2]["args"][0]
            sl, info = f.slice_locals(lhs)
            from_shape = any(callee_is(x[1]["callee"], SP + "shape") for x in info["calls"])
            if val == [3, 3] and from_shape and an.dominated_by_edge(f, sb, st["otherwise"], call_bb):
                return True
    return False


def _param_deref(f, op):
    l = op_local(op)
    if l is None:
        return None
    r = f.resolve_ptr(l)
    if r and r[1] == (("deref",),):
        return r[0]
    if 1 <= l <= f.argc:
        return l
    return f.copy_root(l)


def promoted_value(f, idx):
    """evaluate a promoted constant body consisting of an aggregate of constants (arrays / arrays of arrays)"""
    pr = f.raw.get("promoted", [])
    if idx >= len(pr):
        return None
    body = pr[idx]
    vals = {}
    for blk in body["blocks"]:
        for s in blk["stmts"]:
            if s["k"] != "assign":
                continue
            p = P(s["place"])
            rv = s["rv"]

            def ev(op):
                if op["k"] == "const":
                    return op.get("val")
                pl = op_place(op)
                if pl and not pl[1]:
                    return vals.get(pl[0])
                return None
            if not p[1]:
                if rv["k"] == "aggregate" and rv["akind"] in ("array", "tuple"):
                    vals[p[0]] = [ev(o) for o in rv["ops"]]
                elif rv["k"] == "use":
                    vals[p[0]] = ev(rv["op"])
                elif rv["k"] == "ref":
                    q = P(rv["place"])
                    if not q[1]:
                        vals[p[0]] = vals.get(q[0])
    return vals.get(0)


def indexed_consts(f, op_or_local, stop=None):
    """constant indices k of `x[k]` reads (place projections and Index::index calls) in the backward slice of an operand"""
    sl, info = f.slice_locals(op_or_local, through_calls=True, stop=stop)
    ks = set()
    for l in sl:
        for d in f.defs.get(l, []):
            if d[0] == "assign" and d[3]["k"] == "use":
                p = op_place(d[3]["op"])
                if p:
                    for e in p[1]:
                        if e[0] == "index":
                            c = an.const_of(f, {"k": "copy", "place": {"l": e[1], "p": []}})
                            if c is not None and isinstance(c.get("val"), int):
                                ks.add(c["val"])
                        if e[0] == "constindex":
                            ks.add(e[1])
    for b, t in info["calls"]:
        if callee_is(t["callee"], N.INDEX) and len(t["args"]) == 2:
            c = an.const_of(f, t["args"][1])
            if c is not None and isinstance(c.get("val"), int):
                ks.add(c["val"])
    return ks


def c06e(chk):
    """axis-role consistency and definitional wiring that is visible in the shape of the code"""
    prog = chk.prog
    import iters as IT
    single_result_expression(chk, "C06.e")
    f = chk.fn(STAT + "Fst::from_sfs_unchecked")
    if f is not None:
        its = IT.iterations(prog, f)
        n = 0
        dens = []
        where = f.loc()
        for g in [f] + prog.closures_of(f.path):
            chk.fns_analysed.add(g.path)
            for b, i, p, rv, s in g.assigns():
                if rv["k"] != "binop" or rv["op"] != "Div":
                    continue
                # the divisor: a value of from_sfs_unchecked computed outside the per-class body (captured by a closure / read in a loop)
                inside = [it for it in its if it.body is g and b in it.blocks]
                it = min(inside, key=lambda x: len(x.blocks)) if inside else None
                if it is None:
                    continue
                root = it.outer_root(rv["r"])
                if root is None:
                    continue
                # .. defined before the iteration
                dd = f.single_def(root)
                if dd is None or (it.kind == "loop" and dd[1] in it.loop_blocks):
                    continue
                n += 1
                where = g.loc(b)
                k_den = indexed_consts(f, root)
                stop = (lambda l, it=it: l == it.elem_local) if it.kind == "loop" else None
                k_num = indexed_consts(g, rv["l"], stop=stop)
                dens.append(tuple(sorted(k_den)))
                chk.ob("C06.e", "Fst/correction-term#%d/frequency-and-sample-size-of-the-same-axis" % n, len(k_den) == 1 and k_num == k_den, g.loc(b),
                       "f(1-f)/(n-1) must combine the allele frequency and the sample size of the same population: numerator reads fs%s, divisor derives from shape%s" % (sorted(k_num), sorted(k_den)))
        chk.ob("C06.e", "Fst/two-correction-terms", n == 2, where, "expected the two per-population sample-size corrections (found %d)" % n, nontrivial=False)
        # the two sample sizes come from different axes
        chk.ob("C06.e", "Fst/sample-sizes-from-axes-0-and-1", sorted(dens) == [(0,), (1,)], f.loc(), "n_i - 1, n_j - 1 derive from shape[0] and shape[1] (found %s)" % dens)
    h = chk.fn("sfs_core::utils::harmonic")
    if h is not None:
        cs = [(b, t) for b, t in h.calls()]
        ok = len(cs) == 1 and callee_is(cs[0][1]["callee"], "sfs_core::utils::p_harmonic") and not list(h.switches()) and const_val(cs[0][1]["args"][1]) == 1 and op_local(cs[0][1]["args"][0]) is not None and h.copy_root(op_local(cs[0][1]["args"][0])) == 1
        chk.ob("C06.e", "harmonic=p_harmonic(n,1)", ok, h.loc(), "a_n is computed by the exact sum p_harmonic(n, 1) on every path (no approximation branch)")
    ph = chk.fn("sfs_core::utils::p_harmonic")
    if ph is not None:
        rng = [rv for b, i, p, rv, s in ph.assigns() if rv["k"] == "aggregate" and rv.get("adt") == "core::ops::range::Range"]
        import iters as IT
        pits = IT.iterations(prog, ph)
        loops = [it for it in pits if it.kind == "loop" and it.parent is ph]
        stray = [b for b, t in ph.switches() if not any(b == it.switch_bb for it in loops)]
        ok = len(rng) == 1 and const_val(rng[0]["ops"][0]) == 1 and op_local(rng[0]["ops"][1]) is not None and ph.copy_root(op_local(rng[0]["ops"][1])) == 1 and not stray and all(it.runs_for_every_element() for it in pits)
        chk.ob("C06.e", "p_harmonic/sum-over-1..n", ok, ph.loc(), "a_n = sum_{i=1}^{n-1} 1/i^p: the half-open range 1..n on every path")
        okc = False
        divs = []
        pows = []
        for c in [ph] + prog.closures_of(ph.path):
            divs += [rv for b, i, p, rv, s in c.assigns() if rv["k"] == "binop" and rv["op"] == "Div"]
            pows += [t for b, t in c.calls() if (t["callee"].get("path") or "") == "core::num::<impl u64>::pow"]
        okc = len(divs) == 1 and isinstance(const_val(divs[0]["l"]), dict) and const_val(divs[0]["l"]).get("f") == "1.0" and len(pows) == 1
        chk.ob("C06.e", "p_harmonic/term=1/i^p", okc, ph.loc(), "each term is 1.0 / (i.pow(p) as f64)")


def c06d(chk):
    prog = chk.prog
    for unchecked, (caller, kind, const) in sorted(GUARDS.items()):
        g = prog.fn(unchecked)
        if g is None:
            chk.fail("C06.d", "ANCHOR-MISSING:" + unchecked, "", "estimator body not found")
            continue
        chk.fns_analysed.add(unchecked)
        sites = prog.callers_of(unchecked)
        for f, b, t in sites:
            chk.saw_calls()
            if f.path == caller:
                ok = dim_guard_edge(f, b, kind, const)
                chk.ob("C06.d", "%s<=guard(%s)" % (unchecked.split("stat::")[-1], kind if const is None else "%s==%s" % (kind, const)), ok, f.loc(b),
                       "%s must be dominated by its %s guard in %s" % (unchecked.split("::")[-1], "shape == [3,3]" if kind == "shape33" else "dimensions() == %s" % const, caller.split("stat::")[-1]))
            elif f.path in INHERIT.get(unchecked, {}):
                chk.ob("C06.d", "%s<=inherited@%s" % (unchecked.split("stat::")[-1], f.path.split("stat::")[-1]), True, f.loc(b), INHERIT[unchecked][f.path], nontrivial=False)
            else:
                chk.ob("C06.d", "%s/UNREVIEWED-CALLER:%s" % (unchecked.split("stat::")[-1], f.path), False, f.loc(b),
                       "an unchecked estimator body may only be called from its guarded constructor")
        if not sites:
            chk.ob("C06.d", "%s/no-caller" % unchecked.split("stat::")[-1], False, g.loc(), "expected the guarded constructor to call it")
    # estimate_unchecked of D is reached only from D::from_spectrum_unchecked
    e = STAT + "d::private::Statistic::estimate_unchecked"
    cs = sorted({f.path for f, b, t in prog.callers_of(e)})
    chk.ob("C06.d", "D::estimate_unchecked/callers", cs == [STAT + "d::D::<S>::from_spectrum_unchecked"], "", "callers: %s" % cs)


# ====================================================================================
# C14
# ====================================================================================
def check_C14(chk):
    chk.explanation = (
        "Structural clauses of C14 (the f2-decomposition, fold invariance and swap symmetry are algebraic identities over values and are not "
        "decided): (a) the degree-0 statistics f2/f3/f4/Fst exist only on Spectrum<Frequencies>, every value of which is x/sum(x) (C06.c "
        "typestate); (b) in the CLI exactly {F2,F3,F4,Fst} normalise and the linear statistics never do; (c) the constant cells read by "
        "KING/R0/R1 exclude the monomorphic cells [0,0] and [2,2]; (d) S, pi/theta, pi_xy and Fst iterate interior classes only "
        "(skip(1) and take(elements-1)).")
    chk.not_decided = ("f3/f4 = combinations of f2 of marginals; invariance under folding; symmetry under swapping populations; "
                       "exact scaling of linear statistics (algebra over values)")
    c06c(chk)  # typestate, re-used as C14.a
    # relabel the obligations just added
    for o in chk.obs:
        if o["rule"] == "C06.c":
            o["rule"] = "C14.a"
            o["id"] = "C14.a/" + o["key"]
    chk.rule_counts["C14.a"] = chk.rule_counts.pop("C06.c", 0)
    c14b(chk)
    c14c(chk)
    c14d(chk)
    # shared clause: Hudson's Fst pairs each population's frequency with its own sample size (decided for C06), else swapping the
    # populations changes it
    chk.borrow(lambda: c06e(chk), "C14.e", 5)
    # .. which estimator each statistic is (C06.b: an estimator that overrides the shared interior-only summation leaves the monomorphic
    # classes in), and that f2's per-cell term pairs every cell with its own frequencies (C06.e: the f3/f4 decomposition is over those terms)
    chk.borrow(lambda: (c06b(chk), f_statistic_formulas(chk), cells_paired_with_frequencies(chk)), "C14.f", 10)
    # `computed from its two-population marginals`: the marginal keeps the remaining axes in their original order (C04.c/d)
    import rules_num as RN14_
    chk.borrow(lambda: (RN14_.c04c(chk), RN14_.c04d(chk)), "C14.g", 8)
    for r, n in (("C14.a", 7), ("C14.b", 14), ("C14.c", 3), ("C14.d", 5)):
        chk.floor(r, n)


def c14b(chk):
    f, arms = calc_table(chk)
    if f is None or arms is None:
        return
    for v in sorted(arms):
        if v not in CLI_TABLE:
            chk.ob("C14.b", "calculate/%s/UNREVIEWED" % v, False, f.loc(), "new statistic without a reviewed normalisation row")
            continue
        norm = CLI_TABLE[v][2]
        has = any(p.endswith("::into_normalized") or p.endswith("::normalize") for b, p in arms[v])
        chk.ob("C14.b", "calculate/%s/normalised=%s" % (v, norm), has == norm, f.loc(),
               "%s must%s be computed on the normalised spectrum (scale-invariant statistics normalise; linear ones must scale with the input)" % (v, "" if norm else " not"))
    stat_run_hands_spectrum_on(chk, "C14.b")
    stat_runner_prints_value_as_computed(chk, "C14.b")


def stat_run_hands_spectrum_on(chk, rule):
    """`sfs stat` computes what was asked on what was read: between read()? and the runner the CLI glue looks at the spectrum through nothing
    (a pre-check such as `segregating_sites() < 1.0` makes the outcome of every statistic depend on the scale of the input)"""
    prog = chk.prog
    f = chk.fn("sfs::stat::Stat::run")
    if f is None:
        return
    rd = an.calls(f, "sfs_core::spectrum::io::read::Builder::read")
    if len(rd) != 1:
        chk.fail(rule, "Stat::run/read", f.loc(), "expected one read() call, found %d" % len(rd))
        return
    tb = an.try_branch_of(f, rd[0][0])
    import rules_io as RIO
    # the spectrum: the Continue payload of read()?
    scs = None
    if tb is not None:
        for b_, i_, p_, rv_, s_ in f.assigns():
            if rv_["k"] == "use" and not p_[1]:
                pl = op_place(rv_["op"])
                if pl and pl[1] and any(e[0] == "downcast" and e[1] == "Continue" for e in pl[1]) and "Spectrum" in f.local_ty(p_[0]):
                    scs = f.copy_root(p_[0]) if f.single_def(p_[0]) else p_[0]
    if scs is None:
        chk.fail(rule, "Stat::run/spectrum", f.loc(), "the spectrum read was not found")
        return
    roots = {scs}
    changed = True
    while changed:
        changed = False
        for b_, i_, p_, rv_, s_ in f.assigns():
            if p_[1] or p_[0] in roots:
                continue
            src = None
            if rv_["k"] == "use":
                pl = op_place(rv_["op"])
                src = pl[0] if pl and not pl[1] else None
            elif rv_["k"] == "ref":
                pl = P(rv_["place"])
                src = pl[0]
            if src in roots:
                roots.add(p_[0])
                changed = True
    users = []
    for b_, t_ in f.calls():
        for a_ in t_["args"]:
            pl = op_place(a_)
            if pl and pl[0] in roots:
                users.append(callee_name(t_["callee"]))
    other = sorted({u for u in users if not u.endswith("Runner::<W>::new") and "Runner" not in u.split("::new")[0].split("::")[-1] + u})
    other = sorted({u for u in users if "::runner::Runner" not in u})
    chk.ob(rule, "Stat::run/spectrum-goes-to-the-runner-only", bool(users) and not other, f.loc(rd[0][0]),
           "the spectrum read is handed to stat::runner::Runner and used by nothing else in Stat::run (other users: %s)" % (other or "none"))


def stat_runner_prints_value_as_computed(chk, rule):
    """the number `sfs stat` prints is the number the statistic returned: the output code of cli/src/stat/runner.rs computes nothing on f64
    (a flush-to-zero below a fixed magnitude is wrong at every precision but the one it was written for)"""
    prog = chk.prog
    import rules_io as RIO
    fns = [g for g in prog.fn_list if not g.derived and g.path.startswith("sfs::stat::runner::")]
    # ... and so does the dispatch from the CLI's Statistic to the library (`.max(0.0)` on Fst, `.round()` on S are reported values that
    # the statistic never had)
    calc = prog.fn("sfs::stat::Statistic::calculate")
    if calc is not None:
        fns += [calc] + prog.closures_of(calc.path)
    comp = RIO.float_computation_in(prog, fns)
    chk.ob(rule, "stat::runner/prints-the-computed-value(no-float-computation)", len(fns) >= 1 and not comp, "",
           "f64 operations in %d functions of sfs::stat::runner and Statistic::calculate: %s" % (len(fns), comp or "none"))


def const_index_arrays(chk, f):
    """constant [usize; 2] index arrays used in Spectrum::index calls of f and its closures"""
    out = []
    bodies = [f] + chk.prog.closures_of(f.path)
    for g in bodies:
        for b, t in g.calls():
            if callee_is(t["callee"], N.INDEX) and "Spectrum" in (t["callee"].get("self_ty") or "") + " ".join(t["callee"].get("args", [])):
                a = t["args"][1]
                v = None
                c = an.const_of(g, a)
                if c is not None:
                    v = c.get("val")
                    if v is None and "promoted" in c:
                        v = promoted_value(g, c["promoted"])
                else:
                    l = op_local(a)
                    d = g.single_def(g.copy_root(l)) if l is not None else None
                    if d and d[0] == "assign" and d[3]["k"] == "aggregate" and d[3]["akind"] == "array":
                        v = [const_val(o) for o in d[3]["ops"]]
                if v is None and g.kind == "Closure":
                    # the closure's own parameter (an item of the promoted table iterated by the parent)
                    sl, info = g.slice_locals(a, through_calls=False)
                    if 2 in sl and not info["binops"]:
                        v = "table-item"
                out.append((g, b, v))
    # index arrays iterated from a promoted table (R1's denominator)
    for g in bodies:
        for b, i, p, rv, s in g.assigns():
            for o in rv_operands(rv):
                if o["k"] == "const" and "promoted" in o:
                    v = promoted_value(g, o["promoted"])
                    if isinstance(v, list) and v and all(isinstance(x, list) and len(x) == 2 for x in v):
                        for x in v:
                            out.append((g, b, x))
    return out


def c14c(chk):
    for nm in ("King", "R0", "R1"):
        f = chk.fn(STAT + nm + "::from_spectrum_unchecked")
        if f is None:
            continue
        idx = const_index_arrays(chk, f)
        vals = [v for g, b, v in idx]
        known = [v for v in vals if isinstance(v, list) and all(isinstance(x, int) for x in v)]
        has_table = sum(1 for v in known) > sum(1 for v in vals if v == "table-item")
        unknown = [v for v in vals if v not in known and not (v == "table-item" and has_table)]
        bad = [v for v in known if v in ([0, 0], [2, 2])]
        chk.saw_calls(len(idx))
        chk.ob("C14.c", "%s/cells-exclude-monomorphic" % nm, bool(known) and not bad and not unknown, f.loc(),
               "%s reads the constant cells %s; none may be [0,0] or [2,2] (non-constant indices: %d)" % (nm, sorted(map(tuple, known)), len(unknown)))


def interior_only(chk, f, rule, key, n_minus=1):
    """the element iteration in f passes through skip(const 1) and take(X) with X = elements() - 1 (or a local derived from it)"""
    skips = an.calls(f, "core::iter::traits::iterator::Iterator::skip")
    takes = an.calls(f, "core::iter::traits::iterator::Iterator::take")
    ok = False
    why = "skip(1)/take(n-1) not found"
    if len(skips) == 1 and len(takes) == 1:
        s1 = const_val(skips[0][1]["args"][1]) == 1
        sl, info = f.slice_locals(takes[0][1]["args"][1])
        from_elems = any(callee_is(x[1]["callee"], SP + "elements") for x in info["calls"])
        subs = [(b["op"], const_val(b["r"])) for b in info["binops"] if b["op"].startswith("Sub")]
        # skip is applied after take (take(n-1).skip(1)): skip's receiver slices to the take call
        sl2, info2 = f.slice_locals(skips[0][1]["args"][0])
        order = any(x[0] == takes[0][0] for x in info2["calls"])
        ok = s1 and from_elems and len(subs) >= 1 and all(c == 1 for _, c in subs) and order
        why = "skip(1)=%s, take(elements()-1)=%s/%s, take-before-skip=%s" % (s1, from_elems, subs, order)
    if not ok:
        # read the window of positions off the adaptor chain instead (whatever combination of take / skip / zip with 0..n / [1..n] spells it)
        w = _interior_window(chk, f)
        if w is not None:
            ok = w["first"] == 1 and w["count"] == (1, -2) and True
            why = "positions %d .. %d + %s*E%+d - 1 of the E entries are visited (all zipped sides of known length: %s)" % (w["first"], w["first"], w["count"][0] if w["count"] else "?", w["count"][1] if w["count"] else 0, w["exact"])
    chk.ob(rule, key, ok, f.loc(), "interior classes only (the two monomorphic entries are excluded): " + why)


def _interior_window(chk, f):
    """the window of the longest iterator chain in f (or one of its closures' parents) whose source is the spectrum's values"""
    import iters as IT
    def is_values(pl, names):
        fl = [e[2] for e in pl[1] if e[0] == "field"]
        if fl and fl[-1] in ("array", "data"):
            return True
        ty = f.local_ty(pl[0])
        if "Spectrum<" in ty and not fl and ("inner" in names or "as_slice" in names):
            return True
        return ("[f64]" in ty or "Vec<f64>" in ty or "Array<f64>" in ty) and not fl
    best = None
    for b, t in f.calls():
        if not t["args"] or op_local(t["args"][0]) is None:
            continue
        if not (t["callee"].get("path") or "").startswith("core::iter::traits::"):
            continue
        ch = IT.receiver_chain(f, t["args"][0])
        if len(ch) < 2:
            continue
        w = IT.value_window(f, ch, is_values)
        if w is None:
            continue
        if best is None or len(ch) > best[0]:
            best = (len(ch), w)
    return best[1] if best else None


def single_result_expression(chk, rule):
    """every statistic is one expression of the sums it accumulates, on every path: the value-computing functions of spectrum::stat define
    their result once and not as a literal (an early `return NaN / 0.0` under a test on the accumulated sums makes the statistic depend on
    the overall scale and on the monomorphic mass, which the definitions do not)"""
    prog = chk.prog
    n = 0
    for f in prog.fn_list:
        if f.derived or f.kind == "Closure" or "::spectrum::stat::" not in f.path:
            continue
        nm = f.path.split("::")[-1]
        if not (nm.endswith("_unchecked") or nm in ("variance",)):
            continue
        ds = f.defs.get(0, [])
        lit = [d for d in ds if d[0] == "assign" and ((d[3]["k"] == "use" and d[3]["op"]["k"] == "const") or
                                                     (d[3]["k"] == "aggregate" and d[3]["ops"] and all(o["k"] == "const" for o in d[3]["ops"])))]
        n += 1
        chk.fns_analysed.add(f.path)
        short = f.path.split("spectrum::stat::")[-1]
        chk.ob(rule, "%s/one-result-expression" % short, len(ds) == 1 and not lit, f.loc(),
               "the result is defined once, from computed values (definitions: %d, literal results: %d)" % (len(ds), len(lit)))
    chk.ob(rule, "statistics/result-expressions-found", n >= 10, "", "%d value-computing functions in spectrum::stat" % n, nontrivial=False)


def frequency_definition(chk, rule):
    """the k-th allele frequency of a cell is index[k] / (shape[k] - 1): in FrequenciesIter::next (with its closures and inlined helpers) there is
    one f64 division, of the zipped index by (the zipped axis length - 1) - no second formula for special cases"""
    prog = chk.prog
    import iters as IT
    f = chk.fn("<sfs_core::spectrum::iter::FrequenciesIter<'a> as core::iter::traits::iterator::Iterator>::next")
    if f is None:
        return
    unit = [f]
    i = 0
    while i < len(unit):
        unit += [c for c in prog.closures_of(unit[i].path) if c not in unit]
        i += 1
    divs = []
    for g in unit:
        chk.fns_analysed.add(g.path)
        for b, i_, p, rv, s_ in g.assigns():
            if rv["k"] == "binop" and rv["op"] == "Div" and "f64" in (rv.get("lty") or g.local_ty(p[0]) or ""):
                divs.append((g, b, rv))

    def strip(g, op, n=0):
        """operand behind casts and copies"""
        l = op_local(op)
        while l is not None and n < 12:
            n += 1
            d = g.single_def(l)
            if d and d[0] == "assign" and d[3]["k"] == "cast":
                op = d[3]["op"]
                l = op_local(op)
                continue
            if d and d[0] == "assign" and d[3]["k"] == "use" and op_local(d[3]["op"]) is not None and not op_place(d[3]["op"])[1]:
                op = d[3]["op"]
                l = op_local(op)
                continue
            break
        return op

    def minus_one_of(g, op):
        """x if the operand is `x - 1` (operator on values or on references), else None"""
        op = strip(g, op)
        pl = op_place(op)
        if pl is None:
            return None
        l, proj = pl
        if proj and len(proj) == 1 and proj[0][0] == "field" and proj[0][1] == 0:
            d = g.single_def(l)
            if d and d[0] == "assign" and d[3]["k"] == "binop" and d[3]["op"].startswith("Sub") and const_val(d[3]["r"]) == 1:
                return d[3]["l"]
            return None
        d = g.single_def(l)
        if d and d[0] == "assign" and d[3]["k"] == "binop" and d[3]["op"].startswith("Sub") and const_val(d[3]["r"]) == 1:
            return d[3]["l"]
        if d and d[0] == "call" and (d[2]["callee"].get("path") or "") == "core::ops::arith::Sub::sub" and len(d[2]["args"]) == 2 and const_val(d[2]["args"][1]) == 1:
            return d[2]["args"][0]
        return None

    ok = False
    why = "%d f64 division(s) in %s" % (len(divs), [g.path.split("::")[-1] for g in unit])
    if len(divs) == 1:
        g, b, rv = divs[0]
        its = [it for h in unit for it in IT.iterations(prog, h) if it.body is g and (it.kind != "loop" or b in it.blocks)]
        for it in its:
            num = it.elem_path(strip(g, rv["l"]))
            x = minus_one_of(g, rv["r"])
            den = it.elem_path(strip(g, x)) if x is not None else None
            names = IT.chain_names(it.chain())
            if num == (0,) and den == (1,) and "zip" in names:
                ok = True
            why = "numerator = element%s, divisor = element%s - 1 of %s" % (num, den, it.describe())
            if ok:
                break
    chk.ob(rule, "FrequenciesIter::next/frequency_k=index_k/(shape_k-1)", ok, f.loc(), why)


def c14d(chk):
    for path, key in ((SCS + "segregating_sites", "S"),
                      (STAT + "theta::private::Estimator::estimate_unchecked", "theta(default estimator: pi, Watterson)"),
                      (STAT + "PiXY::from_spectrum_unchecked", "pi_xy"),
                      (STAT + "Fst::from_sfs_unchecked", "Fst")):
        f = chk.fn(path)
        if f is None:
            continue
        interior_only(chk, f, "C14.d", "%s/interior-only" % key)
    single_result_expression(chk, "C14.d")
    # theta::FuLi reads the singleton class only (constant index 1)
    f = chk.fn("<sfs_core::spectrum::stat::theta::FuLi as sfs_core::spectrum::stat::theta::private::Estimator>::estimate_unchecked")
    if f is not None:
        idx = [(an.const_of(f, t["msg"]["index"]) or {}).get("val") for b, t in f.asserts() if t["msg"]["kind"] == "BoundsCheck"]
        chk.ob("C14.d", "theta::FuLi/singletons-only", idx == [1], f.loc(), "Fu and Li's theta reads class 1 only (indices %s)" % idx)


# ---- the f-statistics as expressions ------------------------------------------------------------------------------------
def formula_term(g, op, depth=0):
    """The f64 value an operand of function/closure g carries, as a term over  v (the scalar spectrum entry handed in) and fs[k] (the k-th
    frequency):  ("v",), ("fs", k), ("const", c), ("mul", a, b), ("sub", a, b), ("add", a, b), ("div", a, b), ("powi", a, n), ("?", why).
    Reads operators written on values (binop) and on references (calls of core::ops::arith::*), through copies, borrows and derefs."""
    if depth > 40:
        return ("?", "depth")
    if op["k"] == "const":
        v = const_val(op)
        return ("const", v.get("f") if isinstance(v, dict) else v)
    pl = op_place(op)
    if pl is None:
        return ("?", "operand")
    l, proj = pl
    idx = [e for e in proj if e[0] in ("index", "constindex")]
    if idx:
        return ("?", "raw index")
    # strip derefs / tuple fields down to a root local, keeping the tuple path
    return _term_of_local(g, l, tuple(e for e in proj if e[0] == "field"), depth + 1)


def _leaf(g, l, fields):
    ty = g.local_ty(l)
    # a closure parameter (possibly a tuple pattern): decide by the type of the addressed part
    part = ty
    for e in fields:
        inner = part.strip().lstrip("&").strip()
        if inner.startswith("(") and inner.endswith(")"):
            from rules_panic import _split_generics
            ps = _split_generics(inner[1:-1])
            if e[1] < len(ps):
                part = ps[e[1]]
    p_ = part.replace("&", "").replace("mut ", "").strip()
    if p_ == "f64":
        return ("v",)
    if p_ in ("[f64]", "alloc::vec::Vec<f64>"):
        return ("fsvec",)
    return ("?", "leaf %s" % p_)


def _term_of_local(g, l, fields, depth):
    if depth > 40:
        return ("?", "depth")
    if 1 <= l <= g.argc:
        return _leaf(g, l, fields)
    d = g.single_def(l)
    if d is None:
        return ("?", "multi-def _%d" % l)
    if d[0] == "assign":
        rv = d[3]
        k = rv["k"]
        if k == "use":
            if rv["op"]["k"] == "const":
                return formula_term(g, rv["op"], depth + 1)
            p2 = op_place(rv["op"])
            if p2 is None:
                return ("?", "use")
            ix = [e for e in p2[1] if e[0] in ("index", "constindex")]
            if ix:
                base = _term_of_local(g, p2[0], tuple(e for e in p2[1][:p2[1].index(ix[0])] if e[0] == "field"), depth + 1)
                kk = ix[0][1] if ix[0][0] == "constindex" else (an.const_of(g, {"k": "copy", "place": {"l": ix[0][1], "p": []}}) or {}).get("val")
                return ("fs", kk) if base == ("fsvec",) and isinstance(kk, int) else ("?", "index of %s" % (base,))
            return _term_of_local(g, p2[0], tuple(e for e in p2[1] if e[0] == "field") + tuple(fields), depth + 1)
        if k in ("ref", "copyforderef", "rawptr"):
            p2 = P(rv["place"])
            ix = [e for e in p2[1] if e[0] in ("index", "constindex")]
            if ix:
                base = _term_of_local(g, p2[0], tuple(e for e in p2[1][:p2[1].index(ix[0])] if e[0] == "field"), depth + 1)
                kk = ix[0][1] if ix[0][0] == "constindex" else (an.const_of(g, {"k": "copy", "place": {"l": ix[0][1], "p": []}}) or {}).get("val")
                return ("fs", kk) if base == ("fsvec",) and isinstance(kk, int) else ("?", "index of %s" % (base,))
            return _term_of_local(g, p2[0], tuple(e for e in p2[1] if e[0] == "field") + tuple(fields), depth + 1)
        if k == "binop":
            op = rv["op"].replace("WithOverflow", "").lower()
            if op in ("mul", "sub", "add", "div"):
                return (op, formula_term(g, rv["l"], depth + 1), formula_term(g, rv["r"], depth + 1))
            return ("?", rv["op"])
        if k == "cast":
            return formula_term(g, rv["op"], depth + 1)
        return ("?", k)
    if d[0] == "call":
        t = d[2]
        cp = t["callee"].get("path") or ""
        nm = callee_name(t["callee"])
        if cp in ("core::ops::arith::Mul::mul", "core::ops::arith::Sub::sub", "core::ops::arith::Add::add", "core::ops::arith::Div::div") and len(t["args"]) == 2:
            return (cp.split("::")[-1], formula_term(g, t["args"][0], depth + 1), formula_term(g, t["args"][1], depth + 1))
        if nm.endswith("::powi") and len(t["args"]) == 2:
            n = an.const_of(g, t["args"][1])
            return ("powi", formula_term(g, t["args"][0], depth + 1), n.get("val") if n else None)
        if cp in ("core::ops::index::Index::index",) and len(t["args"]) == 2:
            base = formula_term(g, t["args"][0], depth + 1)
            n = an.const_of(g, t["args"][1])
            return ("fs", n.get("val")) if base == ("fsvec",) and n and isinstance(n.get("val"), int) else ("?", "Index::index of %s" % (base,))
        if nm.split("::")[-1] in ("deref", "as_ref", "as_slice", "borrow"):
            return formula_term(g, t["args"][0], depth + 1)
        return ("?", "call " + nm.split("::")[-1])
    return ("?", d[0])


def _norm_term(t):
    """products flattened and sorted; a square written (x)*(x) or powi(x, 2) is the same"""
    if not isinstance(t, tuple) or not t:
        return t
    if t[0] == "powi" and t[2] == 2:
        b = _norm_term(t[1])
        return ("mul", b, b) if False else ("prod", tuple(sorted([b, b], key=repr)))
    if t[0] == "mul":
        fs = []
        def flat(x):
            x = _norm_term(x)
            if isinstance(x, tuple) and x and x[0] == "prod":
                fs.extend(x[1])
            else:
                fs.append(x)
        flat(t[1])
        flat(t[2])
        return ("prod", tuple(sorted(fs, key=repr)))
    if t[0] in ("sub", "add", "div"):
        return (t[0], _norm_term(t[1]), _norm_term(t[2]))
    return t


def f_statistic_formulas(chk):
    """F2 = sum v (f0-f1)^2, F3 = sum v (f0-f1)(f0-f2), F4 = sum v (f0-f1)(f2-f3): the per-cell term, read off the innermost function that
    does the arithmetic (the map closure, or a closure handed to a shared summing helper), with v the cell and f_k the k-th frequency"""
    prog = chk.prog
    V = ("v",)
    def d_(a, b):
        return ("sub", ("fs", a), ("fs", b))
    want = {"F2": _norm_term(("mul", V, ("powi", d_(0, 1), 2))),
            "F3": _norm_term(("mul", ("mul", V, d_(0, 1)), d_(0, 2))),
            "F4": _norm_term(("mul", ("mul", V, d_(0, 1)), d_(2, 3)))}
    for nm in ("F2", "F3", "F4"):
        f = chk.fn(STAT + nm + "::from_sfs_unchecked")
        if f is None:
            continue
        unit = [f] + prog.closures_of(f.path)
        # the function(s) of the unit that subtract two frequencies
        arith = [g for g in unit if any(rv["k"] == "binop" and rv["op"].startswith("Sub") for _, _, _, rv, _ in g.assigns()) or
                 any((t["callee"].get("path") or "") == "core::ops::arith::Sub::sub" for _, t in g.calls())]
        got = None
        why = "expected one closure doing the arithmetic, found %d" % len(arith)
        if len(arith) == 1:
            g = arith[0]
            chk.fns_analysed.add(g.path)
            got = _norm_term(formula_term(g, {"k": "copy", "place": {"l": 0, "p": []}}))
            why = "per-cell term %s" % (got,)
        chk.ob("C06.e", "%s/per-cell-term" % nm, got is not None and got == want[nm], f.loc(),
               "%s sums %s over the cells: %s" % (nm, {"F2": "v (f0 - f1)^2", "F3": "v (f0 - f1)(f0 - f2)", "F4": "v (f0 - f1)(f2 - f3)"}[nm], why))


def cells_paired_with_frequencies(chk):
    """F2, F3, F4 and Fst walk the cells of the normalised spectrum together with the frequencies that belong to them: the values
    (`sfs.array.iter()`) zipped with `sfs.iter_frequencies()` of the same spectrum, both in storage order - nothing that reorders or
    shifts one side against the other (rev, skip on one side only, ..) in between"""
    import iters as IT
    prog = chk.prog
    for nm in ("F2", "F3", "F4", "Fst"):
        f = chk.fn(STAT + nm + "::from_sfs_unchecked")
        if f is None:
            continue
        zs = [(b, t) for b, t in f.calls() if (t["callee"].get("path") or "") == "core::iter::traits::iterator::Iterator::zip"]
        ok = False
        why = "expected one zip of the values with iter_frequencies(), found %d zip call(s)" % len(zs)
        if len(zs) == 1:
            zb, zt = zs[0]
            main = IT.receiver_chain(f, zt["args"][0])
            side = IT.receiver_chain(f, zt["args"][1])
            mn, sn = IT.chain_names(main), IT.chain_names(side)
            def is_param_spectrum(pl):
                return pl is not None and pl[0] == 1
            vals = mn in (["iter"], ["iter", "inner"], ["iter", "as_slice", "inner"]) and is_param_spectrum(main[-1][1])
            freqs = sn == ["iter_frequencies"] and is_param_spectrum(side[-1][1])
            ok = vals and freqs
            why = "values side %s over the spectrum=%s, frequencies side %s over the same spectrum=%s" % (mn, vals, sn, freqs)
            chk.saw_calls()
        chk.ob("C06.e", "%s/cells-paired-with-their-frequencies" % nm, ok, f.loc(), "each cell is weighted by its own frequencies: %s" % why)
