#!/usr/bin/env python3
"""A breaking change applied ON TOP of a stored behaviour-preserving refactoring: the generalised rules must still report it.

  mutest_on.py <equivalent-name> <Cxx> <mutant-name> <expect-substring> <file> <old> <new> [<file> <old> <new> ...]
Stores selftest/mutants2/<Cxx>/<mutant-name>.patch (diff against /repo: refactoring + break) and .expect; re-run with
  MUTEST_KIND=mutants2 python3 engine/mutest.py run"""
import os, sys, subprocess, shutil
VERIF = os.path.dirname(os.path.dirname(os.path.abspath(__file__)))
sys.path.insert(0, os.path.join(VERIF, "engine"))
import mutest

eq, pid, name, expect = sys.argv[1:5]
reps = sys.argv[5:]
tmp, repo = mutest.scratch_copy()
try:
    subprocess.run(["git", "init", "-q"], cwd=repo, check=True)
    subprocess.run(["git", "add", "-A"], cwd=repo, check=True)
    subprocess.run(["git", "-c", "user.email=a@b", "-c", "user.name=a", "commit", "-qm", "base"], cwd=repo, check=True)
    patch = os.path.join(VERIF, "selftest", "equivalents", "ALL", eq + ".patch")
    r = subprocess.run(["git", "apply", patch], cwd=repo)
    if r.returncode != 0:
        print("equivalent does not apply"); sys.exit(2)
    for i in range(0, len(reps), 3):
        fp = os.path.join(repo, reps[i])
        s = open(fp).read()
        if s.count(reps[i + 1]) != 1:
            print("replacement text occurs %d times in %s" % (s.count(reps[i + 1]), reps[i])); sys.exit(2)
        open(fp, "w").write(s.replace(reps[i + 1], reps[i + 2]))
    b = subprocess.run("cargo check --offline 2>&1 | grep -E '^error' | head -3", shell=True, cwd=repo, stdout=subprocess.PIPE, text=True).stdout
    shutil.rmtree(os.path.join(repo, "target"), ignore_errors=True)
    if b.strip():
        print("does not compile:", b); sys.exit(2)
    diff = subprocess.run(["git", "diff"], cwd=repo, stdout=subprocess.PIPE, text=True).stdout
    rc, out = mutest.run_check(pid, repo, tmp)
    verdict, line = mutest.judge(pid, out, rc, expect)
    print(verdict, "%s/%s on %s:" % (pid, name, eq), line[:200])
    if verdict == "CAUGHT":
        d = os.path.join(VERIF, "selftest", "mutants2", pid)
        os.makedirs(d, exist_ok=True)
        open(os.path.join(d, name + ".patch"), "w").write(diff)
        open(os.path.join(d, name + ".expect"), "w").write(expect + "\n")
finally:
    shutil.rmtree(tmp, ignore_errors=True)
