#!/bin/bash
# dbgcopy.sh <equivalent-or-patch-name> : scratch copy of /repo with the patch applied, under /tmp/sfsdbg/<name> (debugging aid; remove after use)
set -e
name=$1
patch=/verif/selftest/equivalents/ALL/$name.patch
[ -f "$patch" ] || patch=$1
name=$(basename "$name" .patch)
d=/tmp/sfsdbg/$name
rm -rf "$d"; mkdir -p "$d"
rsync -a --exclude target --exclude .git --exclude _refac --exclude _seeded /repo/ "$d/"
(cd "$d" && git init -q . 2>/dev/null && git apply "$patch")
echo "$d"
