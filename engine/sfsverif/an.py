"""Analysis helpers shared by the rule modules (switch subjects, edges, field effects,
affine forms, format strings ...)."""
from facts import P, pstr, op_place, op_local, op_const, const_val, ostr, rvstr, rv_operands, callee_is, callee_name


# ------------------------------------------------------------------------------------
# calls
# ------------------------------------------------------------------------------------
def calls(fn, *names, suffix=None):
    out = []
    for b, t in fn.calls():
        c = t["callee"]
        if names and callee_is(c, *names):
            out.append((b, t))
        elif suffix and ((c.get("path") or "").endswith(suffix) or (c.get("resolved") or "").endswith(suffix)):
            out.append((b, t))
    return out


def call_dest_local(t):
    p = P(t["dest"])
    return p[0] if not p[1] else None


def arg_pointee(fn, t, i):
    """place an argument points to, if it is a (re)borrow temporary; canonical"""
    a = t["args"][i]
    l = op_local(a)
    if l is None:
        p = op_place(a)
        return fn.canon(p) if p else None
    r = fn.resolve_ptr(l)
    return r


def self_field(p, name=None):
    """is place p = (*_1).<name> (...)?  returns field name or None"""
    l, proj = p
    if l == 1 and len(proj) >= 2 and proj[0] == ("deref",) and proj[1][0] == "field":
        if name is None or proj[1][2] == name:
            return proj[1][2]
    return None


def owned_self_field(p, name=None):
    """p = _1.<name>... for by-value self"""
    l, proj = p
    if l == 1 and len(proj) >= 1 and proj[0][0] == "field":
        if name is None or proj[0][2] == name:
            return proj[0][2]
    return None


# ------------------------------------------------------------------------------------
# switches
# ------------------------------------------------------------------------------------
def switch_subject(fn, b):
    """For the switch terminating block b: returns dict(kind='discr'|'value', place=<canon place>,
    root=<root local after copy chains>, variants={val:name}|None)"""
    t = fn.term(b)
    d = t["discr"]
    l = op_local(d)
    if l is None:
        p = op_place(d)
        return {"kind": "value", "place": fn.canon(p) if p else None, "root": p[0] if p else None, "variants": None}
    # follow copies
    l0 = fn.copy_root(l)
    sd = fn.single_def(l0)
    if sd and sd[0] == "assign" and sd[3]["k"] == "discr":
        pl = fn.canon(P(sd[3]["place"]))
        # `match (a, b) { (Some(x), Some(y)) => .. }`: the discriminant read is that of the tuple's component
        for _ in range(3):
            if pl[1] and pl[1][0][0] == "field":
                td = fn.single_def(pl[0])
                if td and td[0] == "assign" and td[3]["k"] == "aggregate" and td[3].get("akind") == "tuple" and pl[1][0][1] < len(td[3]["ops"]):
                    cp = op_place(td[3]["ops"][pl[1][0][1]])
                    if cp is not None:
                        pl = fn.canon((cp[0], tuple(cp[1]) + tuple(pl[1][1:])))
                        continue
            break
        vs = sd[3].get("variants")
        vmap = {v[0]: v[1] for v in vs} if vs else None
        root = fn.copy_root(pl[0]) if not pl[1] else pl[0]
        return {"kind": "discr", "place": pl, "root": root, "variants": vmap, "adt": sd[3].get("adt"), "ty": sd[3].get("ty")}
    return {"kind": "value", "place": (l0, ()), "root": l0, "variants": None}


def edge_target(t, value):
    for a in t["arms"]:
        if a[0] == value:
            return a[1]
    return t["otherwise"]


def variant_target(fn, b, name):
    """target block of the arm for enum variant `name` of the discriminant switch at b"""
    s = switch_subject(fn, b)
    t = fn.term(b)
    if not s["variants"]:
        return None
    for val, nm in s["variants"].items():
        if nm == name:
            # explicit arm or otherwise (only if no other variant shares otherwise ambiguity matters to caller)
            return edge_target(t, val)
    return None


def switches_on_call_result(fn, call_bb, through_payload=False):
    """switch blocks whose subject is (a copy/field of) the destination of the call at call_bb,
    possibly through Try::branch / Option::map-like single-step wrappers is NOT followed here."""
    t = fn.term(call_bb)
    d = call_dest_local(t)
    out = []
    if d is None:
        return out
    for b, st in fn.switches():
        s = switch_subject(fn, b)
        if s["root"] is None:
            continue
        r = s["root"]
        if r == d or fn.copy_root(r) == d or (through_payload and payload_root(fn, r) == d):
            out.append((b, s))
    return out


def payload_root(fn, local, depth=0):
    """follow `_a = move _b` and `_a = move ((_b as Variant).k)` chains of single-def locals: the local whose (part of a) value `local`
    carries (the `let site = match r { Read(site) => site, .. }` idiom re-binds an enum payload before it is matched again)"""
    if depth > 16:
        return local
    d = fn.single_def(local)
    if d and d[0] == "assign" and d[3]["k"] == "use":
        p = op_place(d[3]["op"])
        if p is not None and all(e[0] in ("field", "downcast") for e in p[1]):
            return payload_root(fn, p[0], depth + 1)
    return local


def try_branch_of(fn, call_bb):
    """if the result of the call at call_bb is propagated with `?` (Try::branch), return (branch_bb, switch_bb, cont_target, break_target).
    The spelled-out form `match call(..) { Ok(v) => v, Err(e) => return Err(..) }` (also for Option) is the same thing and is returned as
    (call_bb, switch_bb, ok_target, err_target) when the failure arm leaves the function with a failure value and never rejoins the success path."""
    t = fn.term(call_bb)
    d = call_dest_local(t)
    if d is None:
        return None
    for b, bt in fn.calls():
        if callee_is(bt["callee"], "core::ops::try_trait::Try::branch"):
            a = op_local(bt["args"][0])
            if a is not None and (a == d or fn.copy_root(a) == d):
                for sb, s in switches_on_call_result(fn, b):
                    st = fn.term(sb)
                    return (b, sb, edge_target(st, 0), edge_target(st, 1))
    for sb, s in switches_on_call_result(fn, call_bb):
        if s["kind"] == "discr" and s["variants"]:
            names = set(s["variants"].values())
            good = "Ok" if names == {"Ok", "Err"} else ("Some" if names == {"Some", "None"} else None)
            if good is None:
                continue
            bad = "Err" if good == "Ok" else "None"
            gt, bt_ = variant_target(fn, sb, good), variant_target(fn, sb, bad)
            if gt is None or bt_ is None or gt == bt_:
                continue
            reach = fn.reachable_from(bt_)
            if gt in reach:
                continue
            # the failure arm assigns a failure value to the return place and returns
            fails = False
            for b2 in reach:
                for st2 in fn.stmts(b2):
                    if st2["k"] == "assign" and P(st2["place"])[0] == 0 and st2["rv"]["k"] == "aggregate" and st2["rv"].get("variant") in ("Err", "None"):
                        fails = True
                t2 = fn.term(b2)
                if t2["k"] == "call" and call_dest_local(t2) == 0 and callee_is(t2["callee"], "core::ops::try_trait::FromResidual::from_residual"):
                    fails = True
            succeeds = any(st2["k"] == "assign" and P(st2["place"])[0] == 0 and st2["rv"]["k"] == "aggregate" and st2["rv"].get("variant") in ("Ok", "Some")
                           for b2 in reach for st2 in fn.stmts(b2))
            if fails and not succeeds and any(fn.term(b2)["k"] == "return" for b2 in reach):
                return (call_bb, sb, gt, bt_)
    return None


def option_outcomes(fn, call_bb):
    """how the Option/Result returned by the call at call_bb is told apart: (switch_bb, success_target, failure_target) for
    `call(..)?` (Try::branch), `match call(..) { Some/Ok(x) => .., None/Err(_) => .. }` and `if let`; None if not recognised"""
    tb = try_branch_of(fn, call_bb)
    if tb is not None:
        return (tb[1], tb[2], tb[3])
    for sb, s in switches_on_call_result(fn, call_bb):
        if s["kind"] == "discr" and s["variants"]:
            good = [nm for nm in s["variants"].values() if nm in ("Some", "Ok")]
            bad = [nm for nm in s["variants"].values() if nm in ("None", "Err")]
            if len(good) == 1 and len(bad) == 1:
                return (sb, variant_target(fn, sb, good[0]), variant_target(fn, sb, bad[0]))
    return None


def _cyclic_blocks(fn):
    c = getattr(fn, "_cyclic", None)
    if c is None:
        c = {b for b in fn.nodes() if fn.reaches(b, b)}
        fn._cyclic = c
    return c


def edge_provenance(fn, sb, target, depth=0):
    """Blocks D such that taking the edge sb -> target implies that control went through one of D: the definitions that gave the
    switched value the variant (or boolean) this edge selects.  `let r = if ok { Ok(x) } else { Err(e) }; match r { Ok(..) => B }`:
    the Ok edge implies the block constructing `Ok`.  None when a definition of unknown value (a call result, an argument) may reach
    the switch."""
    if depth > 6:
        return None
    st = fn.term(sb)
    if st["k"] != "switch":
        return None
    s = switch_subject(fn, sb)
    want_variant = want_bool = None
    outer = None
    if s["kind"] == "discr" and s["variants"] and s["place"] is not None:
        # `match r { Ok(None) => .. }`: the inner discriminant read is that of the payload `(r as Ok).0`
        pr = [e for e in s["place"][1] if e[0] != "deref"]
        if len(pr) == 2 and pr[0][0] == "downcast" and pr[1][0] == "field":
            outer = (pr[0][1], pr[1][1])
    if s["kind"] == "discr" and s["variants"] and s["place"] is not None and (outer is not None or not [e for e in s["place"][1] if e[0] != "deref"]):
        vals = [v for v, t in [(a[0], a[1]) for a in st["arms"]] if t == target]
        names = {s["variants"].get(v) for v in vals}
        if target == st["otherwise"]:
            listed = {a[0] for a in st["arms"]}
            names |= {nm for v, nm in s["variants"].items() if v not in listed}
        names.discard(None)
        if len(names) != 1:
            return None
        want_variant = next(iter(names))
        root = s["place"][0]
    elif s["kind"] == "value" and s["root"] is not None:
        root = s["root"]
        if "bool" not in fn.local_ty(root):
            return None
        want_bool = (target == st["otherwise"]) if target != edge_target(st, 0) or target == st["otherwise"] else False
        if target == edge_target(st, 0) and target != st["otherwise"]:
            want_bool = False
    else:
        return None
    out = set()
    alld = set()
    seen = set()
    wanted = {want_variant} if want_variant is not None else set()
    # `if !flag`: the switched value is the negation of a boolean local
    if want_bool is not None:
        dr = fn.single_def(root)
        for _ in range(3):
            if dr and dr[0] == "assign" and dr[3]["k"] == "unop" and dr[3]["op"] == "Not" and op_local(dr[3]["operand"]) is not None:
                want_bool = not want_bool
                root = op_local(dr[3]["operand"])
                dr = fn.single_def(root)
            elif dr and dr[0] == "assign" and dr[3]["k"] == "use" and op_local(dr[3]["op"]) is not None:
                root = op_local(dr[3]["op"])
                dr = fn.single_def(root)
            else:
                break

    def walk(l, d):
        if d > 12 or l in seen:
            return True
        seen.add(l)
        ds = fn.defs.get(l, [])
        if not ds or 1 <= l <= fn.argc:
            return False
        for x in ds:
            alld.add(x[1])
            if x[0] == "call" and callee_is(x[2]["callee"], "core::ops::try_trait::FromResidual::from_residual") and wanted:
                # the value `?` returns on failure is an Err(..) / None
                if wanted & {"Err", "None"}:
                    out.add(x[1])
                continue
            if x[0] == "call" and callee_is(x[2]["callee"], "core::ops::try_trait::Try::branch") and x[2]["args"] and wanted:
                # ControlFlow::Continue <=> the operand was Ok / Some, Break <=> Err / None
                yl = op_local(x[2]["args"][0])
                if yl is None:
                    return False
                if "Continue" in wanted:
                    wanted.discard("Continue")
                    wanted.update(("Ok", "Some"))
                elif "Break" in wanted:
                    wanted.discard("Break")
                    wanted.update(("Err", "None"))
                if not walk(yl, d + 1):
                    return False
                continue
            if x[0] == "assign":
                rv = x[3]
                if rv["k"] == "aggregate" and wanted and rv.get("variant") is not None:
                    if rv["variant"] in wanted:
                        out.add(x[1])
                    continue
                if rv["k"] == "use":
                    c = rv["op"]
                    if c["k"] == "const":
                        if want_bool is not None and isinstance(c.get("val"), bool):
                            if c["val"] == want_bool:
                                out.add(x[1])
                            continue
                        return False
                    pl = op_place(c)
                    if pl is not None and not pl[1]:
                        # a plain move / copy hands an existing value on: the blocks that *give* the value its variant are the source's
                        # definitions, which may lie before any later starting point (this block is not one of them)
                        alld.discard(x[1])
                        if not walk(pl[0], d + 1):
                            return False
                        continue
                return False
            elif x[0] == "call":
                # a call result of unknown value: it may carry any variant, so the edge may stem from this definition
                out.add(x[1])
                continue
            else:
                return False
        return True
    if outer is not None:
        # the value switched on is the payload of variant `outer[0]` of root: only root's definitions that build that variant matter
        r0 = fn.copy_root(root) if fn.single_def(root) else root
        ds0 = fn.defs.get(r0, [])
        if not ds0 or 1 <= r0 <= fn.argc:
            return None
        for x in ds0:
            alld.add(x[1])
            if x[0] == "call" and callee_is(x[2]["callee"], "core::ops::try_trait::FromResidual::from_residual"):
                # `?` handing the failure on: an Err(..) / None, never the Ok / Some variant looked at here
                if outer[0] in ("Ok", "Some", "Continue"):
                    continue
                return None
            if x[0] == "assign" and x[3]["k"] == "aggregate" and x[3].get("variant") is not None:
                if x[3]["variant"] != outer[0]:
                    continue
                if outer[1] >= len(x[3]["ops"]):
                    return None
                o_ = x[3]["ops"][outer[1]]
                if o_["k"] == "const":
                    return None
                l_ = op_local(o_)
                if l_ is None or not walk(l_, 1):
                    return None
            else:
                return None
    elif not walk(fn.copy_root(root) if fn.single_def(root) else root, 0):
        return None
    if not out:
        return None
    fn._prov_alld = getattr(fn, "_prov_alld", {})
    fn._prov_alld[(sb, target)] = set(alld)
    # the value must be fresh at every visit of the switch: without its definitions the switch is neither reachable nor on a cycle
    # (otherwise, in a loop, the value tested could stem from an earlier iteration)
    if sb in fn.reachable_from(0, avoid=alld):
        return None
    for s2 in fn.succ.get(sb, []):
        if s2 not in alld and sb in fn.reachable_from(s2, avoid=alld):
            return None
    return out


def dominated_by_edge(fn, sw_bb, target, b, _depth=0):
    """block b is dominated by the CFG edge sw_bb -> target - directly, or because b is dominated by another edge whose switched value
    can only have been constructed in blocks that are themselves dominated by sw_bb -> target (a guard evaluated in an (inlined) helper
    and handed back as Ok/Err, Some/None, an enum variant or a bool).  Inside a loop the indirect form requires the switched value to be freshly defined in the same turn."""
    if target is None:
        return False
    if fn.edge_dominates(sw_bb, target, b):
        return True
    if _depth > 3:
        return False
    for sb2, st2 in fn.switches():
        if sb2 == sw_bb:
            continue
        for t2 in set(fn.succ.get(sb2, [])):
            if not fn.edge_dominates(sb2, t2, b):
                continue
            D = edge_provenance(fn, sb2, t2)
            if not D:
                continue
            if all(dominated_by_edge(fn, sw_bb, target, d, _depth + 1) for d in D):
                return True
    return False


# ------------------------------------------------------------------------------------
# field effects
# ------------------------------------------------------------------------------------
READONLY_METHODS = {
    "is_empty", "len", "iter", "get", "deref", "as_ref", "as_slice", "clone", "contains", "first", "last",
}


def self_field_writes(prog, fn, include_calls=True, depth=0, _seen=None):
    """set of (field, how, bb) for fields of *self (arg 1, by &mut) written in fn:
       - direct assignment to a place rooted at (*_1).f (after canonicalisation)
       - a `&mut (*_1).f...` temporary passed to any call (the callee may write)
       - `&mut *self` passed to a workspace method: that method's own writes (recursively)"""
    out = []
    _seen = _seen or set()
    if fn.path in _seen or depth > 6:
        return out
    _seen = _seen | {fn.path}
    for b, i, p, rv, s in fn.assigns():
        cp = fn.canon(p)
        f = self_field(cp)
        if f is not None:
            out.append((f, "assign", b))
    for b, t in fn.calls():
        dp = fn.canon(P(t["dest"]))
        f = self_field(dp)
        if f is not None:
            out.append((f, "call-dest", b))
        for ai, a in enumerate(t["args"]):
            l = op_local(a)
            if l is None:
                continue
            ty = fn.local_ty(l)
            if not ty.startswith("&mut"):
                continue
            tgt = fn.resolve_ptr(l)
            if tgt is None:
                continue
            f = self_field(tgt)
            if f is not None:
                out.append((f, "mutref:" + callee_name(t["callee"]), b))
            elif tgt == (1, (("deref",),)) and include_calls:
                # whole &mut self passed on
                for g in prog.call_targets(fn, t):
                    for (f2, how, b2) in self_field_writes(prog, g, include_calls, depth + 1, _seen):
                        out.append((f2, "via:" + g.path, b))
    return out


# ------------------------------------------------------------------------------------
# affine forms (DESIGN 3.8)
# ------------------------------------------------------------------------------------
def affine_form(fn, param_local=2):
    """For a closure/fn of one integer parameter (local `param_local`) returning an integer built
    from Add/Mul with constants: return (a, b) with result = a*x + b, else None."""
    def ev_op(op, depth):
        if op["k"] == "const":
            v = op.get("val")
            if isinstance(v, int) and not isinstance(v, bool):
                return (0, v)
            return None
        p = op_place(op)
        if p is None:
            return None
        return ev_place(p, depth)

    def ev_place(p, depth):
        if depth > 40:
            return None
        l, proj = p
        if l == param_local and not proj:
            return (1, 0)
        if l == param_local and proj == (("deref",),):
            return (1, 0)
        # tuple field .0 of a WithOverflow result
        if proj and proj[0][0] == "field" and proj[0][1] == 0 and len(proj) == 1:
            return ev_local(l, depth + 1)
        if proj == (("deref",),):
            # deref of a reference: follow pointer
            tgt = fn.resolve_ptr(l)
            if tgt is not None:
                return ev_place(tgt, depth + 1)
            # reference returned by a call (e.g. Option::unwrap(HashMap::get(..))) -> opaque variable
            return None
        if not proj:
            return ev_local(l, depth + 1)
        return None

    def ev_local(l, depth):
        if l == param_local:
            return (1, 0)
        d = fn.single_def(l)
        if d is None:
            ds = [x for x in fn.defs.get(l, []) if x[0] == "assign"]
            if len(ds) == 1 and len(fn.defs.get(l, [])) == 1:
                d = ds[0]
            else:
                return None
        if d[0] != "assign":
            return None
        rv = d[3]
        k = rv["k"]
        if k == "use":
            return ev_op(rv["op"], depth + 1)
        if k == "binop":
            op = rv["op"].replace("WithOverflow", "").replace("Unchecked", "")
            a = ev_op(rv["l"], depth + 1)
            b = ev_op(rv["r"], depth + 1)
            if a is None or b is None:
                return None
            if op == "Add":
                return (a[0] + b[0], a[1] + b[1])
            if op == "Sub":
                return (a[0] - b[0], a[1] - b[1])
            if op == "Mul":
                if a[0] == 0:
                    return (a[1] * b[0], a[1] * b[1])
                if b[0] == 0:
                    return (b[1] * a[0], b[1] * a[1])
                return None
            return None
        return None

    # result local _0
    ds = [x for x in fn.defs.get(0, [])]
    if len(ds) != 1 or ds[0][0] != "assign":
        return None
    rv = ds[0][3]
    if rv["k"] == "use":
        return ev_op(rv["op"], 0)
    if rv["k"] == "binop":
        # synthesize
        fake = {"k": "binop", "op": rv["op"], "l": rv["l"], "r": rv["r"]}
        a = ev_op(rv["l"], 0)
        b = ev_op(rv["r"], 0)
        if a is None or b is None:
            return None
        op = rv["op"].replace("WithOverflow", "")
        if op == "Add":
            return (a[0] + b[0], a[1] + b[1])
        if op == "Mul":
            if a[0] == 0:
                return (a[1] * b[0], a[1] * b[1])
            if b[0] == 0:
                return (b[1] * a[0], b[1] * a[1])
    return None


def affine_form_opaque(fn, root_local=0):
    """(root_local: the local whose value is evaluated; default the return value.)  Like affine_form, but the variable is 'the single opaque non-constant leaf' (used when the
    closure looks its operand up, e.g. `1 + 2 * sizes.get(&id).unwrap()`): returns (a, b, leafdesc)."""
    leaves = []

    def ev_op(op, depth):
        if op["k"] == "const":
            v = op.get("val")
            if isinstance(v, int) and not isinstance(v, bool):
                return (0, v)
            return None
        p = op_place(op)
        if p is None:
            return None
        return ev_place(p, depth)

    def ev_op_ref(op, depth):
        # operand that may be a reference to an integer (by-ref operator traits)
        l = op_local(op)
        if l is not None and fn.local_ty(l).startswith("&"):
            return ev_place((l, (("deref",),)), depth)
        return ev_op(op, depth)

    def leaf(desc):
        if desc not in leaves:
            leaves.append(desc)
        if len(leaves) > 1:
            return None
        return (1, 0)

    def ev_place(p, depth):
        if depth > 40:
            return None
        l, proj = p
        if proj and proj[0][0] == "field" and proj[0][1] == 0 and len(proj) == 1:
            d = fn.single_def(l)
            if d and d[0] == "assign" and d[3]["k"] == "binop" and "WithOverflow" in d[3]["op"]:
                return ev_local(l, depth + 1)
        if proj == (("deref",),):
            tgt = fn.resolve_ptr(l)
            if tgt is not None:
                return ev_place(tgt, depth + 1)
            d = fn.single_def(l)
            if d and d[0] == "call":
                return leaf("deref of result of " + callee_name(d[2]["callee"]))
            if l <= fn.argc:
                return leaf("deref of argument _%d" % l)
            if d and d[0] == "assign" and d[3]["k"] == "use":
                p2 = op_place(d[3]["op"])
                if p2 is not None and not p2[1]:
                    # a named copy of a reference (`let size = map.get(..).unwrap(); 2 * size`)
                    return ev_place((p2[0], (("deref",),)), depth + 1)
                if p2 is not None:
                    return leaf("deref of " + pstr(p2))
            return None
        if not proj:
            return ev_local(l, depth + 1)
        return leaf(pstr(p))

    def ev_local(l, depth):
        if 1 <= l <= fn.argc:
            return leaf("argument _%d" % l)
        d = fn.single_def(l)
        if d is None:
            return None
        if d[0] == "call":
            cp = d[2]["callee"].get("path") or ""
            SAT = {"core::num::<impl usize>::saturating_mul": "mul", "core::num::<impl usize>::saturating_add": "add",
                   "core::num::<impl usize>::checked_mul": None}
            if cp in SAT and SAT[cp] and len(d[2]["args"]) == 2:
                cp = "core::ops::arith::" + ("Mul::mul" if SAT[cp] == "mul" else "Add::add")
            if cp in ("core::ops::arith::Mul::mul", "core::ops::arith::Add::add", "core::ops::arith::Sub::sub") and len(d[2]["args"]) == 2:
                a = ev_op_ref(d[2]["args"][0], depth + 1)
                b = ev_op_ref(d[2]["args"][1], depth + 1)
                if a is None or b is None:
                    return None
                if cp.endswith("add"):
                    return (a[0] + b[0], a[1] + b[1])
                if cp.endswith("sub"):
                    return (a[0] - b[0], a[1] - b[1])
                if a[0] == 0:
                    return (a[1] * b[0], a[1] * b[1])
                if b[0] == 0:
                    return (b[1] * a[0], b[1] * a[1])
                return None
            return leaf("result of " + callee_name(d[2]["callee"]))
        rv = d[3]
        k = rv["k"]
        if k == "use":
            return ev_op(rv["op"], depth + 1)
        if k == "binop":
            op = rv["op"].replace("WithOverflow", "").replace("Unchecked", "")
            a = ev_op(rv["l"], depth + 1)
            b = ev_op(rv["r"], depth + 1)
            if a is None or b is None:
                return None
            if op == "Add":
                return (a[0] + b[0], a[1] + b[1])
            if op == "Sub":
                return (a[0] - b[0], a[1] - b[1])
            if op == "Mul":
                if a[0] == 0:
                    return (a[1] * b[0], a[1] * b[1])
                if b[0] == 0:
                    return (b[1] * a[0], b[1] * a[1])
                return None
        return None

    r = ev_local(root_local, 0)
    if r is None:
        return None
    return (r[0], r[1], leaves[0] if leaves else None)


ARITH_CALLS = ("core::num::<impl usize>::saturating_mul", "core::num::<impl usize>::saturating_add", "core::num::<impl usize>::saturating_sub",
               "core::num::<impl usize>::wrapping_mul", "core::num::<impl usize>::wrapping_add", "core::num::<impl usize>::checked_mul",
               "core::num::<impl usize>::checked_add", "core::ops::arith::Mul::mul", "core::ops::arith::Add::add", "core::ops::arith::Sub::sub")


def arithmetic_sites(prog, f, root_op):
    """Integer arithmetic that feeds the value `root_op` of f: in f itself (backward slice, also through `v.push(x)`-style mutation) and in
    the closures handed to calls of that slice (backward slice of their return value).  Returns [(fn, local, affine form or None)] for the
    maximal arithmetic expressions (those not themselves an operand of further arithmetic)."""
    sl, info = f.slice_locals(root_op, mut_calls=True)
    units = [(f, sl)]
    for b, t in info["calls"]:
        for a in t["args"]:
            cp = closure_of_operand(f, a)
            g = prog.fn(cp) if cp else None
            if g is not None:
                units.append((g, g.slice_locals(0, mut_calls=True)[0]))
    out = []
    for g, gsl in units:
        def is_arith(l):
            d = g.single_def(l)
            if d is None:
                return None
            if d[0] == "assign" and d[3]["k"] == "binop" and d[3]["op"].replace("WithOverflow", "").replace("Unchecked", "") in ("Add", "Sub", "Mul") and \
                    g.local_ty(l).replace("(", "").split(",")[0].strip() in ("usize", "u64", "u32", "isize", "i64", "i32"):
                return [d[3]["l"], d[3]["r"]]
            if d[0] == "call" and (d[2]["callee"].get("path") or "") in ARITH_CALLS and len(d[2]["args"]) == 2 and \
                    any(x in " ".join(d[2]["callee"].get("args", []) + [d[2]["callee"].get("path") or ""]) for x in ("usize", "u64", "u32")):
                return d[2]["args"]
            return None

        def through(op):
            """the arithmetic local an operand carries (copies, references, `.0` of a checked pair)"""
            for _ in range(12):
                p = op_place(op)
                if p is None:
                    return None
                l, proj = p
                if proj and not (len(proj) == 1 and proj[0][0] == "field" and proj[0][1] == 0):
                    tgt = g.resolve_ptr(l) if proj == (("deref",),) else None
                    if tgt is None:
                        return None
                    l, proj = tgt
                    if proj:
                        return None
                if is_arith(l) is not None:
                    return l
                tgt = g.resolve_ptr(l)
                if tgt is not None and not tgt[1]:
                    op = {"k": "copy", "place": {"l": tgt[0], "p": []}}
                    continue
                d = g.single_def(l)
                if d and d[0] == "assign" and d[3]["k"] == "use":
                    op = d[3]["op"]
                    continue
                return None
            return None
        ar = [l for l in sorted(gsl) if is_arith(l) is not None]
        nonmax = set()
        for l in ar:
            for o in is_arith(l):
                m = through(o)
                if m is not None and m != l:
                    nonmax.add(m)
        for l in ar:
            if l not in nonmax:
                out.append((g, l, affine_form_opaque(g, root_local=l)))
    return out


# ------------------------------------------------------------------------------------
# format strings (DESIGN 3.5a)
# ------------------------------------------------------------------------------------
def decode_fmt_template(bs):
    """`Arguments::new::<N,K>(template, args)`: the template is the bytecode emitted by
    rustc_ast_lowering::format: literal runs (len < 0x80 | 0x80 + u16 len), placeholders
    0xC0 | bit0 flags(u32) | bit1 width(u16) | bit2 precision(u16) | bit3 position(u16), 0 terminator.
    Returns (literal_pieces, placeholders[{pos, flags, width, precision}])."""
    pieces = []
    phs = []
    i = 0
    cur = ""
    n = len(bs)
    implicit = 0
    while i < n:
        b = bs[i]
        if b == 0:
            break
        if b < 0x80:
            ln = b
            cur += bytes(bs[i + 1:i + 1 + ln]).decode("utf-8", "replace")
            i += 1 + ln
        elif b == 0x80:
            ln = bs[i + 1] | (bs[i + 2] << 8)
            cur += bytes(bs[i + 3:i + 3 + ln]).decode("utf-8", "replace")
            i += 3 + ln
        elif b & 0xC0 == 0xC0:
            pieces.append(cur)
            cur = ""
            i += 1
            ph = {"pos": implicit, "flags": None, "width": None, "precision": None}
            if b & 1:
                ph["flags"] = int.from_bytes(bytes(bs[i:i + 4]), "little")
                i += 4
            if b & 2:
                ph["width"] = (int.from_bytes(bytes(bs[i:i + 2]), "little"), bool(b & 0x10))
                i += 2
            if b & 4:
                ph["precision"] = (int.from_bytes(bytes(bs[i:i + 2]), "little"), bool(b & 0x20))
                i += 2
            if b & 8:
                ph["pos"] = int.from_bytes(bytes(bs[i:i + 2]), "little")
                i += 2
            implicit = ph["pos"] + 1
            phs.append(ph)
        else:
            # unknown opcode: stop decoding (caller sees a truncated template)
            pieces.append(cur + "<?opcode %#x>" % b)
            return pieces, phs
    pieces.append(cur)
    return pieces, phs


def format_calls(fn):
    """yield (bb, pieces, n_placeholders, args_operand) for every fmt::Arguments construction in fn"""
    out = []
    for b, t in fn.calls():
        c = t["callee"]
        p = c.get("path") or ""
        if p == "core::fmt::Arguments::<'a>::new":
            tmpl = const_bytes_of(fn, t["args"][0])
            if tmpl is not None:
                pieces, phs = decode_fmt_template(tmpl)
                out.append((b, pieces, phs, t))
        elif p in ("core::fmt::Arguments::<'a>::from_str", "core::fmt::Arguments::<'a>::from_str_nonconst"):
            s = const_str_of(fn, t["args"][0])
            if s is not None:
                out.append((b, [s], [], t))
    return out


def format_arg_sources_ordered(fn, fmt_term, phs):
    """for an Arguments::new call: per placeholder, in display order, the set of callee names the displayed value slices back to
    (None when the argument array is not the literal `[Argument::new_*(&x), ..]` aggregate)"""
    def chase(l, depth=0):
        d = fn.single_def(l)
        if not d or d[0] != "assign" or depth > 8:
            return None
        rv = d[3]
        if rv["k"] == "ref":
            return chase(P(rv["place"])[0], depth + 1)
        if rv["k"] in ("use", "cast") and op_local(rv["op"]) is not None:
            return chase(op_local(rv["op"]), depth + 1)
        if rv["k"] == "aggregate" and rv.get("akind") == "array":
            return rv
        return None
    if len(fmt_term["args"]) < 2 or op_local(fmt_term["args"][1]) is None:
        return None
    arr = chase(op_local(fmt_term["args"][1]))
    if arr is None:
        return None
    per_arg = []
    for o in arr["ops"]:
        sl, info = fn.slice_locals(o)
        per_arg.append({callee_name(t["callee"]) for _, t in info["calls"]} | {"field:%s" % fld for (adt, fld) in info["fields"] if fld is not None})
    out = []
    for ph in phs:
        i = ph.get("pos")
        if i is None or i >= len(per_arg):
            return None
        out.append(per_arg[i])
    return out


def contig_then_position(fn, fmt_term, phs):
    """None when undecidable; else (ok, detail): the position is displayed right after the contig (or in one value with it), nothing else in
    between - `'{}:{}' (record {})` fed with (contig, record number, position) names a site that does not exist"""
    order = format_arg_sources_ordered(fn, fmt_term, phs)
    if order is None:
        return None
    C, Pn = "sfs_core::input::site::reader::Reader::current_contig", "sfs_core::input::site::reader::Reader::current_position"
    ic = [i for i, s in enumerate(order) if C in s]
    ip = [i for i, s in enumerate(order) if Pn in s]
    if not ic or not ip:
        return None
    ok = 0 <= ip[0] - ic[0] <= 1
    return ok, "placeholders in display order: %s" % [("contig" if C in s else "") + ("position" if Pn in s else "") or "other" for s in order]


def const_bytes_of(fn, op, depth=0):
    """bytes of a constant byte-string operand, following `&(*_x)` reborrows of const refs"""
    if depth > 8:
        return None
    c = op_const(op)
    if c is not None:
        v = c.get("val")
        if isinstance(v, dict) and "bytes" in v:
            return v["bytes"]
        if isinstance(v, dict) and "str" in v:
            return list(v["str"].encode())
        return None
    l = op_local(op)
    if l is None:
        return None
    d = fn.single_def(l)
    if d and d[0] == "assign":
        rv = d[3]
        if rv["k"] == "use":
            return const_bytes_of(fn, rv["op"], depth + 1)
        if rv["k"] == "ref":
            p = P(rv["place"])
            if p[1] == (("deref",),):
                return const_bytes_of(fn, {"k": "copy", "place": {"l": p[0], "p": []}}, depth + 1)
        if rv["k"] == "cast":
            return const_bytes_of(fn, rv["op"], depth + 1)
    return None


def const_str_of(fn, op, depth=0):
    bs = const_bytes_of(fn, op, depth)
    if bs is None:
        return None
    try:
        return bytes(bs).decode("utf-8")
    except Exception:
        return None


def promoted_const(fn, idx):
    """the single constant a promoted body evaluates to (`_0 = &_1; _1 = const X`), else None"""
    pr = fn.raw.get("promoted", [])
    if idx >= len(pr):
        return None
    consts = []
    for blk in pr[idx]["blocks"]:
        for s in blk["stmts"]:
            if s["k"] == "assign":
                for o in rv_operands(s["rv"]):
                    if o["k"] == "const":
                        consts.append(o)
    return consts[0] if len(consts) == 1 else None


def const_of(fn, op, depth=0):
    """constant operand (the raw const dict) after following copies / reborrows / promoteds"""
    if depth > 8:
        return None
    c = op_const(op)
    if c is not None:
        if "promoted" in c and c.get("item") == fn.path.split("::{closure")[0] or (c is not None and "promoted" in c):
            pc = promoted_const(fn, c["promoted"])
            if pc is not None:
                return pc
        return c
    l = op_local(op)
    if l is None:
        return None
    d = fn.single_def(l)
    if d and d[0] == "assign":
        rv = d[3]
        if rv["k"] in ("use", "cast"):
            return const_of(fn, rv["op"], depth + 1)
        if rv["k"] == "ref":
            p = P(rv["place"])
            if p[1] == (("deref",),):
                return const_of(fn, {"k": "copy", "place": {"l": p[0], "p": []}}, depth + 1)
            if not p[1]:
                return const_of(fn, {"k": "copy", "place": {"l": p[0], "p": []}}, depth + 1)
    return None


# ------------------------------------------------------------------------------------
# match tables (DESIGN 3.5)
# ------------------------------------------------------------------------------------
def enum_match_table(fn, subject_pred=None):
    """For a function whose body switches on the discriminant of an enum value (first such switch
    reachable from entry that matches subject_pred), return {variant_name: target_bb}, switch_bb."""
    for b in fn.nodes():
        t = fn.term(b)
        if t["k"] != "switch":
            continue
        s = switch_subject(fn, b)
        if s["kind"] != "discr" or not s["variants"]:
            continue
        if subject_pred and not subject_pred(s):
            continue
        table = {}
        for val, nm in s["variants"].items():
            table[nm] = edge_target(t, val)
        return table, b
    return None, None


def blocks_until_join(fn, start, stop_blocks=()):
    """blocks reachable from start without passing through stop_blocks"""
    return fn.reachable_from(start, avoid=set(stop_blocks))


def arm_region(fn, sw_bb, target):
    """blocks dominated by the edge sw_bb->target (the 'arm' of a match)"""
    out = set()
    for b in fn.nodes():
        if dominated_by_edge(fn, sw_bb, target, b):
            out.add(b)
    return out


# ------------------------------------------------------------------------------------
# closures: captured upvars resolved to the parent's places (DESIGN 3.2a)
# ------------------------------------------------------------------------------------
def closure_of_operand(fn, op):
    """path of the closure body whose value the operand carries (a closure constructed in fn), else None"""
    l = op_local(op)
    if l is None:
        return None
    d = fn.single_def(fn.copy_root(l))
    if d and d[0] == "assign" and d[3]["k"] == "aggregate" and d[3].get("akind") == "closure":
        return d[3]["closure"]
    return None


def closure_captures(parent, closure_path):
    """list (by upvar index) of the parent's places captured by the closure constructed in `parent`"""
    for b, i, p, rv, s in parent.assigns():
        if rv["k"] == "aggregate" and rv["akind"] == "closure" and rv["closure"] == closure_path:
            out = []
            for o in rv["ops"]:
                l = op_local(o)
                tgt = None
                if l is not None:
                    tgt = parent.resolve_ptr(l)
                    if tgt is None:
                        pl = op_place(o)
                        tgt = parent.canon(pl) if pl else None
                else:
                    pl = op_place(o)
                    tgt = parent.canon(pl) if pl else None
                out.append(tgt)
            return out
    return None


def closure_self_writes(prog, parent, closure):
    """fields of the parent's *self written inside `closure` (through by-reference captures or a captured &mut self)"""
    caps = closure_captures(parent, closure.path)
    out = set()
    if caps is None:
        return out
    for b, i, p, rv, s in closure.assigns():
        l, proj = p
        # (*(_1.k)).rest  or (*((*_1).k)).rest
        k = None
        rest = None
        if l == 1 and proj and proj[0][0] == "field" and len(proj) >= 2 and proj[1] == ("deref",):
            k, rest = proj[0][1], proj[2:]
        elif l == 1 and len(proj) >= 3 and proj[0] == ("deref",) and proj[1][0] == "field" and proj[2] == ("deref",):
            k, rest = proj[1][1], proj[3:]
        else:
            # through a local copy of the upvar: _9 = _1.1; (*_9) = ..
            if proj and proj[0] == ("deref",):
                d = closure.single_def(l)
                if d and d[0] == "assign" and d[3]["k"] == "use":
                    q = op_place(d[3]["op"])
                    if q and q[0] == 1:
                        fs = [e for e in q[1] if e[0] == "field"]
                        if fs:
                            k, rest = fs[0][1], proj[1:]
        if k is None or k >= len(caps) or caps[k] is None:
            continue
        tgt = (caps[k][0], caps[k][1] + tuple(rest))
        f = self_field(tgt)
        if f:
            out.add(f)
    return out


# ------------------------------------------------------------------------------------
# "apply to every element" idioms: iter_mut().for_each(closure) / for x in iter_mut() { .. } / slice::fill
# ------------------------------------------------------------------------------------
def each_element_update(prog, f, want_field_owner=None):
    """recognises a statement-level update of every element of a container reached from *self:
    returns dict(kind='for_each'|'loop'|'fill', receiver_fields=set, adaptors=[..], store=rvalue-or-const, closure=Fn|None, bb=block,
    unconditional=bool) or None"""
    from facts import callee_is as _ci
    # (1) for_each
    fe = calls(f, "core::iter::traits::iterator::Iterator::for_each")
    if len(fe) == 1:
        b, t = fe[0]
        sl, info = f.slice_locals(t["args"][0])
        adaptors = [(x[1]["callee"].get("path") or "").split("::")[-1] for x in info["calls"]]
        cl = None
        l = op_local(t["args"][1])
        d = f.single_def(l) if l is not None else None
        if d and d[0] == "assign" and d[3]["k"] == "aggregate" and d[3]["akind"] == "closure":
            cl = prog.fn(d[3]["closure"])
        store = None
        if cl is not None:
            for b2, i2, p2, rv2, s2 in cl.assigns():
                if p2 == (2, (("deref",),)):
                    store = rv2
        return {"kind": "for_each", "fields": info["fields"], "adaptors": adaptors, "store": store, "closure": cl, "bb": b,
                "capture_call": t, "unconditional": not list(f.switches()) and f.postdominates(b, 0), "store_fn": cl}
    # (2) slice::fill
    fl = calls(f, "core::slice::<impl [T]>::fill")
    if len(fl) == 1:
        b, t = fl[0]
        sl, info = f.slice_locals(t["args"][0])
        adaptors = [(x[1]["callee"].get("path") or "").split("::")[-1] for x in info["calls"]]
        return {"kind": "fill", "fields": info["fields"], "adaptors": adaptors, "store": {"k": "use", "op": t["args"][1]}, "closure": None, "bb": b,
                "unconditional": not list(f.switches()) and f.postdominates(b, 0), "store_fn": f}
    # (3) for loop over into_iter(iter_mut(..))
    nx = calls(f, "core::iter::traits::iterator::Iterator::next")
    if len(nx) == 1:
        b, t = nx[0]
        sws = switches_on_call_result(f, b)
        if len(sws) == 1:
            sb = sws[0][0]
            some_t = edge_target(f.term(sb), 1)
            none_t = edge_target(f.term(sb), 0)
            # the iterator
            itl = op_local(t["args"][0])
            itp = f.resolve_ptr(itl) if itl is not None else None
            sl, info = f.slice_locals(itp[0] if itp else itl)
            adaptors = [(x[1]["callee"].get("path") or "").split("::")[-1] for x in info["calls"] if x[0] != b]
            payload = None
            store = None
            body = arm_region(f, sb, some_t)
            for b2 in sorted(body):
                for s2 in f.stmts(b2):
                    if s2["k"] != "assign":
                        continue
                    p2 = P(s2["place"])
                    if p2[1] == (("deref",),):
                        d = f.single_def(p2[0])
                        if d and d[0] == "assign" and d[3]["k"] == "use":
                            q = op_place(d[3]["op"])
                            if q and q[0] == call_dest_local(t) and any(e[0] == "downcast" and e[1] == "Some" for e in q[1]):
                                store = s2["rv"]
                                payload = p2[0]
            # loop exits only on None; the only switch is the one on next()
            sw_all = [x for x, _ in f.switches()]
            loop = {x for x in f.reachable_from(b) if b in f.reachable_from(x)}
            exits = [(x, s) for x in loop for s in f.succ.get(x, []) if s not in loop and f.term(s)["k"] != "unreachable"]
            uncond = sw_all == [sb] and exits == [(sb, none_t)] and f.dominates(b, none_t)
            return {"kind": "loop", "fields": info["fields"], "adaptors": adaptors, "store": store, "closure": None, "bb": b,
                    "unconditional": uncond, "store_fn": f, "payload": payload}
    return None


# ------------------------------------------------------------------------------------
# constant upper bounds implied by dominating comparisons
# ------------------------------------------------------------------------------------
def _const_int_of(fn, op):
    """integer constant carried by the operand: a literal, or a lossless conversion (`usize::from(u16::MAX)`) of one"""
    c = const_of(fn, op)
    if c is not None and isinstance(c.get("val"), int) and not isinstance(c.get("val"), bool):
        return c["val"]
    l = op_local(op)
    d = fn.single_def(fn.copy_root(l)) if l is not None else None
    if d and d[0] == "call" and (d[2]["callee"].get("path") or "") in ("core::convert::From::from", "core::convert::Into::into") and d[2]["args"]:
        return _const_int_of(fn, d[2]["args"][0])
    if d and d[0] == "assign" and d[3]["k"] == "cast":
        return _const_int_of(fn, d[3]["op"])
    return None


def value_id(fn, op):
    """identity of the value an operand carries, up to copies: ("local", root) or, when the root is a single read of a place whose base local
    is defined once (a match binding `(_2 as Ok).0` read by value and through a reference in the guard), ("place", canonical place)"""
    l = op_local(op)
    if l is None:
        p = op_place(op)
        if p is None:
            return None
        cp = fn.canon(p)
        return ("place", cp) if len(fn.defs.get(cp[0], [])) <= 1 else None
    r = fn.copy_root(l)
    d = fn.single_def(r)
    if d and d[0] == "assign" and d[3]["k"] == "use":
        p = op_place(d[3]["op"])
        if p is not None and p[1]:
            cp = fn.canon(p)
            if len(fn.defs.get(cp[0], [])) <= 1:
                return ("place", cp)
    return ("local", r)


def implied_upper_bound(fn, b, value_op):
    """smallest constant c such that `value <= c` is implied at block b by a dominating integer comparison edge, else None.
    Recognises v <= c, v < c, c >= v, c > v on the true edge and v > c, v >= c, c < v, c <= v on the false edge."""
    vr = value_id(fn, value_op)
    if vr is None:
        return None
    best = None
    for sb, st in fn.switches():
        s = switch_subject(fn, sb)
        if s["kind"] != "value" or s["root"] is None:
            continue
        d = fn.single_def(s["root"])
        if not (d and d[0] == "assign" and d[3]["k"] == "binop" and d[3]["op"] in ("Le", "Lt", "Gt", "Ge")):
            continue
        op, l, r = d[3]["op"], d[3]["l"], d[3]["r"]
        ll, rl = op_local(l), op_local(r)
        t_true, t_false = st["otherwise"], edge_target(st, 0)
        cand = None
        if value_id(fn, l) == vr:
            c = _const_int_of(fn, r)
            if c is not None:
                cand = {"Le": (t_true, c), "Lt": (t_true, c - 1), "Gt": (t_false, c), "Ge": (t_false, c - 1)}[op]
        elif value_id(fn, r) == vr:
            c = _const_int_of(fn, l)
            if c is not None:
                cand = {"Ge": (t_true, c), "Gt": (t_true, c - 1), "Lt": (t_false, c), "Le": (t_false, c - 1)}[op]
        if cand and dominated_by_edge(fn, sb, cand[0], b):
            best = cand[1] if best is None else min(best, cand[1])
    return best


def binop_def(fn, op, depth=0):
    """the binary operation computing the operand's value, through copies and the `.0` of a checked `<Op>WithOverflow` pair; else None"""
    l = op_local(op)
    if l is None or depth > 8:
        p = op_place(op)
        if p and len(p[1]) == 1 and p[1][0][0] == "field" and p[1][0][1] == 0:
            d = fn.single_def(p[0])
            if d and d[0] == "assign" and d[3]["k"] == "binop" and d[3]["op"].endswith("WithOverflow"):
                return d[3]
        return None
    d = fn.single_def(fn.copy_root(l))
    if d and d[0] == "assign":
        if d[3]["k"] == "binop":
            return d[3]
        if d[3]["k"] == "use":
            return binop_def(fn, d[3]["op"], depth + 1)
    return None


def _single_value_def(fn, local):
    """the single definition of a local, not counting the failure values a `?` path assigns to a Result/Option place"""
    d = fn.single_def(local)
    if d is not None:
        return d
    ds = [x for x in fn.defs.get(local, [])
          if not (x[0] == "call" and callee_is(x[2]["callee"], "core::ops::try_trait::FromResidual::from_residual"))
          and not (x[0] == "assign" and x[3]["k"] == "aggregate" and x[3].get("variant") in ("Err", "None"))]
    return ds[0] if len(ds) == 1 else None


def origin_local(fn, local, depth=0):
    """the local a value was moved from, through plain moves/copies and through being wrapped and unwrapped again:
    `Ok(x)` / `Some(x)` -> `?` (Try::branch) or a `match` -> the Continue / Ok / Some payload.  Identity-preserving steps only."""
    if depth > 24:
        return local
    d = fn.single_def(local)
    if d is None:
        # several definitions: ignore the failure values of `?` paths (from_residual, Err/None aggregates) and identical re-moves
        ds = [x for x in fn.defs.get(local, [])
              if not (x[0] == "call" and callee_is(x[2]["callee"], "core::ops::try_trait::FromResidual::from_residual"))
              and not (x[0] == "assign" and x[3]["k"] == "aggregate" and x[3].get("variant") in ("Err", "None"))]
        srcs = set()
        for x in ds:
            if x[0] == "assign" and x[3]["k"] == "use" and op_local(x[3]["op"]) is not None:
                srcs.add(origin_local(fn, op_local(x[3]["op"]), depth + 1))
            else:
                srcs.add(("other", x[1]))
        if len(ds) == 1:
            d = ds[0]
        elif len(srcs) == 1 and not isinstance(next(iter(srcs)), tuple):
            return next(iter(srcs))
        else:
            return local
    if d[0] == "assign":
        rv = d[3]
        if rv["k"] == "use":
            p = op_place(rv["op"])
            if p is None:
                return local
            l2, proj = p
            if not proj:
                return origin_local(fn, l2, depth + 1)
            # payload of a wrapper: ((x as Variant).0)
            if len(proj) == 2 and proj[0][0] == "downcast" and proj[1][0] == "field" and proj[1][1] == 0 and proj[0][1] in ("Continue", "Ok", "Some"):
                w = origin_local(fn, l2, depth + 1)
                dw = _single_value_def(fn, w)
                # x = Try::branch(y): the Continue payload is y's Ok / Some payload
                if dw and dw[0] == "call" and callee_is(dw[2]["callee"], "core::ops::try_trait::Try::branch") and dw[2]["args"]:
                    yl = op_local(dw[2]["args"][0])
                    if yl is not None:
                        w = origin_local(fn, yl, depth + 1)
                        dw = _single_value_def(fn, w)
                if dw and dw[0] == "assign" and dw[3]["k"] == "aggregate" and dw[3].get("variant") in ("Ok", "Some") and len(dw[3]["ops"]) == 1:
                    il = op_local(dw[3]["ops"][0])
                    if il is not None:
                        return origin_local(fn, il, depth + 1)
            return local
    return local


def infeasible_edges_from(fn, start, stop):
    """Switch edges that no execution starting at block `start` can take before reaching `stop`: the switched value is (re)defined on every
    path from `start` to the switch, and none of the definitions that give it the variant / boolean the edge needs lies between `start`
    and `stop`.  (`let counted = match site { .. InsufficientData => false }; if !counted { skip() }`: from the InsufficientData arm the
    `counted` edge cannot be taken.)"""
    out = set()
    provs = None
    # to a fixpoint: an edge found infeasible may cut off the only definitions another edge would need (a failure handed up through
    # two helpers: `None => return Err(..)` in one, `?` on that Err in the next)
    for _ in range(6):
        near = reachable_with_edges_removed(fn, start, {stop} if stop is not None else set(), out) | {start}
        if provs is None:
            provs = []
            for sb, st in fn.switches():
                for t in set(fn.succ.get(sb, [])):
                    D = edge_provenance(fn, sb, t)
                    if not D:
                        continue
                    alld = getattr(fn, "_prov_alld", {}).get((sb, t), set())
                    if sb in fn.reachable_from(start, avoid=alld) and start not in alld:
                        continue  # the value may have been defined before `start`
                    provs.append((sb, t, D))
        new = {(sb, t) for sb, t, D in provs if sb in near and not (D & near)}
        if new <= out:
            break
        out |= new
    return out


def reachable_with_edges_removed(fn, start, avoid, removed):
    seen = set()
    st = [start]
    while st:
        x = st.pop()
        if x in seen or x in avoid:
            continue
        seen.add(x)
        for s2 in fn.succ.get(x, []):
            if (x, s2) not in removed:
                st.append(s2)
    return seen


def dominates_on_feasible_paths(fn, a, b):
    """every execution that reaches block b has passed block a, counting out the paths that cannot be taken: a path that leaves a block
    where a failure value (`None`, `Err(..)`, `Break(..)`) was just built and then takes the success edge of the test on that very value
    (a helper's early `return None` merged with its success value in front of a `?`)"""
    if fn.dominates(a, b):
        return True
    fail_bbs = {bb for bb, i, p, rv, s_ in fn.assigns() if rv["k"] == "aggregate" and rv.get("variant") in ("None", "Err", "Break") and not p[1]}
    fail_bbs.discard(a)
    plain = reachable_with_edges_removed(fn, 0, {a} | fail_bbs, set())
    if b in plain:
        return False
    anyway = reachable_with_edges_removed(fn, 0, {a}, set())
    for nb in fail_bbs & anyway:
        inf = infeasible_edges_from(fn, nb, None)
        if b in reachable_with_edges_removed(fn, nb, {a}, inf):
            return False
    return True
