"""C01, C02, C10, C11: the `create` path (site reader, runner, CLI)."""
from facts import P, pstr, op_place, op_local, op_const, const_val, ostr, rvstr, callee_is, callee_name
import an
import names as N

READ_SITE = "sfs_core::input::site::reader::Reader::read_site"
RESET = "sfs_core::input::site::reader::Reader::reset"
RUNNER_RUN = "sfs::create::runner::Runner::run"
HANDLE_SKIPPED = "sfs::create::runner::Runner::handle_skipped_site"
CREATE_RUN = "sfs::create::Create::run"
MAP_SHAPE = "sfs_core::input::sample::Map::shape"
GET_POP = "sfs_core::input::sample::Map::get_population_id"
GET_SAMPLE_ID = "sfs_core::input::sample::Map::get_sample_id"
GENO_RESULT = "sfs_core::input::genotype::Result"
SITE = "sfs_core::input::site::Site"
READSTATUS = "sfs_core::input::ReadStatus"
COUNT_INDEX_MUT = "<sfs_core::spectrum::count::Count as core::ops::index::IndexMut<usize>>::index_mut"
PROJ_SHAPE = "sfs_core::input::site::reader::builder::Project::shape"
VIEW_RUN = "sfs::view::View::run"


# ------------------------------------------------------------------------------------
# structure of read_site shared by C01 / C02 / C09 / C11
# ------------------------------------------------------------------------------------
class ReadSite:
    """locates the per-sample loop, the selection switch, the genotype switch and the site
    classification in read_site; every attribute is None when the shape is not recognised."""

    def __init__(self, chk):
        self.ok = False
        self.fn = f = chk.fn(READ_SITE)
        if f is None:
            return
        # the lookup L
        L = an.calls(f, GET_POP)
        if not L:
            # the lookup spelled on the map itself (a merged / new accessor of sample::Map inlined here): a keyed read of self.sample_map
            L = [(b, t) for b, t in f.calls() if self._is_map_lookup(f, t)][:1]
        self.lookup = L
        if len(L) != 1:
            chk.fail("SHAPE", "read_site/lookup", f.loc(), "expected exactly one call of Map::get_population_id (or one keyed read of self.sample_map) in read_site, found %d" % len(L))
            return
        self.L_bb = L[0][0]
        # loop header: the Iterator::next call whose Some edge dominates L
        self.header = None
        for b, t in f.calls():
            if callee_is(t["callee"], N.ITER_NEXT) and f.dominates(b, self.L_bb):
                sw = an.switches_on_call_result(f, b)
                if len(sw) == 1:
                    self.header = b
                    self.next_sw = sw[0][0]
                    st = f.term(self.next_sw)
                    self.loop_some = an.edge_target(st, 1)
                    self.loop_none = an.edge_target(st, 0)
        if self.header is None:
            chk.fail("SHAPE", "read_site/loop", f.loc(), "per-sample loop (Iterator::next dominating the population lookup) not recognised")
            return
        self.region = an.arm_region(f, self.next_sw, self.loop_some)
        # selection switch: on the (Option::map'ed) result of L
        self.sel_sw = None
        cur = self.L_bb
        for _ in range(4):
            sw = an.switches_on_call_result(f, cur)
            if sw:
                self.sel_sw = sw[0][0]
                self.sel_subject = sw[0][1]
                break
            # follow a single wrapper call taking the result as first argument (Option::map / copied ...)
            d = an.call_dest_local(f.term(cur))
            nxt = None
            for b, t in f.calls():
                if t["args"] and op_local(t["args"][0]) is not None and f.copy_root(op_local(t["args"][0])) == d:
                    if callee_is(t["callee"], N.OPT_MAP, N.OPT_COPIED):
                        nxt = b
            if nxt is None:
                break
            self.wrapper = nxt
            cur = nxt
        if self.sel_sw is None:
            chk.fail("SHAPE", "read_site/selection-switch", f.loc(self.L_bb), "no switch on the result of get_population_id found")
            return
        st = f.term(self.sel_sw)
        self.sel_some = an.edge_target(st, 1)
        self.sel_none = an.edge_target(st, 0)
        # every read-only lookup of the same sample in the sample map (get_population_id, get_sample_id) is a selection test: its Some
        # edge says the sample is listed.  `let (Some(id), Some(pop)) = (map.get_sample_id(s), map.get_population_id(s)) else { continue }`
        self.sel_edges = [(self.sel_sw, self.sel_some, self.sel_none)]
        self.pure_lookup_bbs = {self.L_bb, getattr(self, "wrapper", self.L_bb)}
        def key_of(op):
            l_ = op_local(op)
            if l_ is None:
                return None
            return f.resolve_ptr(l_) or (an.origin_local(f, l_), ())
        key0 = key_of(L[0][1]["args"][1])
        for b, t in f.calls():
            if b == self.L_bb or b not in self.region or not (callee_is(t["callee"], GET_POP, GET_SAMPLE_ID) or self._is_map_lookup(f, t)):
                continue
            tgt = an.arg_pointee(f, t, 0)
            k = key_of(t["args"][1])
            if not (tgt and an.self_field(tgt) == "sample_map" and k is not None and k == key0):
                if self._is_map_lookup(f, t):
                    chk.fail("SHAPE", "read_site/lookup-of-another-key", f.loc(b), "a second read of the sample map inside the per-sample loop uses another key than the selection lookup")
                continue
            self.pure_lookup_bbs.add(b)
            cur = b
            for _ in range(4):
                sw = an.switches_on_call_result(f, cur)
                if sw:
                    st2 = f.term(sw[0][0])
                    self.sel_edges.append((sw[0][0], an.edge_target(st2, 1), an.edge_target(st2, 0)))
                    break
                d = an.call_dest_local(f.term(cur))
                nxt = [b2 for b2, t2 in f.calls() if t2["args"] and op_local(t2["args"][0]) is not None and f.copy_root(op_local(t2["args"][0])) == d and callee_is(t2["callee"], N.OPT_MAP, N.OPT_COPIED)]
                if not nxt:
                    break
                self.pure_lookup_bbs.add(nxt[0])
                cur = nxt[0]
        # genotype switch: discriminant of a genotype::Result value inside the loop region
        self.geno_sw = None
        for b, t in f.switches():
            s = an.switch_subject(f, b)
            if s["kind"] == "discr" and s.get("adt") == GENO_RESULT and b in self.region:
                self.geno_sw = b
                self.geno_subject = s
        if self.geno_sw is None:
            chk.fail("SHAPE", "read_site/genotype-switch", f.loc(), "no switch on a genotype::Result discriminant inside the per-sample loop")
            return
        self.arm = {nm: an.variant_target(f, self.geno_sw, nm) for nm in ("Genotype", "Skipped", "Error")}
        # projection-presence switches: Option::as_mut/as_ref/is_some/is_none on self.projection, or its discriminant directly
        self.proj_edges = []   # (switch bb, some target, none target)
        for b, t in f.calls():
            if callee_is(t["callee"], N.OPT_AS_MUT, N.OPT_AS_REF, N.OPT_IS_SOME, N.OPT_IS_NONE):
                tgt = an.arg_pointee(f, t, 0)
                if tgt and an.self_field(tgt) == "projection":
                    for sb, s_ in an.switches_on_call_result(f, b):
                        st = f.term(sb)
                        if callee_is(t["callee"], N.OPT_IS_NONE):
                            self.proj_edges.append((sb, an.edge_target(st, 0), st["otherwise"]))
                        elif callee_is(t["callee"], N.OPT_IS_SOME):
                            self.proj_edges.append((sb, st["otherwise"], an.edge_target(st, 0)))
                        else:
                            self.proj_edges.append((sb, an.edge_target(st, 1), an.edge_target(st, 0)))
        for b, t in f.switches():
            s = an.switch_subject(f, b)
            if s["kind"] == "discr" and s["place"] and an.self_field(s["place"]) == "projection":
                self.proj_edges.append((b, an.edge_target(t, 1), an.edge_target(t, 0)))
        if not self.proj_edges:
            chk.fail("SHAPE", "read_site/projection-switch", f.loc(), "no switch on self.projection being Some/None found")
            return
        self.proj_sw, self.proj_some, self.proj_none = self.proj_edges[0]
        self.ok = True

    @staticmethod
    def _is_map_lookup(f, t):
        """IndexMap::get / get_full / get_index_of / get_key_value / contains_key on (a field of) self.sample_map"""
        nm = callee_name(t["callee"])
        if not (nm.startswith("indexmap::map::IndexMap") and nm.split("::")[-1] in ("get", "get_full", "get_index_of", "get_key_value", "contains_key")) or len(t["args"]) != 2:
            return False
        tgt = an.arg_pointee(f, t, 0)
        return bool(tgt and an.self_field(tgt) == "sample_map")

    def selected(self, b):
        """block b is only reached for a sample that is in the sample map"""
        return any(an.dominated_by_edge(self.fn, sb, some_t, b) for sb, some_t, none_t in self.sel_edges)

    def in_proj(self, b):
        return any(an.dominated_by_edge(self.fn, sb, some_t, b) for sb, some_t, none_t in self.proj_edges)

    def in_noproj(self, b):
        return any(an.dominated_by_edge(self.fn, sb, none_t, b) for sb, some_t, none_t in self.proj_edges)

    def index_mut_sites(self):
        """(bb, field) for Count::index_mut(&mut self.<field>, ..) calls"""
        f = self.fn
        out = []
        for b, t in f.calls():
            if callee_is(t["callee"], N.INDEX_MUT, COUNT_INDEX_MUT):
                tgt = an.arg_pointee(f, t, 0)
                fld = an.self_field(tgt) if tgt else None
                out.append((b, fld, t))
        return out

    def site_aggregates(self):
        f = self.fn
        out = []
        for b, i, p, rv, s in f.assigns():
            if rv["k"] == "aggregate" and rv["akind"] == "adt" and rv["adt"] == SITE:
                out.append((b, rv["variant"], rv))
        return out


def check_C01(chk):
    chk.explanation = (
        "Structural clauses of C01 decided on the MIR of read_site, sample::Map::shape, create::Runner::run and Create::run: "
        "(a) selection isolation: inside the per-sample loop every effect (writes to *self, genotype discriminant reads, "
        "ReadStatus construction, calls other than the population lookup) is dominated by the Some edge of the switch on "
        "get_population_id's result; (b) complete-only: outside the projection branch Site::Standard is dominated by "
        "skipped_samples.is_empty() being true, the Skipped arm always records the sample, only the Genotype arm writes counts/totals; "
        "(c) the Standard arm of Runner::run adds const 1.0 exactly once at index `counts`; (d) the precision operand is const 0 when "
        "--project is absent; (e) sample::Map::shape has affine form 2*n+1 and agrees with its siblings.")
    chk.not_decided = ("that ALT-index arithmetic and the skip rule compose to the stated count for all call sets (value-level); "
                       "noodles' parsing of records")
    rs = ReadSite(chk)
    if rs.ok:
        c01a(chk, rs)
        c01b(chk, rs)
        sample_loop_exits(chk, rs, "C01.b")
    c01c(chk)
    c01d(chk)
    c01e(chk)
    # shared clauses: which genotypes count (decided for C08), how the samples file names populations (C09), per-record state (C11)
    import rules_geno as RG_
    def _geno():
        g_ = RG_.GenoFrom(chk)
        if g_.ok:
            RG_.c08a(chk, g_)
            RG_.c08b(chk, g_)
            RG_.c08c(chk, g_)
            RG_.c08e(chk, g_)
    chk.borrow(_geno, "C01.f", 5)
    chk.borrow(lambda: RG_.c09d(chk), "C01.g", 5)
    chk.borrow(lambda: (c11a(chk), c11b(chk)), "C01.h", 4)
    # .. and that what read_site classifies is what the record holds: the genotype readers hand on every decoded column, for both formats
    import rules_io as RIO1_
    chk.borrow(lambda: (RIO1_.reader_outcomes(chk, "C10.e"), RG_.c08d(chk), RG_.bcf_magic_tested_for_both_containers(chk, "C12.d")), "C01.i", 9)
    chk.floor("C01.a", 3)
    chk.floor("C01.b", 4)
    chk.floor("C01.c", 3)
    chk.floor("C01.d", 1)
    chk.floor("C01.e", 3)


def _effects_in_block(f, b, allowed_call_bbs):
    """effects that must not happen for an unselected sample"""
    eff = []
    for i, s in enumerate(f.stmts(b)):
        if s["k"] != "assign":
            continue
        p = f.canon(P(s["place"]))
        if an.self_field(p) is not None or (p[0] == 1 and p[1] and p[1][0] == ("deref",)):
            eff.append("write to %s" % pstr(p))
        if p[0] == 0:
            eff.append("assignment to the return place")
        rv = s["rv"]
        if rv["k"] == "discr" and rv.get("adt") == GENO_RESULT:
            eff.append("genotype discriminant read")
        if rv["k"] == "aggregate" and rv["akind"] == "adt" and rv["adt"] in (READSTATUS, SITE):
            eff.append("constructs %s::%s" % (rv["adt"], rv["variant"]))
    t = f.term(b)
    if t["k"] == "call" and b not in allowed_call_bbs:
        eff.append("call %s" % callee_name(t["callee"]))
    if t["k"] == "return":
        eff.append("return")
    return eff


def c01a(chk, rs):
    f = rs.fn
    allowed = set(rs.pure_lookup_bbs)
    n = 0
    for b in sorted(rs.region):
        if rs.selected(b):
            continue
        eff = _effects_in_block(f, b, allowed)
        n += 1
        chk.ob("C01.a", "read_site/unselected-path/bb-effects:%s" % ("none" if not eff else ";".join(sorted(set(eff)))),
               not eff, f.loc(b),
               "block on the path taken for a sample that is NOT in the sample map must be effect-free; found: %s" % (eff or "nothing"))
    # the Some edge must dominate every counts/totals/skipped_samples write and the genotype switch
    for b, fld, t in rs.index_mut_sites():
        chk.saw_calls()
        if b in rs.region:
            chk.ob("C01.a", "read_site/index_mut(%s)/under-selection" % fld, rs.selected(b), f.loc(b),
                   "update of self.%s must be dominated by the Some edge of the population lookup" % fld)
    chk.ob("C01.a", "read_site/genotype-switch/under-selection", rs.selected(rs.geno_sw), f.loc(rs.geno_sw),
           "the match on the genotype must be dominated by the Some edge of the population lookup (an unselected sample's ploidy error or missing call must not matter)")
    # the None edge leads back to the loop header without effects
    eff = []
    returns = True
    for sb_, some_, none_ in rs.sel_edges:
        back = f.reachable_from(none_, avoid={rs.header})
        for b in back:
            eff += _effects_in_block(f, b, set())
        returns = returns and rs.header in f.reachable_from(none_)
    chk.ob("C01.a", "read_site/continue-edge", (not eff) and returns, f.loc(rs.sel_sw),
           "the None edge of the lookup must return to the loop header without effects; found %s" % (eff or "nothing"))


def c01b(chk, rs):
    f = rs.fn
    # the lists that record a skipped selected sample: the vectors of self pushed onto in the per-sample loop (one list, or one per reason)
    skip_fields = set()
    for b, t in f.calls():
        if callee_is(t["callee"], N.VEC_PUSH) and b in rs.region:
            tgt = an.arg_pointee(f, t, 0)
            if tgt and an.self_field(tgt):
                skip_fields.add(an.self_field(tgt))
    if not skip_fields:
        skip_fields = {"skipped_samples"}
    # is_empty() tests of those lists: field -> [(switch, true target, false targets)]
    empties = {}
    for b, t in f.calls():
        if callee_is(t["callee"], N.VEC_IS_EMPTY):
            tgt = an.arg_pointee(f, t, 0)
            fld = an.self_field(tgt) if tgt else None
            if fld in skip_fields:
                sw = an.switches_on_call_result(f, b)
                if not sw:
                    # the answer handed on inside a value (`Ok(self.skipped_samples.is_empty())` from a helper, unwrapped and tested by the caller)
                    d_ = an.call_dest_local(t)
                    sw = [(sb_, None) for sb_, st_ in f.switches() if an.switch_subject(f, sb_)["kind"] == "value" and an.switch_subject(f, sb_)["root"] is not None
                          and an.origin_local(f, an.switch_subject(f, sb_)["root"]) == d_]
                for sb_, _ in sw:
                    st = f.term(sb_)
                    true_t = st["otherwise"] if all(a[0] == 0 for a in st["arms"]) else an.edge_target(st, 1)
                    empties.setdefault(fld, []).append((sb_, true_t, [x for x in set(f.succ.get(sb_, [])) if x != true_t]))
    all_false_edges = {(sb_, x) for v in empties.values() for sb_, tt, fts in v for x in fts}
    for b, variant, rv in rs.site_aggregates():
        if variant != "Standard":
            continue
        in_proj = rs.in_proj(b)
        if in_proj:
            chk.ob("C01.b", "read_site/Standard@projection-branch", True, f.loc(b), "Site::Standard inside the projection branch is governed by C02.a", nontrivial=False)
            continue
        ok = bool(empties) and rs.in_noproj(b) and all(any(an.dominated_by_edge(f, sb_, tt, b) for sb_, tt, fts in empties.get(fld, [])) for fld in skip_fields)
        chk.ob("C01.b", "read_site/Standard@no-projection/requires-no-skipped-sample", ok, f.loc(b),
               "without projection Site::Standard must be dominated by the true edge of is_empty() of %s "
               "(a record with a missing/multiallelic selected sample contributes nothing)" % " and of ".join("self.%s" % x for x in sorted(skip_fields)))
    # every site outcome is decided inside one of the two branches of the projection option, and without projection a site is
    # insufficient only if a selected sample was skipped
    for b, variant, rv in rs.site_aggregates():
        placed = rs.in_proj(b) or rs.in_noproj(b)
        chk.ob("C01.b", "read_site/%s/decided-under-the-projection-option" % variant, placed, f.loc(b),
               "Site::%s must be constructed either in the projection branch (rules of C02.a) or in the no-projection branch (complete sites only); "
               "an outcome decided before that split bypasses both rule sets" % variant)
        if variant == "InsufficientData" and rs.in_noproj(b):
            # with every is_empty() answering true (no false edge taken) the outcome cannot be reached
            ok = bool(empties) and all(fld in empties for fld in skip_fields) and b not in an.reachable_with_edges_removed(f, rs.loop_none, set(), all_false_edges)
            chk.ob("C01.b", "read_site/InsufficientData@no-projection/requires-a-skipped-sample", ok, f.loc(b),
                   "without projection a record is insufficient only when a skip list (%s) is not empty: a complete site is counted" % sorted(skip_fields))
    # Skipped arm records the sample on every path back to the header
    sk = rs.arm.get("Skipped")
    pushes = set()
    for b, t in f.calls():
        if callee_is(t["callee"], N.VEC_PUSH):
            tgt = an.arg_pointee(f, t, 0)
            if tgt and an.self_field(tgt) in skip_fields:
                pushes.add(b)
                chk.saw_calls()
    ok = sk is not None and bool(pushes) and rs.header not in f.reachable_from(sk, avoid=pushes | {rs.header} - {sk}) if sk is not None else False
    if sk is not None:
        # (the arm may first hand its payload on as a value - `Skipped(s) => Err(s)` matched again below: edges of that second match which
        # need another variant than this arm built are not paths of this arm)
        dead = an.infeasible_edges_from(f, sk, rs.header)
        reach = an.reachable_with_edges_removed(f, sk, pushes, dead)
        ok = bool(pushes) and rs.header not in reach and not any(f.term(b)["k"] == "return" for b in reach)
    chk.ob("C01.b", "read_site/Skipped-arm/records-sample", ok, f.loc(sk) if sk is not None else f.loc(),
           "every path from the Skipped arm back to the loop header must pass a push onto self.skipped_samples")
    # pushes only on the Skipped arm
    for b in pushes:
        chk.ob("C01.b", "read_site/push(skipped_samples)/only-in-Skipped-arm", an.dominated_by_edge(f, rs.geno_sw, sk, b), f.loc(b),
               "skipped_samples.push must be dominated by the Skipped edge of the genotype match")
    # counts/totals only written on the Genotype arm
    g = rs.arm.get("Genotype")
    for b, fld, t in rs.index_mut_sites():
        if fld in ("counts", "totals"):
            chk.ob("C01.b", "read_site/index_mut(%s)/only-in-Genotype-arm" % fld, g is not None and an.dominated_by_edge(f, rs.geno_sw, g, b), f.loc(b),
                   "self.%s may only be updated on the Genotype edge of the genotype match" % fld)
    # the amounts: counts += genotype as usize ; totals += const 2
    for b, fld, t in rs.index_mut_sites():
        if fld not in ("counts", "totals"):
            continue
        d = an.call_dest_local(t)
        # find the store through the returned &mut
        amt = None
        for b2, i, p, rv, s in f.assigns():
            if p == (d, (("deref",),)):
                src = rv
                if rv["k"] == "use":
                    pl = op_place(rv["op"])
                    if pl and pl[1] and pl[1][0][0] == "field":
                        sd = f.single_def(pl[0])
                        if sd and sd[0] == "assign":
                            src = sd[3]
                if src["k"] == "binop" and src["op"].startswith("Add"):
                    amt = src["r"] if op_place(src["l"]) == (d, (("deref",),)) else src["l"]
        if fld == "totals":
            chk.ob("C01.b", "read_site/totals+=2", amt is not None and const_val(amt) == 2, f.loc(b),
                   "every called diploid genotype adds exactly 2 chromosomes to the population total (found %s)" % (ostr(amt) if amt else "unrecognised update"))
        else:
            ok = False
            why = "unrecognised"
            if amt is not None and op_local(amt) is not None:
                sl, info = f.slice_locals(amt, through_calls=False)
                reads_geno = any(r["k"] == "x" for r in [])
                # amount must be the discriminant (cast) of the matched Genotype payload
                src_ok = False
                for l in sl:
                    for dd in f.defs.get(l, []):
                        if dd[0] == "assign" and dd[3]["k"] == "discr" and "genotype::Genotype" in dd[3].get("ty", ""):
                            src_ok = True
                ok = src_ok and not info["binops"]
                why = "slice reaches genotype discriminant=%s, arithmetic on the way=%d" % (src_ok, len(info["binops"]))
            chk.ob("C01.b", "read_site/counts+=genotype", ok, f.loc(b),
                   "the ALT count added is the matched Genotype's discriminant (0/1/2) unmodified (%s)" % why)


def sample_loop_exits(chk, rs, rule):
    """the per-sample loop of read_site may only be left when the zipped iterator is exhausted or through the Error arm:
    every selected sample's genotype is examined before the site is classified"""
    f = rs.fn
    L = {x for x in f.reachable_from(rs.header) if rs.header in f.reachable_from(x)}
    err_t = rs.arm.get("Error")
    err_region = an.arm_region(f, rs.geno_sw, err_t) | {err_t} if err_t is not None else set()
    bad = []
    n = 0
    for x in sorted(L):
        for s in f.succ.get(x, []):
            if s in L or f.term(s)["k"] == "unreachable":
                continue
            n += 1
            if x == rs.next_sw and s == rs.loop_none:
                continue
            if x == rs.geno_sw and s == err_t:
                continue
            if x in err_region:
                continue
            bad.append("%s -> %s" % (f.loc(x), f.loc(s)))
    chk.ob(rule, "read_site/sample-loop/exits-only-on-exhaustion-or-Error", not bad and n >= 2, f.loc(rs.header),
           "the loop over (sample, genotype) pairs must examine every selected sample: it may only end when the iterator is exhausted or by returning the "
           "genotype error (early exits found: %s)" % (bad or "none"))
    # the Error arm is not conditional on anything but selection and the genotype itself
    conds = []
    for sb, st in f.switches():
        if sb in (rs.next_sw, rs.sel_sw, rs.geno_sw) or sb in [x[0] for x in rs.sel_edges]:
            continue
        for tgt in set(f.succ.get(sb, [])):
            if err_t is not None and an.dominated_by_edge(f, sb, tgt, err_t) and sb in f.reachable_from(rs.loop_some):
                conds.append(f.loc(sb))
    chk.ob(rule, "read_site/Error-arm/unconditional", not conds, f.loc(err_t) if err_t is not None else f.loc(),
           "returning the ploidy error depends only on the sample being selected and its genotype being Error (extra conditions at %s)" % (conds or "none"))


def c01c(chk):
    f = chk.fn(RUNNER_RUN)
    if f is None:
        return
    rsite = an.calls(f, READ_SITE)
    if len(rsite) != 1:
        chk.fail("C01.c", "Runner::run/read_site-call", f.loc(), "expected one call of read_site, found %d" % len(rsite))
        return
    arms = runner_arms(chk, f)
    if arms is None:
        return
    std = arms["Standard"]
    region = an.arm_region(f, arms["site_sw"], std)
    scs_local = arms["scs"]
    adds = []
    others = []
    for b in sorted(region):
        t = f.term(b)
        if t["k"] == "call":
            c = t["callee"]
            chk.saw_calls()
            uses_scs = any(_points_to_local(f, a, scs_local) for a in t["args"])
            if callee_is(c, N.INDEX_MUT) and uses_scs:
                adds.append((b, t, "index_mut"))
            elif callee_is(c, N.ADD_ASSIGN) and uses_scs:
                adds.append((b, t, "add_assign"))
            elif uses_scs:
                others.append((b, callee_name(c)))
    chk.ob("C01.c", "Runner::run/Standard-arm/exactly-one-update", len(adds) == 1 and not others, f.loc(std),
           "the Standard arm must update the spectrum exactly once (found %d update(s), other uses: %s)" % (len(adds), others))
    for b, t, how in adds:
        if how == "index_mut":
            d = an.call_dest_local(t)
            ok = False
            found = "no store through the returned reference"
            for b2, i, p, rv, s in f.assigns():
                if p == (d, (("deref",),)):
                    if rv["k"] == "binop" and rv["op"] == "Add" and op_place(rv["l"]) == p:
                        v = const_val(rv["r"])
                        ok = isinstance(v, dict) and v.get("f") == "1.0"
                        found = rvstr(rv)
                    else:
                        found = rvstr(rv)
            chk.ob("C01.c", "Runner::run/Standard-arm/weight-one", ok, f.loc(b), "the update must be `cell = cell + 1.0` (found: %s)" % found)
            # index operand is the payload of Site::Standard
            idx = t["args"][1]
            sl, info = f.slice_locals(idx, through_calls=False)
            payload = False
            for l in sl:
                for dd in f.defs.get(l, []):
                    if dd[0] == "assign" and dd[3]["k"] == "use":
                        pl = op_place(dd[3]["op"])
                        if pl and any(e[0] == "downcast" and e[1] == "Standard" for e in pl[1]):
                            payload = True
            chk.ob("C01.c", "Runner::run/Standard-arm/index-is-site-counts", payload, f.loc(b),
                   "the cell updated must be indexed by the counts carried by Site::Standard")
        else:
            g = chk.fn("<sfs_core::spectrum::Spectrum<sfs_core::spectrum::Counts> as core::ops::arith::AddAssign<&sfs_core::spectrum::count::Count>>::add_assign")
            chk.ob("C01.c", "Runner::run/Standard-arm/weight-one", g is not None and _add_assign_is_plus_one(g), f.loc(b), "AddAssign<&Count> for Scs must add 1.0")
            # the count handed to `+=` is the payload of Site::Standard, and add_assign indexes by its argument
            sl, info = f.slice_locals(t["args"][1], through_calls=False)
            payload = any(dd[0] == "assign" and dd[3]["k"] == "use" and op_place(dd[3]["op"]) and any(e[0] == "downcast" and e[1] == "Standard" for e in op_place(dd[3]["op"])[1]) for l in sl for dd in f.defs.get(l, []))
            idx_ok = False
            if g is not None:
                im = an.calls(g, N.INDEX_MUT)
                idx_ok = len(im) == 1 and op_local(im[0][1]["args"][1]) is not None and g.copy_root(op_local(im[0][1]["args"][1])) == 2
            chk.ob("C01.c", "Runner::run/Standard-arm/index-is-site-counts", payload and idx_ok, f.loc(b), "`scs += counts` with counts carried by Site::Standard; add_assign updates self[count]")


def _add_assign_is_plus_one(g):
    for b, i, p, rv, s in g.assigns():
        if p[1] == (("deref",),) and rv["k"] == "binop" and rv["op"] == "Add":
            v = const_val(rv["r"])
            if isinstance(v, dict) and v.get("f") == "1.0":
                return True
    return False


def _points_to_local(f, a, local):
    l = op_local(a)
    if l is None:
        return False
    if l == local:
        return True
    tgt = f.resolve_ptr(l)
    return tgt is not None and tgt[0] == local


def runner_arms(chk, f):
    """decode `match self.reader.read_site()` in Runner::run: returns dict with the switch blocks and
    the arm targets Standard/Projected/InsufficientData/Error/Done and the scs local"""
    rs_bb = an.calls(f, READ_SITE)[0][0]
    sws = an.switches_on_call_result(f, rs_bb, through_payload=True)
    outer = None
    inner = None
    for b, s in sws:
        if s["kind"] == "discr" and s.get("adt") == READSTATUS:
            outer = b
        if s["kind"] == "discr" and s.get("adt") == SITE:
            inner = b
    if outer is None or inner is None:
        chk.fail("SHAPE", "Runner::run/match", f.loc(rs_bb), "match on ReadStatus / Site of read_site's result not recognised")
        return None
    out = {"status_sw": outer, "site_sw": inner, "read_site_bb": rs_bb}
    for nm in ("Read", "Error", "Done"):
        out[nm] = an.variant_target(f, outer, nm)
    for nm in ("Standard", "Projected", "InsufficientData"):
        out[nm] = an.variant_target(f, inner, nm)
    cz = an.calls(f, "sfs_core::input::site::reader::Reader::create_zero_scs")
    if len(cz) != 1:
        chk.fail("SHAPE", "Runner::run/create_zero_scs", f.loc(), "expected one create_zero_scs call")
        return None
    out["scs"] = an.call_dest_local(f.term(cz[0][0]))
    return out


def c01d(chk):
    f = chk.fn(CREATE_RUN)
    if f is None:
        return
    sp = an.calls(f, "sfs_core::spectrum::io::write::Builder::set_precision")
    if len(sp) != 1:
        chk.fail("C01.d", "Create::run/set_precision", f.loc(), "expected exactly one set_precision call, found %d" % len(sp))
        return
    b, t = sp[0]
    chk.saw_calls()
    arg = t["args"][1]
    l = op_local(arg)
    root = f.copy_root(l) if l is not None else None
    d = f.single_def(root) if root is not None else None
    ok = False
    why = "precision operand is not the result of a recognised idiom"
    if d and d[0] == "call":
        ct = d[2]
        cp = ct["callee"].get("path") or ""
        if cp == N.OPT_MAP_OR:
            # receiver derives from self.project ; default const 0
            recv_sl, info = f.slice_locals(ct["args"][0])
            from_project = ("sfs::create::Create", "project") in info["fields"]
            dflt = const_val(ct["args"][1])
            ok = from_project and dflt == 0
            why = "Option::map_or(receiver from self.project=%s, default=%s)" % (from_project, ostr(ct["args"][1]))
        elif cp.startswith("core::option::Option::<T>::"):
            why = "idiom %s not on the reviewed list (fail closed)" % cp
    elif root is not None:
        # switch form: const 0 on the None edge of a switch on self.project, or on the `false` edge of self.project.is_some()
        # (`true` edge of is_none())
        for x in [x for x in f.defs.get(root, []) if x[0] == "assign" and x[3]["k"] == "use" and const_val(x[3]["op"]) == 0]:
            for cb, ct in f.calls():
                isq = callee_is(ct["callee"], N.OPT_IS_SOME, N.OPT_IS_NONE)
                if not isq:
                    continue
                tgt = an.arg_pointee(f, ct, 0)
                if not (tgt and an.owned_self_field(tgt) == "project"):
                    continue
                for sb, s_ in an.switches_on_call_result(f, cb):
                    st_ = f.term(sb)
                    none_edge = an.edge_target(st_, 0) if callee_is(ct["callee"], N.OPT_IS_SOME) else st_["otherwise"]
                    if an.dominated_by_edge(f, sb, none_edge, x[1]):
                        ok = True
                        why = "const 0 assigned on the `project is None` edge of %s" % callee_name(ct["callee"]).split("::")[-1]
        # discriminant form
        defs = f.defs.get(root, [])
        consts = [x for x in defs if x[0] == "assign" and x[3]["k"] == "use" and const_val(x[3]["op"]) == 0]
        if consts:
            for x in consts:
                bb = x[1]
                for sb, st in f.switches():
                    s = an.switch_subject(f, sb)
                    if s["kind"] == "discr" and s["place"] and an.owned_self_field(s["place"]) == "project":
                        if an.dominated_by_edge(f, sb, an.edge_target(st, 0), bb):
                            ok = True
                            why = "const 0 assigned on the None edge of a switch on self.project"
    chk.ob("C01.d", "Create::run/precision-is-0-without-projection", ok, f.loc(b),
           "the precision handed to the writer must be const 0 when --project is absent, so counts print as exact integers (%s)" % why)


SIBLINGS = [
    ("sfs_core::input::sample::Map::shape", "sample::Map::shape (population size -> axis length)"),
    ("sfs_core::input::site::reader::builder::Project::shape", "create --project-individuals"),
    ("sfs::view::View::run", "view --project-individuals"),
]


def _sibling_sites(chk, path):
    """the integer arithmetic feeding the shape produced by one of the three individuals -> shape conversions (wherever it is written:
    in a closure of map(..), in a loop body pushing to a vector, or inline)"""
    f = chk.fn(path)
    if f is None:
        return None, None
    if path == VIEW_RUN:
        pc = an.calls(f, "sfs_core::spectrum::Spectrum::<S>::project")
        if len(pc) != 1:
            return f, None
        root = pc[0][1]["args"][1]
    else:
        root = 0
    return f, an.arithmetic_sites(chk.prog, f, root)


def affine_siblings(chk, rule):
    forms = {}
    for path, what in SIBLINGS:
        f, sites = _sibling_sites(chk, path)
        if f is None:
            continue
        if not sites:
            chk.fail(rule, "affine/%s=2x+1" % what, f.loc(), "no integer arithmetic feeds the shape: the 2*x+1 conversion was not found")
            continue
        for g, l, r in sites:
            chk.fns_analysed.add(g.path)
        bad = [(g.loc(), ("%d*x+%d over %s" % r) if r else "not affine / unrecognised") for g, l, r in sites if not (r is not None and r[0] == 2 and r[1] == 1)]
        forms[what] = sites[0][2]
        chk.ob(rule, "affine/%s=2x+1" % what, not bad, sites[0][0].loc(),
               "individuals -> axis length must be 2*x+1 (arithmetic feeding the shape: %s)" % [(g.loc(), ("%d*x+%d over %s" % r) if r else "not affine / unrecognised") for g, l, r in sites])
    # one axis length per requested value: between the option's vector and the shape only length-preserving adaptors (a zip with the input's
    # axes, a take, a filter would silently drop surplus or unwanted entries, and a target of the wrong dimensionality would be accepted)
    LENGTH_PRESERVING = ("collect", "map", "into_iter", "iter", "copied", "cloned", "enumerate", "inspect", "by_ref", "iter_mut", "rev", "from_iter", "into", "from", "to_vec", "clone", "to_owned", "as_slice", "deref", "as_ref")
    for path, what in SIBLINGS[1:]:
        f = chk.fn(path)
        if f is None:
            continue
        if path == VIEW_RUN:
            pc = an.calls(f, "sfs_core::spectrum::Spectrum::<S>::project")
            if len(pc) != 1:
                continue
            root = pc[0][1]["args"][1]
        else:
            root = {"k": "move", "place": {"l": 0, "p": []}}
        sl, info = f.slice_locals(root)
        ads = [callee_name(x[1]["callee"]).split("::")[-1] for x in info["calls"] if "iter" in callee_name(x[1]["callee"]).lower() and (x[1]["callee"].get("path") or "").startswith(("core::iter::", "<"))]
        bad = [a for a in ads if a not in LENGTH_PRESERVING]
        chk.ob(rule, "entries/%s/one-per-requested-value" % what, not bad, f.loc(),
               "iterator adaptors between the option's values and the shape: %s (length-changing: %s)" % (ads, bad or "none"))
    # every admissible target can be written down: the two options take plain unsigned integers (m_j = 0, i.e. `-p 0` = `--project-shape 1`,
    # projects a population away and is admissible; a NonZero or narrower element type refuses values the property quantifies over)
    for adt in ("sfs::create::Project", "sfs::view::Project"):
        a = chk.prog.adts.get(adt)
        if a is None:
            continue
        tys = {x["name"]: x["ty"] for x in a["variants"][0]["fields"]}
        want = "core::option::Option<alloc::vec::Vec<usize>>"
        chk.ob(rule, "option-types/%s/{individuals,shape}:Option<Vec<usize>>" % adt.split("sfs::")[-1], tys.get("individuals") == want and tys.get("shape") == want, "",
               "individuals: %s, shape: %s" % (tys.get("individuals"), tys.get("shape")))
    return forms


def c01e(chk):
    affine_siblings(chk, "C01.e")
    f, sites = _sibling_sites(chk, MAP_SHAPE)
    if f is None:
        return
    # the variable is the population size looked up by id
    if sites:
        g, l, r = sites[0]
        chk.ob("C01.e", "Map::shape/variable-is-population-size", r is not None and r[2] is not None and "unwrap" in (r[2] or ""), g.loc(),
               "the x in 2x+1 is the looked-up population size (leaf: %s)" % (r[2] if r else None))


# ====================================================================================
# C02
# ====================================================================================
FOLD_CLOSURE = READ_SITE + "::{closure#0}"
PP_PROJECT_UNCHECKED = "sfs_core::spectrum::project::PartialProjection::project_unchecked"
PROJECTED_NEW = "sfs_core::spectrum::project::Projected::<'a>::new_unchecked"
PITER_NEW = "sfs_core::spectrum::project::ProjectIter::<'a>::new_unchecked"
PROJECT_VALUE = "sfs_core::spectrum::project::ProjectIter::<'a>::project_value"
HYPERGEOM = "sfs_core::utils::hypergeometric_pmf"
SITE_BUILD = "sfs_core::input::site::reader::builder::Builder::build"
PP_FROM_SHAPE = "sfs_core::spectrum::project::PartialProjection::from_shape"


def check_C02(chk):
    chk.explanation = (
        "Structural clauses of C02: (a) the exact/projectable/insufficient decision only compares (total,to) with == and >= and the three "
        "outcomes are wired Standard/Projected/InsufficientData in that priority; (b) argument roles (project_from=totals, from=counts, "
        "project_to, to) are preserved from read_site down to hypergeometric_pmf(size, successes, draws, observed); (c) the three "
        "individuals->shape conversions all have affine form 2i+1; (d) dimension and size validation dominate PartialProjection::from_shape; "
        "(e) InsufficientData adds nothing to the spectrum; (f) the user's precision passes through when projecting; (g) building blocks of the "
        "hypergeometric weight: factorial table bound <= 170 (f64 range) with LEN = MAX + 1, fallback ln_gamma(x + 1), binomial argument roles of the pmf.")
    chk.not_decided = "the pmf values, their product over axes, row-major walking of the target (numeric)"
    rs = ReadSite(chk)
    if rs.ok:
        c02a(chk, rs)
        c02b(chk, rs)
    affine_siblings(chk, "C02.c")
    c02d(chk)
    c02e(chk)
    c02f(chk)
    c02g(chk)
    # shared clause: which chromosomes are `called` and how many are ALT is the genotype classification decided for C08
    import rules_geno as RG_
    def _geno():
        g_ = RG_.GenoFrom(chk)
        if g_.ok:
            RG_.c08a(chk, g_)
            RG_.c08b(chk, g_)
            RG_.c08c(chk, g_)
    chk.borrow(_geno, "C02.h", 4)
    # `among the selected samples`: selection isolation and the Error arm (C01.a, C08.f); `printed to --precision decimals`: the precision
    # reaches the formatter unmodified (C01.d, C07.c, C07.f, C17.f)
    import rules_io as RIO2_
    import rules_panic as RP2_
    if rs.ok:
        chk.borrow(lambda: (c01a(chk, rs), RG_.c08f(chk)), "C02.i", 6)
    chk.borrow(lambda: (c01d(chk), RIO2_.c07c(chk), RIO2_.c07f(chk), RP2_.precision_bound(chk, "C17.f")), "C02.j", 8)
    for r, n in (("C02.a", 10), ("C02.b", 10), ("C02.c", 3), ("C02.d", 2), ("C02.e", 1), ("C02.f", 1), ("C02.g", 7)):
        chk.floor(r, n)


def _param_root(g, op, depth=0):
    """which formal parameter (local index) an operand is a (re)borrow/copy of; None if unknown"""
    l = op_local(op)
    if l is None:
        p = op_place(op)
        if p and p[1] == (("deref",),) and 1 <= p[0] <= g.argc:
            return p[0]
        return None
    if 1 <= l <= g.argc:
        return l
    r = g.resolve_ptr(l)
    if r is not None:
        if r[1] == (("deref",),) and 1 <= r[0] <= g.argc:
            return r[0]
        return None
    l2 = g.copy_root(l)
    if l2 != l and 1 <= l2 <= g.argc:
        return l2
    return None


def _c02a_pair_roles(f, it):
    """the iteration runs over zip(self.totals, project_to()) pairs and nothing else"""
    import iters as IT
    ch = it.chain()
    zt = IT.chain_get(ch, "zip")
    if zt is None or IT.chain_names(ch)[0] != "zip":
        return False, "zip not recognised (chain %s)" % IT.chain_names(ch)
    s0, i0 = f.slice_locals(zt["args"][0])
    s1, i1 = f.slice_locals(zt["args"][1])
    first_totals = ("sfs_core::input::site::reader::Reader", "totals") in i0["fields"] and ("sfs_core::input::site::reader::Reader", "counts") not in i0["fields"]
    second_to = any(callee_is(t_["callee"], "sfs_core::spectrum::project::PartialProjection::project_to") for _, t_ in i1["calls"])
    plain = [n for n in IT.chain_names(ch) if n not in ("zip", "iter")] == []
    return first_totals and second_to and plain, "first=self.totals:%s second=project_to():%s no other adaptor:%s" % (first_totals, second_to, plain)


def _c02a_by_facts(chk, rs, its, desc):
    import iters as IT
    f = rs.fn
    prog = chk.prog
    EQ, GE, NE, LT = ("Eq", (0,), (1,)), ("Ge", (0,), (1,)), ("Ne", (0,), (1,)), ("Lt", (0,), (1,))
    sites = [(b, v) for b, v, rv in rs.site_aggregates() if rs.in_proj(b)]
    if {v for b, v in sites} != {"Standard", "Projected", "InsufficientData"}:
        return False
    rows = []
    used = {}
    # the two count vectors compared as wholes for equality: `totals == project_to` on slices / Counts of equal length (the builder rejects
    # a projection whose dimension differs, C02.d) is `total == to` for every axis; `!=` / a false `==` says some axis differs
    whole = []
    for cb, ct in f.calls():
        cp = ct["callee"].get("path") or ""
        if cp not in ("core::cmp::PartialEq::eq", "core::cmp::PartialEq::ne") or len(ct["args"]) != 2:
            continue
        tys = " ".join(ct["callee"].get("args", []))
        if "[usize]" not in tys and "Count" not in tys and "Vec<usize>" not in tys:
            continue
        s0, i0 = f.slice_locals(ct["args"][0])
        s1, i1 = f.slice_locals(ct["args"][1])
        def is_tot(i_):
            return ("sfs_core::input::site::reader::Reader", "totals") in i_["fields"] and ("sfs_core::input::site::reader::Reader", "counts") not in i_["fields"]
        def is_to(i_):
            return any(callee_is(t_["callee"], "sfs_core::spectrum::project::PartialProjection::project_to") for _, t_ in i_["calls"])
        if (is_tot(i0) and is_to(i1)) or (is_tot(i1) and is_to(i0)):
            whole.append((cb, ct, cp.endswith("::eq")))
            chk.saw_calls()
    def whole_facts(b):
        fa_, ex_ = [], []
        for cb, ct, is_eq in whole:
            d_ = an.call_dest_local(ct)
            for sb_, st_ in f.switches():
                ss_ = an.switch_subject(f, sb_)
                if ss_["kind"] != "value" or ss_["root"] is None or an.origin_local(f, ss_["root"]) != d_:
                    continue
                t_true, t_false = st_["otherwise"], an.edge_target(st_, 0)
                eq_edge, ne_edge = (t_true, t_false) if is_eq else (t_false, t_true)
                if an.dominated_by_edge(f, sb_, eq_edge, b):
                    fa_.append({"it": None, "cmp": EQ, "how": "the two vectors are equal as wholes"})
                if an.dominated_by_edge(f, sb_, ne_edge, b):
                    ex_.append({"it": None, "cmp": NE, "how": "the two vectors differ as wholes"})
        return fa_, ex_
    for b, variant in sites:
        fa = IT.forall_guards(prog, f, its, b)
        ex = IT.exists_guards(prog, f, its, b)
        wf, we = whole_facts(b)
        fa, ex = fa + wf, ex + we
        for x in fa + ex:
            if x["it"] is not None:
                used[id(x["it"])] = x["it"]
        rows.append((b, variant, fa, ex))
    if not used and not whole:
        return False
    def has(xs, c):
        return [x for x in xs if x["cmp"] == c]
    for b, variant, fa, ex in rows:
        # total >= to and total <= to for every pair of the same iteration is total == to for every pair
        for x in list(fa):
            if x["cmp"] == GE:
                for y in fa:
                    if y["cmp"] == ("Le", (0,), (1,)) and y["it"] is x["it"]:
                        fa.append({"it": x["it"], "cmp": EQ, "how": "both >= and <= hold for every pair"})
                        break
        how = "for every pair: %s; for some pair: %s" % ([(x["cmp"][0], x["how"]) for x in fa], [(x["cmp"][0], x["how"]) for x in ex])
        if variant == "Standard":
            chk.ob("C02.a", "read_site/projection/Standard<=exact", bool(has(fa, EQ)), f.loc(b),
                   "Site::Standard under projection requires total == to for every axis at this point (%s)" % how)
        elif variant == "Projected":
            chk.ob("C02.a", "read_site/projection/Projected<=!exact&&projectable", bool(has(fa, GE)) and bool(has(ex, NE) or has(ex, ("Gt", (0,), (1,)))), f.loc(b),
                   "Site::Projected requires total >= to for every axis and total != to for some axis at this point (%s)" % how)
            chk.ob("C02.a", "fold-closure/projectable-operator", bool(has(fa, GE)), f.loc(b), "projectable must be exactly `total >= to` for every axis (%s)" % how)
        else:
            chk.ob("C02.a", "read_site/projection/Insufficient<=!projectable", bool(has(ex, LT)), f.loc(b),
                   "Site::InsufficientData under projection requires total < to for some axis at this point (%s)" % how)
    for it in used.values():
        chk.fns_analysed.add(it.body.path)
        ok, why = _c02a_pair_roles(f, it)
        chk.ob("C02.a", "read_site/fold/zip(totals, project_to)[%s]" % it.loc().split(":")[0].split("/")[-1], ok, it.loc(), "the per-axis decision must run over (total, to) pairs: %s" % why)
        chk.saw_calls()
    allc = []
    for it in used.values():
        allc += IT.body_comparisons(it)
    allc = [IT.norm_cmp(c) if len(c) == 3 and c[1] is not None and c[2] is not None else c for c in allc]
    extra = [c for c in allc if c not in (EQ, GE, NE, LT, ("Gt", (0,), (1,)))]
    allc = allc + [("Eq" if is_eq else "Ne", "whole", "whole") for cb, ct, is_eq in whole]
    chk.ob("C02.a", "fold-closure/no-other-comparison", not extra and 1 <= len(allc) <= 3, f.loc(),
           "the covered-site decision compares (total, to) only; every comparison in the per-pair bodies: %s" % allc)
    for b, variant, rv in rs.site_aggregates():
        if not rs.in_proj(b) and not rs.in_noproj(b):
            chk.ob("C02.a", "read_site/%s/decided-under-the-projection-option" % variant, False, f.loc(b),
                   "Site::%s is constructed outside both branches of the projection option: with --project it bypasses the exact / projectable decision" % variant)
    chk.extra["C02.a-form"] = "decided from per-outcome facts (no two-flag form); flags seen: %s" % (desc,)
    chk.rule_counts["C02.a"] = chk.rule_counts.get("C02.a", 0) + 4   # the four flag-form obligations (own flag, init) have no counterpart here
    return True


def c02a(chk, rs):
    import iters as IT
    f = rs.fn
    prog = chk.prog
    its = IT.iterations(prog, f)
    in_body = set()
    for it in its:
        if it.kind == "loop" and it.parent is f:
            in_body |= it.blocks
    # the switches of the projection branch that test a per-axis conjunction flag
    vflags = IT.forall_flags(prog, f, its)
    flags = []
    for b, t in f.switches():
        if not rs.in_proj(b) or b in in_body:
            continue
        s = an.switch_subject(f, b)
        if s["kind"] != "value" or s["root"] is None:
            continue
        cf = IT.conj_flag(prog, f, its, s["root"])
        if cf is None or not cf["cmps"]:
            # `let mut exact = true; for .. { if total != to { exact = false } }`: true only if the negated test held for every pair
            vf = vflags.get(s["root"]) or vflags.get(f.copy_root(s["root"]))
            if vf is not None and vf["how"].startswith("violation flag"):
                cf = {"form": "violation-flag", "it": vf["it"], "init": True, "cmps": [vf["cmp"]], "own": True, "calls": 0, "where": vf["it"].loc()}
        if cf is not None:
            cf = dict(cf, cmps=[IT.norm_cmp(c) if c[1] is not None and c[2] is not None else c for c in cf["cmps"]])
            flags.append((b, cf))
            chk.fns_analysed.add(cf["it"].body.path)
    EXACT = {("Eq", (0,), (1,))}
    PROJ = {("Ge", (0,), (1,))}
    def klass(cf):
        if len(cf["cmps"]) == 1 and not cf["calls"]:
            if cf["cmps"][0] in EXACT:
                return "exact"
            if cf["cmps"][0] in PROJ:
                return "projectable"
        return None
    by = {"exact": [], "projectable": []}
    for b, cf in flags:
        k = klass(cf)
        if k:
            by[k].append((b, cf))
    desc = [(f.loc(b), cf["form"], cf["cmps"]) for b, cf in flags]
    if len(by["exact"]) != 1 or len(by["projectable"]) != 1:
        # not the two-flag form: decide each outcome from what is established, at the place the site is built, about all / some
        # (total, to) pairs - by whichever of flag, all()/any()/find(), guarded loop exit or returned enum variant the code uses
        if _c02a_by_facts(chk, rs, its, desc):
            return
    if not flags:
        chk.fail("C02.a", "read_site/fold", f.loc(), "no per-axis conjunction (fold / loop / all over (total, to) pairs) decides the projection branch")
        return
    sw = {}
    for nm, what in (("exact", "total == to"), ("projectable", "total >= to")):
        cands = by[nm]
        ok = len(cands) == 1
        where = cands[0][1]["where"] if cands else f.loc()
        chk.ob("C02.a", "fold-closure/%s-operator" % nm, ok, where,
               "%s must be the conjunction over all axes of exactly `%s` (element part 0 = total, 1 = to); conjunction flags found: %s" % (nm, what, desc))
        if not ok:
            continue
        b, cf = cands[0]
        sw[nm] = b
        chk.saw_calls()
        chk.ob("C02.a", "fold-closure/%s-accumulates-own-flag" % nm, cf["own"], cf["where"],
               "the %s flag must be and-ed with itself only, for every pair (%s form)" % (nm, cf["form"]))
        chk.ob("C02.a", "read_site/fold/init=(true,true)[%s]" % nm, cf["init"] is True, cf["where"], "the %s flag must start as true (found %s)" % (nm, cf["init"]))
        # zip roles: receiver from self.totals, other from project_to(); every pair is visited
        it = cf["it"]
        ch = it.chain()
        zt = IT.chain_get(ch, "zip")
        roles_ok = False
        why = "zip not recognised (chain %s)" % IT.chain_names(ch)
        if zt is not None and IT.chain_names(ch)[0] == "zip":
            s0, i0 = f.slice_locals(zt["args"][0])
            s1, i1 = f.slice_locals(zt["args"][1])
            first_totals = ("sfs_core::input::site::reader::Reader", "totals") in i0["fields"] and ("sfs_core::input::site::reader::Reader", "counts") not in i0["fields"]
            second_to = any(callee_is(t_["callee"], "sfs_core::spectrum::project::PartialProjection::project_to") for _, t_ in i1["calls"])
            plain = [n for n in IT.chain_names(ch) if n not in ("zip", "iter")] == []
            every = it.runs_for_every_element() or it.consumer == "all"
            roles_ok = first_totals and second_to and plain and every
            why = "first=self.totals:%s second=project_to():%s no other adaptor:%s every pair:%s" % (first_totals, second_to, plain, every)
        chk.ob("C02.a", "read_site/fold/zip(totals, project_to)[%s]" % nm, roles_ok, it.loc(), "the %s flag must run over (total, to) pairs: %s" % (nm, why))
    # no comparison in the per-pair bodies other than those two (a comparison that only steers control flow, e.g.
    # `total > 0 && total >= to`, is invisible to the data slice)
    allc = []
    seen_bodies = set()
    for b, cf in flags:
        it = cf["it"]
        key = (it.body.path, it.bb)
        if key in seen_bodies:
            continue
        seen_bodies.add(key)
        allc += IT.body_comparisons(it)
    allc = [IT.norm_cmp(c) if len(c) == 3 and c[1] is not None and c[2] is not None else c for c in allc]
    NEGS = {("Ne", (0,), (1,)), ("Lt", (0,), (1,))}   # the same two tests written as their negations (violation flags)
    extra = [c for c in allc if c not in EXACT | PROJ | NEGS]
    chk.ob("C02.a", "fold-closure/no-other-comparison", not extra and len(allc) == 2, f.loc(),
           "the covered-site decision compares (total, to) with == and >= only; every comparison in the per-pair bodies: %s" % allc)
    if "exact" not in sw or "projectable" not in sw:
        chk.fail("C02.a", "read_site/outcome-switches", f.loc(), "switches on the exact / projectable flags not recognised")
        return
    sw_exact, sw_proj = sw["exact"], sw["projectable"]
    fb = sw_exact
    def true_t(b):
        t = f.term(b)
        return t["otherwise"]
    def false_t(b):
        return an.edge_target(f.term(b), 0)
    for b, variant, rv in rs.site_aggregates():
        if not rs.in_proj(b):
            if not rs.in_noproj(b):
                chk.ob("C02.a", "read_site/%s/decided-under-the-projection-option" % variant, False, f.loc(b),
                       "Site::%s is constructed outside both branches of the projection option: with --project it bypasses the exact / projectable decision" % variant)
            continue
        if variant == "Standard":
            ok = an.dominated_by_edge(f, sw_exact, true_t(sw_exact), b)
            chk.ob("C02.a", "read_site/projection/Standard<=exact", ok, f.loc(b), "Site::Standard under projection requires exact (every total == target)")
        elif variant == "Projected":
            ok = an.dominated_by_edge(f, sw_exact, false_t(sw_exact), b) and an.dominated_by_edge(f, sw_proj, true_t(sw_proj), b)
            chk.ob("C02.a", "read_site/projection/Projected<=!exact&&projectable", ok, f.loc(b), "Site::Projected requires !exact and projectable")
        elif variant == "InsufficientData":
            ok = an.dominated_by_edge(f, sw_exact, false_t(sw_exact), b) and an.dominated_by_edge(f, sw_proj, false_t(sw_proj), b)
            chk.ob("C02.a", "read_site/projection/Insufficient<=!projectable", ok, f.loc(b), "InsufficientData requires !exact and !projectable")


def c02b(chk, rs):
    f = rs.fn
    pu = an.calls(f, PP_PROJECT_UNCHECKED)
    if len(pu) != 1:
        chk.fail("C02.b", "read_site/project_unchecked", f.loc(), "expected one project_unchecked call, found %d" % len(pu))
        return
    b, t = pu[0]
    chk.saw_calls()
    a1 = an.arg_pointee(f, t, 1)
    a2 = an.arg_pointee(f, t, 2)
    chk.ob("C02.b", "read_site/project_unchecked(project_from=totals)", a1 is not None and an.self_field(a1) == "totals", f.loc(b),
           "project_from (population size drawn from) must be &self.totals, found %s" % (pstr(a1) if a1 else "?"))
    chk.ob("C02.b", "read_site/project_unchecked(from=counts)", a2 is not None and an.self_field(a2) == "counts", f.loc(b),
           "from (successes) must be &self.counts, found %s" % (pstr(a2) if a2 else "?"))
    # PartialProjection::project_unchecked -> Projected::new_unchecked(project_from, &self.project_to, from, &mut self.to_buf)
    g = chk.fn(PP_PROJECT_UNCHECKED)
    if g is not None:
        cs = an.calls(g, PROJECTED_NEW)
        if len(cs) == 1:
            cb, ct = cs[0]
            roles = [_param_root(g, ct["args"][0]), an.self_field(an.arg_pointee(g, ct, 1) or (0, ())), _param_root(g, ct["args"][2]), an.self_field(an.arg_pointee(g, ct, 3) or (0, ()))]
            chk.ob("C02.b", "PartialProjection::project_unchecked/forwarding", roles == [2, "project_to", 3, "to_buf"], g.loc(cb),
                   "must forward (project_from, &self.project_to, from, &mut self.to_buf); found roles %s" % roles)
        else:
            chk.fail("C02.b", "PartialProjection::project_unchecked/forwarding", g.loc(), "Projected::new_unchecked call not found")
    g = chk.fn("sfs_core::spectrum::project::Projection::project_unchecked")
    if g is not None:
        cs = an.calls(g, PP_PROJECT_UNCHECKED)
        if len(cs) == 1:
            cb, ct = cs[0]
            r0 = an.arg_pointee(g, ct, 0)
            r1 = an.arg_pointee(g, ct, 1)
            ok = r0 is not None and an.self_field(r0) == "inner" and r1 is not None and an.self_field(r1) == "project_from" and _param_root(g, ct["args"][2]) == 2
            chk.ob("C02.b", "Projection::project_unchecked/forwarding", ok, g.loc(cb), "must call inner.project_unchecked(&self.project_from, from)")
        else:
            chk.fail("C02.b", "Projection::project_unchecked/forwarding", g.loc(), "inner project_unchecked call not found")
    g = chk.fn(PROJECTED_NEW)
    if g is not None:
        cs = an.calls(g, PITER_NEW)
        ok = len(cs) == 1 and [_param_root(g, a) for a in cs[0][1]["args"]] == [1, 2, 3, 4]
        why_f = "must forward its four arguments in order"
        if not cs and chk.prog.fn(PITER_NEW) is g:
            # ProjectIter::new_unchecked was merged into this function: the iterator is built here, from these arguments (fields rule below)
            ok = True
            why_f = "the iterator is constructed in place (ProjectIter::new_unchecked merged into its only caller); the field roles are checked below"
        chk.ob("C02.b", "Projected::new_unchecked/forwarding", ok, g.loc(), why_f)
        w = None
        for b2, i, p, rv, s in g.assigns():
            if rv["k"] == "aggregate" and rv["akind"] == "adt" and rv["adt"].endswith("project::Projected"):
                flds = rv["fields"]
                if "weight" in flds:
                    w = const_val(rv["ops"][flds.index("weight")])
        chk.ob("C02.b", "Projected::new_unchecked/weight=1", isinstance(w, dict) and w.get("f") == "1.0", g.loc(), "a site's projection has weight 1.0 (found %s)" % w)
    g = chk.fn(PITER_NEW)
    if g is not None:
        ok = False
        found = None
        for b2, i, p, rv, s in g.assigns():
            if rv["k"] == "aggregate" and rv["akind"] == "adt" and rv["adt"].endswith("project::ProjectIter"):
                flds = rv["fields"]
                roles = {}
                for fi, fname in enumerate(flds):
                    o = rv["ops"][fi]
                    roles[fname] = _param_root(g, o) if o["k"] != "const" else ("const", const_val(o))
                found = roles
                ok = roles == {"project_from": 1, "project_to": 2, "from": 3, "to": 4, "index": ("const", 0)}
        chk.ob("C02.b", "ProjectIter::new_unchecked/fields", ok, g.loc(), "fields must be (project_from, project_to, from, to, index=0) from arguments 1..4; found %s" % found)
    g = chk.fn(PROJECT_VALUE)
    if g is not None:
        import iters as IT
        prog = chk.prog
        its = IT.iterations(prog, g)
        unit = [g] + prog.closures_of(g.path)
        hs = [(h, b2, t2) for h in unit for b2, t2 in an.calls(h, HYPERGEOM)]
        tree = None
        roles = None
        nb = None
        it = None
        if len(hs) == 1:
            h, hb, ht = hs[0]
            chk.fns_analysed.add(h.path)
            inside = [x for x in its if x.body is h and hb in x.blocks]
            it = min(inside, key=lambda x: len(x.blocks)) if inside else None
        if it is not None:
            # zip nesting, read off the receiver chain: zip(zip(zip(A, B), C), D) has main source A and side sources D, C, B (outermost first)
            def src_field(ch):
                pl = ch[-1][1] if ch else None
                ok_names = [n for n in IT.chain_names(ch) if n not in ("iter",)] == []
                if pl is None or not ok_names:
                    return None
                fld = an.self_field(pl)
                if fld is None and all(e == ("deref",) for e in pl[1]):
                    # a copy of a reference-typed field: `_t = (*self).from; &*_t`
                    d = g.single_def(g.copy_root(pl[0]))
                    if d and d[0] == "assign" and d[3]["k"] == "use" and op_place(d[3]["op"]) is not None:
                        fld = an.self_field(op_place(d[3]["op"]))
                return fld
            ch = it.chain()
            zips = [x for x in ch if x[0] == "zip"]
            others = [n for n in IT.chain_names(ch) if n not in ("zip", "iter", "map")]
            if len(zips) == 3 and not others and all(len(z[2]) == 1 for z in zips):
                A = src_field([x for x in ch if x[0] != "zip" and x[0] != "map"])
                D, C, B = [src_field(z[2][0]) for z in zips]
                tree = (((A, B), C), D)
            it.through_casts = True
            roles = [it.elem_path(a_) for a_ in ht["args"]]
            stop = (lambda l, it=it: l == it.elem_local)
            nb = [len(h.slice_locals(a_, through_calls=False, stop=stop)[1]["binops"]) for a_ in ht["args"]]
        chk.ob("C02.b", "project_value/zip-order", tree == ((("project_from", "from"), "project_to"), "to"), g.loc(),
               "zip nesting must be (((project_from, from), project_to), to); found %s" % (tree,))
        ok = roles == [(0, 0, 0), (0, 0, 1), (0, 1), (1,)] and nb == [0, 0, 0, 0]
        chk.ob("C02.b", "project_value::closure/hypergeometric_pmf(size,successes,draws,observed)", ok, it.loc() if it else g.loc(),
               "arguments must be the zipped (project_from, from, project_to, to) components in that order, unmodified; found tuple paths %s" % (roles,))
        # the joint probability: product over every axis, starting from 1.0
        ok = False
        why = "accumulation of the returned value not recognised"
        r0 = g.defs.get(0, [])
        root = None
        if len(r0) == 1 and r0[0][0] == "call":
            root = 0
        elif len(r0) == 1 and r0[0][0] == "assign" and r0[0][3]["k"] == "use" and op_local(r0[0][3]["op"]) is not None:
            root = g.copy_root(op_local(r0[0][3]["op"]))
        acc = IT.accumulation(prog, g, its, root) if root is not None and it is not None else None
        rd = g.single_def(root) if root is not None else None
        if acc is None and it is not None and rd and rd[0] == "call" and (rd[2]["callee"].get("path") or "") == "core::iter::traits::iterator::Iterator::product":
            # `.map(|..| pmf(..)).product::<f64>()`: the product of every pmf, starting from 1.0 by definition
            ch = IT.receiver_chain(g, rd[2]["args"][0])
            mt = IT.chain_get(ch, "map")
            through = mt is not None and it.kind == "closure" and it.term is mt and an.call_dest_local(hs[0][2]) == 0 and not it.switches()
            plain = [n for n in IT.chain_names(ch) if n not in ("map", "zip", "iter")] == []
            ok = through and plain and "f64" in " ".join(rd[2]["callee"].get("args", []))
            why = "product() over map(|..| pmf(..)): %s" % ok
        if acc is not None:
            ai = acc["it"]
            res = acc["result"]
            bo = None
            if isinstance(res, tuple) and res[0] == "rv" and res[1]["k"] == "binop":
                bo = res[1]
            elif not isinstance(res, tuple):
                bo = an.binop_def(ai.body, res)
            init = const_val(acc["init"])
            one = isinstance(init, dict) and init.get("f") == "1.0"
            mul = False
            if bo is not None and bo["op"] == "Mul":
                for x, y in ((bo["l"], bo["r"]), (bo["r"], bo["l"])):
                    if not acc["is_acc"](x):
                        continue
                    if ai is it:
                        # loop: the factor is the pmf computed in the same body
                        l = op_local(y)
                        mul = l is not None and ai.body.copy_root(l) == an.call_dest_local(hs[0][2])
                    else:
                        # fold over map(|..| pmf(..)): the factor is the fold's element and the map closure returns the pmf
                        mt = IT.chain_get(ai.chain(), "map")
                        mul = ai.elem_path(y) == () and mt is not None and it.kind == "closure" and it.term is mt and an.call_dest_local(hs[0][2]) == 0
            every = ai.runs_for_every_element() and not ai.switches() and it.runs_for_every_element() and not it.switches()
            ok = one and mul and every
            why = "%s: starts at 1.0=%s, joint * pmf=%s, every axis=%s" % (ai.describe(), one, mul, every)
        chk.ob("C02.b", "project_value/product-of-axis-pmfs", ok, g.loc(), "the joint weight is the product of the per-axis pmfs (%s)" % why)


def c02g(chk):
    """hypergeometric building blocks whose truth is in the shape of the code"""
    prog = chk.prog
    mx = prog.consts.get("sfs_core::utils::factorial::MAX")
    ln = prog.consts.get("sfs_core::utils::factorial::PRECOMPUTED_LEN")
    ok = mx is not None and ln is not None and isinstance(mx.get("val"), int) and mx["val"] <= 170 and ln.get("val") == mx["val"] + 1
    chk.ob("C02.g", "factorial-table/bound<=170", ok, "core/src/utils.rs",
           "170! is the largest factorial representable in f64 (171! = inf): the precomputed table may hold 0!..MAX! with MAX <= 170 and LEN = MAX + 1 (MAX = %s, LEN = %s)" % (mx.get("val") if mx else None, ln.get("val") if ln else None))
    lf = chk.fn("sfs_core::utils::factorial::ln_factorial")
    if lf is not None:
        cl = None
        for c in [lf] + prog.closures_of(lf.path):
            if an.calls(c, "sfs_core::utils::gamma::ln_gamma"):
                cl = c
        ok = False
        why = "fallback calling ln_gamma not found"
        if cl is not None:
            chk.fns_analysed.add(cl.path)
            b, t = an.calls(cl, "sfs_core::utils::gamma::ln_gamma")[0]
            # argument = (x as f64) + 1.0
            l = op_local(t["args"][0])
            d = cl.single_def(cl.copy_root(l)) if l is not None else None
            if d and d[0] == "assign" and d[3]["k"] == "binop" and d[3]["op"] == "Add":
                cv = [const_val(d[3]["l"]), const_val(d[3]["r"])]
                one = [v for v in cv if isinstance(v, dict) and v.get("f") == "1.0"]
                other = d[3]["l"] if isinstance(cv[1], dict) else d[3]["r"]
                sl, info = cl.slice_locals(other, through_calls=False)
                casts_x = not info["binops"]
                ok = len(one) == 1 and casts_x
                why = "ln_gamma(%s)" % rvstr(d[3])
            else:
                why = "argument of ln_gamma is not `x + 1.0` (n! = Gamma(n + 1)): %s" % (rvstr(d[3]) if d and d[0] == "assign" else "?")
        chk.ob("C02.g", "ln_factorial/fallback=ln_gamma(x+1)", ok, lf.loc(), "beyond the table ln n! must be ln Gamma(n + 1): " + why)
        # ... and those are the only two sources of its value: ln_factorial computes nothing itself (an asymptotic formula for large arguments,
        # however accurate in the logarithm, is exponentiated by the pmf and does not cancel against the exact values below its threshold)
        arith = []
        fcalls = []
        for c in [lf] + prog.closures_of(lf.path):
            for b_, i_, p_, rv_, s_ in c.assigns():
                if rv_["k"] == "binop" and rv_["op"] in ("Add", "Sub", "Mul", "Div", "Rem") and ("f64" in (rv_.get("lty") or "") or "f64" in c.local_ty(p_[0])):
                    arith.append("%s at %s" % (rv_["op"], c.loc(b_)))
            for b_, t_ in c.calls():
                nm_ = callee_name(t_["callee"])
                if nm_.startswith(("std::f64::<impl f64>::", "core::f64::<impl f64>::", "core::num::<impl f64>::")):
                    fcalls.append(nm_.split("::")[-1])
        chk.ob("C02.g", "ln_factorial/value-from-table-or-ln_gamma-only", len(arith) <= 1 and sorted(set(fcalls)) in ([], ["ln"]) and len(fcalls) <= 1, lf.loc(),
               "f64 arithmetic in ln_factorial: %s (expected only the `x + 1.0` of the gamma argument); f64 functions applied: %s (expected at most one ln of the table entry)" % (arith or "none", fcalls or "none"))
        # the table lookup uses x itself as index: table.get(x as usize), or table[x as usize] (its bounds check is a C17 site)
        gets = [t for b, t in lf.calls() if callee_is(t["callee"], "core::slice::<impl [T]>::get")]
        ok = False
        how_idx = "no table read found"
        if len(gets) == 1:
            sl, info = lf.slice_locals(gets[0]["args"][1], through_calls=False)
            ok = 1 in sl and not info["binops"]
            how_idx = "get(x)"
        elif not gets:
            idx = [t["msg"]["index"] for b, t in lf.asserts() if t["msg"]["kind"] == "BoundsCheck"]
            if len(idx) == 1:
                sl, info = lf.slice_locals(idx[0], through_calls=False)
                ok = 1 in sl and not info["binops"]
                how_idx = "table[x]"
        chk.ob("C02.g", "ln_factorial/table-indexed-by-x", ok, lf.loc(), "the table is read at index x (entry i holds i!): %s" % how_idx)
    pc = chk.fn("sfs_core::utils::factorial::precomputed")
    if pc is not None:
        import rules_fact as RF
        # the initialiser handed to get_or_init: a closure, or a function named as a value (`get_or_init(factorial_table)`)
        inits = list(prog.closures_of(pc.path))
        for _, t_ in pc.calls():
            for a_ in t_["args"]:
                if a_["k"] == "const" and a_.get("fn") and prog.fn(a_["fn"]) is not None and a_["fn"].startswith("sfs_core::utils::"):
                    inits.append(prog.fn(a_["fn"]))
        ok = False
        stores_ln = None
        why = "no initialiser of the table found"
        for c in inits:
            r, w0 = RF.table_fill(prog, c)
            if r is None:
                why = w0 if not ok else why
                continue
            chk.fns_analysed.add(c.path)
            chk.fns_analysed.add(r["it"].body.path)
            ok, stores_ln, why = RF.judge_fill(r)
            break
        chk.ob("C02.g", "precomputed/entry_i=entry_(i-1)*i", ok, pc.loc(),
               "every entry i = 1..MAX of the table is the previous factorial times i, starting from 0! = 1 (read off the fill iteration symbolically): %s" % why)
        if lf is not None and ok:
            n_ln = RF.lookup_applies_ln(prog, lf, pc.path)
            ln_ok = (n_ln == 0) if stores_ln else (n_ln == 1)
            chk.ob("C02.g", "ln_factorial/ln-taken-exactly-once", ln_ok, lf.loc(),
                   "ln_factorial(x) = ln(x!): the logarithm is taken either when the table is filled or when it is read, not both and not neither "
                   "(table stores %s, ln() applied to the value read %d time(s))" % ("ln(i!)" if stores_ln else "i!", n_ln))
    lg = chk.fn("sfs_core::utils::gamma::ln_gamma")
    if lg is not None:
        import rules_fact as RF
        ok_g, why_g = RF.ln_gamma_upper_branch(prog, lg)
        for c_ in prog.closures_of(lg.path):
            chk.fns_analysed.add(c_.path)
        chk.ob("C02.g", "ln_gamma/x>=0.5=ln(S)+C+(x-0.5)ln((x-0.5+r)/e)", ok_g is not False, lg.loc(),
               "beyond the table ln n! = ln_gamma(n + 1) runs through the x >= 0.5 branch; read as an expression it must be the Lanczos form "
               "ln(d_0 + sum_k d_k / (x + k - 1)) + ln(2 sqrt(e / pi)) + (x - 0.5) ln((x - 0.5 + r) / e) with the reviewed r and d_k "
               "(the x < 0.5 reflection branch is never reached from ln_factorial and is not judged): %s" % why_g)
    hp = chk.fn(HYPERGEOM)
    if hp is not None:
        form = log_form(prog, hp, {1: ("lin", {1: 1}, 0), 2: ("lin", {2: 1}, 0), 3: ("lin", {3: 1}, 0), 4: ("lin", {4: 1}, 0)})
        # C(K,k) C(N-K,n-k) / C(N,n) as signed ln-factorial terms over (N, K, n, k) = parameters 1..4 (size, successes, draws, observed)
        def lin(n=0, K=0, d=0, k=0):
            return tuple(sorted((i, c) for i, c in ((1, n), (2, K), (3, d), (4, k)) if c))
        want = sorted([(+1, lin(K=1)), (-1, lin(k=1)), (-1, lin(K=1, k=-1)),
                       (+1, lin(n=1, K=-1)), (-1, lin(d=1, k=-1)), (-1, lin(n=1, K=-1, d=-1, k=1)),
                       (-1, lin(n=1)), (+1, lin(d=1)), (+1, lin(n=1, d=-1))])
        got = None
        n_exp = None
        if form is not None and form[0] == "exp":
            got = sorted((sg, tuple(sorted((i, c) for i, c in co.items() if c))) for sg, co, k0 in form[1] if k0 == 0)
            got = got if len(got) == len(form[1]) else None
            n_exp = form[2]
        chk.saw_calls(3)
        chk.ob("C02.g", "hypergeometric_pmf/binomial-roles", got == want, hp.loc(),
               "pmf = C(successes, observed) * C(size - successes, draws - observed) / C(size, draws) with (size, successes, draws, observed) = parameters 1..4, "
               "read off as signed ln-factorial terms through the helper functions (found %s)" % (got if got is not None else form,))
        chk.ob("C02.g", "hypergeometric_pmf/product-over-quotient", got == want and n_exp == 1, hp.loc(),
               "the ratio is formed in log-space and exponentiated once: no binomial coefficient is materialised as f64 (C(n, n/2) exceeds f64::MAX from n = 1030, "
               "making the weight inf/inf = NaN for the cohorts of thousands of chromosomes the property names); separate exp() results combined: %s" % n_exp)
        # the private helper's only caller is the pmf (its `n - k` relies on the pmf's guards)
        lb = prog.fn("sfs_core::utils::ln_binomial")
        if lb is not None:
            import rules_panic as RP_
            callers = []
            unguarded = []
            for g_, b_, t_ in prog.callers_of(lb.path):
                callers.append(g_.path)
                if g_.path == HYPERGEOM:
                    continue
                # another caller is fine if it establishes k <= n itself (a dominating comparison of the two arguments)
                if not (len(t_["args"]) == 2 and RP_.guarded_sub(g_, b_, t_["args"][0], t_["args"][1])):
                    unguarded.append(g_.path)
            callers = sorted(set(callers))
            chk.ob("C02.g", "ln_binomial/only-called-by-the-pmf", HYPERGEOM in callers and not unguarded, lb.loc(),
                   "ln_binomial(n, k) assumes k <= n: hypergeometric_pmf's guards establish it, any other caller must test it before the call (callers: %s; without such a test: %s)" % (callers, unguarded), nontrivial=False)
        # impossible cases return 0.0
        z = [rv for _, _, p_, rv, _ in hp.assigns() if p_[0] == 0 and rv["k"] == "use" and isinstance(const_val(rv["op"]), dict) and const_val(rv["op"]).get("f") == "0.0"]
        chk.ob("C02.g", "hypergeometric_pmf/zero-when-observed>draws", len(z) >= 1, hp.loc(), "the impossible case returns 0.0")
        # ... and only there: with the edges of the three impossibility tests removed, no `return 0.0` is reachable through recognised comparisons
        reach, why_z = zero_only_when_impossible(hp)
        chk.ob("C02.g", "hypergeometric_pmf/zero-only-when-impossible", not reach, hp.loc(),
               "0.0 is returned only under observed > draws, observed > successes or draws - observed > size - successes (Hypergeom(0; 0, 0, 0) = 1: a population "
               "with no called chromosome projected to m = 0 still contributes): %s" % why_z)


def int_lin_form(fn, op, depth=0):
    """integer operand as a linear form over the function's parameters: ({param: coef}, const), else None"""
    if depth > 24:
        return None
    if op["k"] == "const":
        v = op.get("val")
        return ({}, v) if isinstance(v, int) and not isinstance(v, bool) else None
    pl = op_place(op)
    if pl is None:
        return None
    l, proj = pl
    if proj:
        if len(proj) == 1 and proj[0][0] == "field" and proj[0][1] == 0:
            dd = fn.single_def(l)
            if dd and dd[0] == "assign" and dd[3]["k"] == "binop" and dd[3]["op"].endswith("WithOverflow"):
                return _int_lin_rv(fn, dd[3], depth + 1)
        return None
    if 1 <= l <= fn.argc and not fn.defs.get(l):
        return ({l: 1}, 0)
    dd = fn.single_def(l)
    if dd and dd[0] == "assign":
        return _int_lin_rv(fn, dd[3], depth + 1)
    return None


def _int_lin_rv(fn, rv, depth):
    if rv["k"] in ("use", "cast"):
        return int_lin_form(fn, rv["op"], depth + 1)
    if rv["k"] == "binop":
        op = rv["op"].replace("WithOverflow", "").replace("Unchecked", "")
        if op in ("Add", "Sub"):
            x, y = int_lin_form(fn, rv["l"], depth + 1), int_lin_form(fn, rv["r"], depth + 1)
            if x is None or y is None:
                return None
            sg = 1 if op == "Add" else -1
            co = dict(x[0])
            for k, v in y[0].items():
                co[k] = co.get(k, 0) + sg * v
            return ({k: v for k, v in co.items() if v}, x[1] + sg * y[1])
    return None


def zero_only_when_impossible(hp):
    """(is a `_0 = 0.0` of hypergeometric_pmf(size, successes, draws, observed) reachable without taking the true edge of one of the three
    impossibility tests, walking only through comparisons that could be read; explanation)"""
    N_, K_, n_, k_ = 1, 2, 3, 4
    impossible = [{k_: 1, n_: -1}, {k_: 1, K_: -1}, {n_: 1, k_: -1, N_: -1, K_: 1}]   # L - R of `L > R`
    blocked = set()
    seen_cmp = []
    for sb, st in hp.switches():
        s_ = an.switch_subject(hp, sb)
        d = hp.single_def(s_["root"]) if s_["kind"] == "value" and s_["root"] is not None else None
        if not (d and d[0] == "assign" and d[3]["k"] == "binop" and d[3]["op"] in ("Gt", "Lt", "Ge", "Le", "Eq", "Ne")):
            # not a comparison that can be read: nothing is concluded about paths through it
            for tgt in hp.succ.get(sb, []):
                blocked.add((sb, tgt))
            continue
        l_, r_ = int_lin_form(hp, d[3]["l"]), int_lin_form(hp, d[3]["r"])
        if l_ is None or r_ is None:
            for tgt in hp.succ.get(sb, []):
                blocked.add((sb, tgt))
            continue
        diff = {k: l_[0].get(k, 0) - r_[0].get(k, 0) for k in set(l_[0]) | set(r_[0])}
        diff = {k: v for k, v in diff.items() if v}
        c0 = l_[1] - r_[1]
        neg = {k: -v for k, v in diff.items()}
        t_true, t_false = st["otherwise"], an.edge_target(st, 0)
        op = d[3]["op"]
        seen_cmp.append((op, diff, c0))
        # strict `L > R` holds on: Gt true, Lt(R, L) true, Le false, Ge(R, L) false
        if c0 == 0:
            if op == "Gt" and diff in impossible:
                blocked.add((sb, t_true))
            elif op == "Lt" and neg in impossible:
                blocked.add((sb, t_true))
            elif op == "Le" and diff in impossible:
                blocked.add((sb, t_false))
            elif op == "Ge" and neg in impossible:
                blocked.add((sb, t_false))
    zero_bbs = [b for b, i, p_, rv, s__ in hp.assigns() if p_[0] == 0 and not p_[1] and rv["k"] == "use" and isinstance(const_val(rv["op"]), dict) and const_val(rv["op"]).get("f") == "0.0"]
    reach = an.reachable_with_edges_removed(hp, 0, set(), blocked)
    hit = [b for b in zero_bbs if b in reach]
    return bool(hit), "comparisons read: %s; 0.0 reachable otherwise at %s" % (seen_cmp, [hp.loc(b) for b in hit])


def log_form(prog, fn, env, depth=0):
    """Symbolic form of the f64 a utils function returns, inlining the workspace helpers it calls:
         ("lin", {param: coef}, const)          an integer that is a linear form of the entry function's parameters
         ("log", [(sign, {param: coef}, const)]) a sum of +-ln_factorial(linear form)
         ("exp", terms, n_exp, rounded)          exp of such a sum, built from n_exp separate exp() results multiplied / divided together
         ("const", x)
       None when the value has another shape.  Constant-returning early exits (`if k > n { 0.0 }`) are ignored."""
    if depth > 6:
        return None

    def add_lin(a, b, sg):
        co = dict(a[1])
        for k, v in b[1].items():
            co[k] = co.get(k, 0) + sg * v
        return ("lin", co, a[2] + sg * b[2])

    def ev_op(op, d):
        if d > 60:
            return None
        if op["k"] == "const":
            v = op.get("val")
            if isinstance(v, int) and not isinstance(v, bool):
                return ("lin", {}, v)
            if isinstance(v, dict) and "f" in v:
                return ("const", float(v["f"]))
            return None
        pl = op_place(op)
        if pl is None:
            return None
        l, proj = pl
        if proj:
            if len(proj) == 1 and proj[0][0] == "field" and proj[0][1] == 0:
                dd = fn.single_def(l)
                if dd and dd[0] == "assign" and dd[3]["k"] == "binop" and dd[3]["op"].endswith("WithOverflow"):
                    return ev_rv(dd[3], d + 1)
            return None
        return ev_local(l, d + 1)

    def ev_local(l, d):
        if l in env and 1 <= l <= fn.argc:
            return env[l]
        dd = fn.single_def(l)
        if dd is None:
            return None
        if dd[0] == "assign":
            return ev_rv(dd[3], d + 1)
        if dd[0] == "call":
            return ev_call(dd[2], d + 1)
        return None

    def ev_rv(rv, d):
        k = rv["k"]
        if k == "use":
            return ev_op(rv["op"], d + 1)
        if k == "cast":
            return ev_op(rv["op"], d + 1)
        if k == "binop":
            op = rv["op"].replace("WithOverflow", "").replace("Unchecked", "")
            x, y = ev_op(rv["l"], d + 1), ev_op(rv["r"], d + 1)
            if x is None or y is None:
                return None
            if x[0] == "lin" and y[0] == "lin" and op in ("Add", "Sub"):
                return add_lin(x, y, 1 if op == "Add" else -1)
            if op in ("Add", "Sub"):
                if x[0] == "log" and y[0] == "log":
                    return ("log", x[1] + [((sg if op == "Add" else -sg), co, k0) for sg, co, k0 in y[1]])
                # rounding to the nearest integer: 0.5 + exp(..)
                for u, v in ((x, y), (y, x)):
                    if u[0] == "const" and u[1] == 0.5 and v[0] == "exp" and op == "Add":
                        return ("exp", v[1], v[2], True)
                return None
            if op in ("Mul", "Div") and x[0] == "exp" and y[0] == "exp":
                return ("exp", x[1] + [((sg if op == "Mul" else -sg), co, k0) for sg, co, k0 in y[1]], x[2] + y[2], x[3] or y[3])
            return None
        return None

    def ev_call(t, d):
        p = t["callee"].get("path") or ""
        nm = p.split("::")[-1]
        if p.startswith("std::f64::<impl f64>::") or p.startswith("core::f64::<impl f64>::"):
            v = ev_op(t["args"][0], d + 1) if t["args"] else None
            if nm == "exp" and v is not None and v[0] == "log":
                return ("exp", v[1], 1, False)
            if nm in ("floor", "round") and v is not None and v[0] == "exp":
                return v
            return None
        if p == "sfs_core::utils::factorial::ln_factorial" and len(t["args"]) == 1:
            v = ev_op(t["args"][0], d + 1)
            if v is not None and v[0] == "lin":
                return ("log", [(1, v[1], v[2])])
            return None
        g = prog.fn(t["callee"].get("resolved") or p)
        if g is not None and g.path.startswith("sfs_core::utils::") and g is not fn:
            env2 = {}
            for i, a in enumerate(t["args"]):
                v = ev_op(a, d + 1)
                if v is None:
                    return None
                env2[i + 1] = v
            return log_form(prog, g, env2, depth + 1)
        return None

    results = []
    for dd in fn.defs.get(0, []):
        if dd[0] == "assign":
            if dd[3]["k"] == "use" and dd[3]["op"]["k"] == "const":
                continue
            results.append(ev_rv(dd[3], 0))
        elif dd[0] == "call":
            results.append(ev_call(dd[2], 0))
    if len(results) == 1:
        return results[0]
    return None


def c02d(chk):
    f = chk.fn(SITE_BUILD)
    if f is None:
        return
    fs = an.calls(f, PP_FROM_SHAPE)
    if len(fs) != 1:
        chk.fail("C02.d", "Builder::build/from_shape", f.loc(), "expected one PartialProjection::from_shape call, found %d" % len(fs))
        return
    fb, ft = fs[0]
    chk.saw_calls()
    # (1) dimension test: Ne/Eq over two Shape::dimensions() results
    dim_ok = False
    for b, t in f.switches():
        s = an.switch_subject(f, b)
        if s["kind"] != "value" or s["root"] is None:
            continue
        d = f.single_def(s["root"])
        if d and d[0] == "assign" and d[3]["k"] == "binop" and d[3]["op"] in ("Ne", "Eq"):
            ls = [op_local(d[3]["l"]), op_local(d[3]["r"])]
            cs = [f.single_def(x) for x in ls if x is not None]
            if len(cs) == 2 and all(c and c[0] == "call" and callee_is(c[2]["callee"], "sfs_core::array::shape::Shape::dimensions") for c in cs):
                good = an.edge_target(t, 0) if d[3]["op"] == "Ne" else t["otherwise"]
                if an.dominated_by_edge(f, b, good, fb):
                    dim_ok = True
    chk.ob("C02.d", "Builder::build/from_shape<=dimensions-equal", dim_ok, f.loc(fb),
           "PartialProjection::from_shape must be dominated by the edge on which source and target dimensionality are equal")
    # (2) size test: find(|from < to|) returned None
    size_ok = False
    why = "no find(..) over zipped (from,to) with a `<` closure whose None edge dominates from_shape"
    for b, t in f.calls():
        if callee_is(t["callee"], "core::iter::traits::iterator::Iterator::find"):
            cl = None
            for a in t["args"]:
                l = op_local(a)
                if l is not None and "closure" in f.local_ty(l):
                    d = f.single_def(l)
                    if d and d[0] == "assign" and d[3]["k"] == "aggregate" and d[3]["akind"] == "closure":
                        cl = chk.prog.fn(d[3]["closure"])
            if cl is None:
                continue
            cmp_ok = False
            for _, ct in cl.calls():
                if callee_is(ct["callee"], "core::cmp::PartialOrd::lt"):
                    cmp_ok = True
            for _, _, _, rv, _ in cl.assigns():
                if rv["k"] == "binop" and rv["op"] == "Lt":
                    cmp_ok = True
            if not cmp_ok:
                continue
            # the two shapes are paired axis by axis, in the same order: nothing but zip / iter / enumerate on the way
            import iters as IT
            ch_ = IT.receiver_chain(f, t["args"][0])
            names_ = IT.chain_names(ch_)
            sides_ = [IT.chain_names(x) for c_ in ch_ for x in c_[2]]
            plain = [n for n in names_ if n not in ("zip", "iter", "enumerate")] == [] and all([n for n in sn if n not in ("iter",)] == [] for sn in sides_)
            for sb, s in an.switches_on_call_result(f, b):
                none_t = an.edge_target(f.term(sb), 0)
                if an.dominated_by_edge(f, sb, none_t, fb):
                    size_ok = plain
                    why = "ok" if plain else "the (from, to) pairs do not come from a plain zip of the two shapes (adaptors %s, zipped side %s)" % (names_, sides_)
    if not size_ok and why.startswith("no find"):
        # the same as a loop / all() / any(): from >= to established for every zipped axis where from_shape is called
        import iters as IT
        its_ = IT.iterations(chk.prog, f)
        for gd in IT.forall_guards(chk.prog, f, its_, fb):
            ch_ = gd["it"].chain()
            names_ = IT.chain_names(ch_)
            sides_ = [IT.chain_names(x) for c_ in ch_ for x in c_[2]]
            plain = "zip" in names_ and [n for n in names_ if n not in ("zip", "iter", "enumerate")] == [] and all([n for n in sn if n not in ("iter",)] == [] for sn in sides_)
            if plain and gd["cmp"] in (("Ge", (0,), (1,)), ("Ge", (1, 0), (1, 1))):
                size_ok = True
                why = "from >= to for every zipped axis (%s)" % gd["how"]
    chk.ob("C02.d", "Builder::build/from_shape<=no-axis-with-from<to", size_ok, f.loc(fb), why)


def c02e(chk):
    f = chk.fn(RUNNER_RUN)
    if f is None:
        return
    arms = runner_arms(chk, f)
    if arms is None:
        return
    region = an.arm_region(f, arms["site_sw"], arms["InsufficientData"])
    uses = []
    for b in region:
        t = f.term(b)
        if t["k"] == "call":
            for a in t["args"]:
                if _points_to_local(f, a, arms["scs"]):
                    uses.append(callee_name(t["callee"]))
        for s in f.stmts(b):
            if s["k"] == "assign":
                p = f.canon(P(s["place"]))
                if p[0] == arms["scs"]:
                    uses.append("write")
    chk.ob("C02.e", "Runner::run/InsufficientData-arm/no-spectrum-use", not uses, f.loc(arms["InsufficientData"]),
           "a record with insufficient data must add nothing to the spectrum (uses found: %s)" % uses)


def c02f(chk):
    f = chk.fn(CREATE_RUN)
    if f is None:
        return
    sp = an.calls(f, "sfs_core::spectrum::io::write::Builder::set_precision")
    ok = False
    why = "set_precision / map_or closure not recognised"
    if len(sp) == 1:
        l = op_local(sp[0][1]["args"][1])
        d = f.single_def(f.copy_root(l)) if l is not None else None
        if d and d[0] == "call" and callee_is(d[2]["callee"], N.OPT_MAP_OR):
            cl_l = op_local(d[2]["args"][2])
            cd = f.single_def(cl_l) if cl_l is not None else None
            if cd and cd[0] == "assign" and cd[3]["k"] == "aggregate" and cd[3]["akind"] == "closure":
                cap = [f.resolve_ptr(op_local(o)) if op_local(o) is not None else None for o in cd[3]["ops"]]
                cap_prec = any(c and an.owned_self_field(c) == "precision" for c in cap)
                cl = chk.prog.fn(cd[3]["closure"])
                # closure returns *capture with no arithmetic
                ret_plain = cl is not None and not any(rv["k"] in ("binop", "cast") for _, _, _, rv, _ in cl.assigns()) and not list(cl.calls())
                ok = cap_prec and ret_plain
                why = "closure captures self.precision=%s returns it unmodified=%s" % (cap_prec, ret_plain)
    if not ok and len(sp) == 1:
        # switch form: the precision local is assigned either const 0 (C01.d) or self.precision, unmodified
        l = op_local(sp[0][1]["args"][1])
        root = f.copy_root(l) if l is not None else None
        defs = f.defs.get(root, []) if root is not None else []
        vals = []
        for x in defs:
            if x[0] == "assign" and x[3]["k"] == "use":
                if const_val(x[3]["op"]) == 0:
                    vals.append("const0")
                    continue
                pl = op_place(x[3]["op"])
                if pl and an.owned_self_field(f.canon(pl)) == "precision" and len(f.canon(pl)[1]) == 1:
                    vals.append("self.precision")
                    continue
            vals.append("other")
        ok = sorted(vals) == ["const0", "self.precision"]
        why = "precision local assigned from %s" % vals
    chk.ob("C02.f", "Create::run/precision-passes-through-when-projecting", ok, f.loc(), why)
    # the command line accepts every precision the formatter supports (0..=u16::MAX): the tightest bound implied where Ok(p) is built is 65535
    pp = chk.fn("sfs::parse_precision")
    if pp is not None:
        oks = [(b, rv) for b, i, p, rv, s_ in pp.assigns() if p[0] == 0 and rv["k"] == "aggregate" and rv.get("variant") == "Ok"]
        bounds = [an.implied_upper_bound(pp, b, rv["ops"][0]) for b, rv in oks]
        chk.ob("C02.f", "parse_precision/accepts-every-p<=65535", bool(oks) and all(x is None or x >= 65535 for x in bounds), pp.loc(),
               "values for which --precision is accepted: p <= %s (the formatter's own limit is u16::MAX = 65535; a tighter limit refuses a documented value)" % bounds)


# ====================================================================================
# C10
# ====================================================================================
ADD_UNCHECKED = "sfs_core::spectrum::project::Projected::<'a>::add_unchecked"
SUMMARIZE = "sfs::create::runner::Runner::summarize_skipped"
WRITE_STDOUT = "sfs_core::spectrum::io::write::Builder::write_to_stdout"
WRITE_PATH_OR_STDOUT = "sfs_core::spectrum::io::write::Builder::write_to_path_or_stdout"
STAT_RUNNER_RUN = "sfs::stat::runner::Runner::<W>::run"
RUNNER_STRUCT = "sfs::create::runner::Runner"


def counter_increments(f, field):
    """blocks performing `self.<field> = self.<field> + 1` (through the overflow-checked tuple)"""
    out = []
    bad = []
    for b, i, p, rv, s in f.assigns():
        cp = f.canon(p)
        if an.self_field(cp) == field and len(cp[1]) == 2:
            ok = False
            src = rv
            if rv["k"] == "use":
                pl = op_place(rv["op"])
                if pl and pl[1] and pl[1][0][0] == "field":
                    sd = f.single_def(pl[0])
                    if sd and sd[0] == "assign":
                        src = sd[3]
            if src["k"] == "binop" and src["op"] in ("AddWithOverflow", "Add"):
                lp = op_place(src["l"])
                if lp and an.self_field(f.canon(lp)) == field and const_val(src["r"]) == 1:
                    ok = True
            (out if ok else bad).append(b)
    return out, bad


def exactly_once_on_paths(f, start, header, events, exits_ok=True):
    """every path start ->* header passes exactly one block of `events`"""
    if start is None:
        return False, "arm not found"
    ev = set(events)
    if not ev:
        return False, "no event block"
    # at least one: header unreachable from start when event blocks are removed (edges that cannot be taken from this arm, because the
    # value they test was set in the arm, are not paths)
    dead = an.infeasible_edges_from(f, start, header)
    reach = an.reachable_with_edges_removed(f, start, ev | {header}, dead) if start not in ev else set()
    at_least = True
    for b in reach:
        if header in f.succ.get(b, []) and (b, header) not in dead:
            at_least = False
    if start == header:
        at_least = False
    # at most one: from the successors of an event block, no other event block is reachable before header
    at_most = True
    for e in ev:
        for s in f.succ.get(e, []):
            r = f.reachable_from(s, avoid={header})
            if r & ev:
                at_most = False
    return at_least and at_most, "at-least-one=%s at-most-one=%s" % (at_least, at_most)


def check_C10(chk):
    chk.explanation = (
        "Structural clauses of C10: (a) in create::Runner::run every path of the read loop performs exactly one accounting event "
        "(Standard +1.0 / Projected::add_unchecked / handle_skipped_site) under its own Site variant and exactly one `sites += 1`; "
        "Done/Error/`?` paths leave the loop; handle_skipped_site increments `skipped` exactly once when not strict and returns Err without "
        "counting when strict; (b) `strict` is read in exactly one place and the strict error names contig:position; (c) the summary is "
        "emitted on the success path from `skipped` and `sites`; (d) the only stdout writer of `create` is reached after Runner::run()? and is "
        "followed by nothing that can fail; stdout is touched in two functions only, print! nowhere; (e) main maps Err to a non-zero exit.")
    chk.not_decided = "that a projected pmf sums to one (numeric), i.e. that E_proj has total weight 1"
    c10a(chk)
    c10b(chk)
    record_accessors(chk, "C10.b")
    c10c(chk)
    no_partial_output(chk, "C10.d", CREATE_RUN, RUNNER_RUN, [WRITE_STDOUT])
    who_may_write(chk, "C10.d")
    exit_status(chk, "C10.e")
    import rules_io
    rules_io.reader_outcomes(chk, "C10.e")
    # shared clauses: every selected sample of a record is examined before the record is classified (a ploidy error must not be masked by an
    # earlier skipped sample: C01/C08), and the projected weights sum to one record (the hypergeometric helpers of C02)
    rs_ = ReadSite(chk)
    if rs_.ok:
        sample_loop_exits(chk, rs_, "C10.f")
    chk.borrow(lambda: c02g(chk), "C10.g", 7)
    # .. a record goes to `skipped` under projection only when it is not projectable and is counted otherwise (C02.a/e), what counts as a
    # complete site without projection (C01.b/c), the output of a strict run is printed like the lenient one (C01.d), and a genotype is
    # unusable only for the reasons C08 names (C08.a-e)
    import rules_geno as RG10_
    def _more():
        if rs_.ok:
            c02a(chk, rs_)
            c01b(chk, rs_)
        c02e(chk)
        c01c(chk)
        c01d(chk)
        g_ = RG10_.GenoFrom(chk)
        if g_.ok:
            RG10_.c08a(chk, g_)
            RG10_.c08b(chk, g_)
            RG10_.c08c(chk, g_)
            RG10_.c08e(chk, g_)
    chk.borrow(_more, "C10.h", 20)
    for r, n in (("C10.a", 10), ("C10.b", 7), ("C10.c", 2), ("C10.d", 5), ("C10.e", 6)):
        chk.floor(r, n)


def c10a(chk):
    f = chk.fn(RUNNER_RUN)
    if f is None:
        return
    if len(an.calls(f, READ_SITE)) != 1:
        chk.fail("C10.a", "Runner::run/read_site-call", f.loc(), "expected one read_site call")
        return
    arms = runner_arms(chk, f)
    if arms is None:
        return
    header = arms["read_site_bb"]
    scs = arms["scs"]
    ev = {"Standard": [], "Projected": [], "InsufficientData": []}
    stray = []
    for b, t in f.calls():
        c = t["callee"]
        uses_scs = any(_points_to_local(f, a, scs) for a in t["args"])
        kind = None
        if uses_scs and callee_is(c, N.INDEX_MUT, N.ADD_ASSIGN):
            kind = "Standard"
        elif uses_scs and callee_is(c, ADD_UNCHECKED):
            kind = "Projected"
        elif callee_is(c, HANDLE_SKIPPED):
            kind = "InsufficientData"
        elif uses_scs and f.reaches(header, b) and f.reaches(b, header):
            stray.append((b, callee_name(c)))
        if kind:
            chk.saw_calls()
            ok = an.dominated_by_edge(f, arms["site_sw"], arms[kind], b)
            chk.ob("C10.a", "Runner::run/event(%s)/under-own-variant" % kind, ok, f.loc(b),
                   "the accounting event for Site::%s must be dominated by that variant's edge" % kind)
            ev[kind].append(b)
    chk.ob("C10.a", "Runner::run/no-stray-spectrum-use-in-loop", not stray, f.loc(), "other uses of the spectrum inside the loop: %s" % stray)
    for kind in ("Standard", "Projected", "InsufficientData"):
        ok, why = exactly_once_on_paths(f, arms[kind], header, ev[kind])
        chk.ob("C10.a", "Runner::run/arm(%s)/exactly-one-event" % kind, ok, f.loc(arms[kind]) if arms[kind] is not None else f.loc(),
               "every path from the %s arm back to read_site passes exactly one accounting event (%s)" % (kind, why))
    inc, bad = counter_increments(f, "sites")
    chk.ob("C10.a", "Runner::run/sites-writes-are-increments", not bad and bool(inc), f.loc(), "every write of self.sites must be `sites = sites + 1` (other writes in blocks %s)" % bad)
    ok, why = exactly_once_on_paths(f, arms["Read"], header, inc)
    chk.ob("C10.a", "Runner::run/Read/exactly-one-sites-increment", ok, f.loc(arms["Read"]),
           "every path from a successfully read record back to read_site increments self.sites exactly once (%s)" % why)
    # leaving paths
    for nm in ("Done", "Error"):
        tgt = arms[nm]
        r = f.reachable_from(tgt)
        leaves = header not in r
        chk.ob("C10.a", "Runner::run/%s-leaves-loop" % nm, leaves, f.loc(tgt), "the %s arm must leave the read loop" % nm)
    # Error arm returns Err
    r = f.reachable_from(arms["Error"])
    err = any(rv["k"] == "aggregate" and rv.get("variant") == "Err" and P(s["place"])[0] == 0 for b in r for s in f.stmts(b) if s["k"] == "assign" for rv in [s["rv"]])
    oks = any(rv["k"] == "aggregate" and rv.get("variant") == "Ok" and P(s["place"])[0] == 0 for b in r for s in f.stmts(b) if s["k"] == "assign" for rv in [s["rv"]])
    chk.ob("C10.a", "Runner::run/Error-returns-Err", err and not oks, f.loc(arms["Error"]), "a reader error must end the run with Err and never reach Ok(scs)")
    # `?` on handle_skipped_site: the Break edge returns
    for b in ev["InsufficientData"]:
        tb = an.try_branch_of(f, b)
        ok = False
        if tb:
            _, sb, cont, brk = tb
            ok = header not in f.reachable_from(brk) and header in f.reachable_from(cont)
        chk.ob("C10.a", "Runner::run/handle_skipped_site?-propagates", ok, f.loc(b), "the Result of handle_skipped_site must go through `?`: Err leaves the loop, Ok continues")
    # handle_skipped_site
    h = chk.fn(HANDLE_SKIPPED)
    if h is None:
        return
    strict_sw = None
    for b, t in h.switches():
        s = an.switch_subject(h, b)
        if s["kind"] == "value" and s["root"] is not None:
            d = h.single_def(s["root"])
            if d and d[0] == "assign" and d[3]["k"] == "use":
                p = op_place(d[3]["op"])
                if p and an.self_field(h.canon(p)) == "strict":
                    strict_sw = b
    if strict_sw is None:
        chk.fail("C10.a", "handle_skipped_site/strict-switch", h.loc(), "switch on self.strict not found")
        return
    st = h.term(strict_sw)
    t_strict = st["otherwise"]
    t_lenient = an.edge_target(st, 0)
    inc, bad = counter_increments(h, "skipped")
    chk.ob("C10.a", "handle_skipped_site/skipped-writes-are-increments", not bad and bool(inc), h.loc(), "every write of self.skipped must be `skipped = skipped + 1`")
    rets = h.return_blocks()
    ret = rets[0] if rets else None
    ok, why = exactly_once_on_paths(h, t_lenient, ret, inc) if ret is not None else (False, "no return")
    chk.ob("C10.a", "handle_skipped_site/lenient/exactly-one-skipped-increment", ok, h.loc(t_lenient), "non-strict path counts the skipped site exactly once (%s)" % why)
    lr = h.reachable_from(t_lenient)
    sr = h.reachable_from(t_strict, avoid={ret} if ret is not None else ())
    def assigns_ret(blocks, variant):
        return any(s["k"] == "assign" and P(s["place"])[0] == 0 and s["rv"]["k"] == "aggregate" and s["rv"].get("variant") == variant for b in blocks for s in h.stmts(b))
    chk.ob("C10.a", "handle_skipped_site/lenient-returns-Ok", assigns_ret(lr, "Ok") and not assigns_ret(lr - sr, "Err"), h.loc(t_lenient), "non-strict path returns Ok(())")
    chk.ob("C10.a", "handle_skipped_site/strict-returns-Err-without-counting", assigns_ret(sr, "Err") and not assigns_ret(sr, "Ok") and not (set(inc) & sr), h.loc(t_strict),
           "strict path returns Err and performs no skipped increment")
    # nothing bypasses the strict test: it dominates every write of self.* and every assignment of the return value
    bypass = []
    for b, i, p, rv, s in h.assigns():
        cp = h.canon(p)
        if (an.self_field(cp) is not None or p[0] == 0) and not h.dominates(strict_sw, b):
            bypass.append(h.loc(b))
    for b in h.return_blocks():
        pass
    chk.ob("C10.a", "handle_skipped_site/strict-test-dominates-all-effects", not bypass, h.loc(strict_sw),
           "every counter update and every return value must be decided after consulting self.strict (effects not dominated by the strict test: %s)" % (bypass or "none"))
    chk.extra["strict_switch"] = h.loc(strict_sw)


def field_reads(prog, adt, field):
    """(fn, bb, what) for every read of adt.field anywhere in the workspace (operands, refs, discriminants)"""
    out = []

    def mentions(p):
        return any(e[0] == "field" and e[3] == adt and e[2] == field for e in p[1])
    for f in prog.fn_list:
        if f.derived:
            continue
        for b in f.nodes():
            for s in f.stmts(b):
                if s["k"] != "assign":
                    continue
                rv = s["rv"]
                ps = []
                if rv["k"] in ("ref", "rawptr", "discr"):
                    ps.append(P(rv["place"]))
                from facts import rv_operands
                for o in rv_operands(rv):
                    p = op_place(o)
                    if p:
                        ps.append(p)
                for p in ps:
                    if mentions(p):
                        out.append((f, b, "read"))
            t = f.term(b)
            ops = []
            if t["k"] == "call":
                ops = list(t["args"])
            elif t["k"] == "switch":
                ops = [t["discr"]]
            for o in ops:
                p = op_place(o)
                if p and mentions(p):
                    out.append((f, b, "read"))
    return out


def fmt_arg_sources(f, fmt_term):
    """for an Arguments::new call: the set of callee names / self fields the displayed values slice back to"""
    srcs = set()
    sl, info = f.slice_locals(fmt_term["args"][1])
    for _, t in info["calls"]:
        srcs.add(callee_name(t["callee"]))
    for (adt, fld) in info["fields"]:
        srcs.add("field:%s" % fld)
    return srcs


def c10b(chk):
    reads = field_reads(chk.prog, RUNNER_STRUCT, "strict")
    where = sorted({fn.path for fn, b, w in reads})
    chk.ob("C10.b", "Runner.strict/read-in-one-place", len(reads) == 1 and where == [HANDLE_SKIPPED], "",
           "Runner.strict must be read exactly once, in handle_skipped_site, so strict and non-strict runs cannot differ otherwise (reads: %s)" % [(fn.path, fn.loc(b)) for fn, b, w in reads])
    h = chk.fn(HANDLE_SKIPPED)
    if h is None:
        return
    # strict error message arguments
    found = False
    for b, pieces, phs, t in an.format_calls(h):
        # the format feeding format_err/anyhow on the strict path
        d = an.call_dest_local(t)
        feeds_err = False
        for b2, t2 in h.calls():
            if (callee_name(t2["callee"]).startswith("anyhow::")) and any(op_local(a) is not None and h.copy_root(op_local(a)) == d for a in t2["args"]):
                feeds_err = True
        if not feeds_err:
            continue
        found = True
        srcs = fmt_arg_sources(h, t)
        # (both displayed directly, or through one value formatted from the two: `let site = format!("{}:{}", contig, position)`)
        ok = "sfs_core::input::site::reader::Reader::current_contig" in srcs and "sfs_core::input::site::reader::Reader::current_position" in srcs and len(phs) >= 1
        chk.ob("C10.b", "handle_skipped_site/strict-error-names-contig-and-position", ok, h.loc(b),
               "the strict-mode error must display current_contig() and current_position() (sources: %s)" % sorted(srcs))
        r_ = an.contig_then_position(h, t, phs)
        if r_ is not None:
            chk.ob("C10.b", "handle_skipped_site/strict-error-shows-position-next-to-contig", r_[0], h.loc(b),
                   "the site is named as contig followed by its position, nothing displayed in between (%s)" % r_[1])
    if not found:
        chk.fail("C10.b", "handle_skipped_site/strict-error-names-contig-and-position", h.loc(), "no formatted anyhow error found")
    # the two accessors are evaluated for the *current* record: they are called on self.reader in this function
    cc = an.calls(h, "sfs_core::input::site::reader::Reader::current_contig") + an.calls(h, "sfs_core::input::site::reader::Reader::current_position")
    ok = len(cc) >= 2 and all(an.self_field(an.arg_pointee(h, t, 0) or (0, ())) == "reader" for _, t in cc)
    chk.ob("C10.b", "handle_skipped_site/accessors-on-self.reader", ok, h.loc(), "contig/position are read from self.reader at the time of the skip (no deferred error state)")
    # no field other than `skipped` is written here (no deferred state)
    w = {fld for fld, how, b in an.self_field_writes(chk.prog, h)}
    chk.ob("C10.b", "handle_skipped_site/writes-only-skipped", w <= {"skipped"}, h.loc(), "fields written: %s" % sorted(w))


def record_accessors(chk, rule):
    """the contig and position an error or a strict failure names are those of the record just read: both genotype readers answer from their
    record buffer, and the BCF reader turns the record's numeric chromosome id into a name through the IDX-aware string map (the header's
    textual contig order differs from the dictionary order whenever `##contig` lines carry IDX= fields)"""
    G = "sfs_core::input::genotype::reader::"
    IMP = "<sfs_core::input::genotype::reader::%s::Reader<R> as sfs_core::input::genotype::reader::Reader>::%s"
    for kind in ("vcf", "bcf"):
        pos = chk.fn(IMP % (kind, "current_position"))
        if pos is not None:
            cs = [(b, t) for b, t in pos.calls() if callee_name(t["callee"]).endswith("::Record::position")]
            ok = len(cs) == 1 and an.self_field(an.arg_pointee(pos, cs[0][1], 0) or (0, ())) == "buf"
            chk.ob(rule, "%s::current_position=self.buf.position()" % kind, ok, pos.loc(), "the reported position is the record buffer's")
        con = chk.fn(IMP % (kind, "current_contig"))
        if con is None:
            continue
        if kind == "vcf":
            cs = [(b, t) for b, t in con.calls() if callee_name(t["callee"]).endswith("::Record::chromosome")]
            ok = len(cs) == 1 and an.self_field(an.arg_pointee(con, cs[0][1], 0) or (0, ())) == "buf"
            chk.ob(rule, "vcf::current_contig=self.buf.chromosome()", ok, con.loc(), "the reported contig is the record buffer's")
        else:
            ids = [(b, t) for b, t in con.calls() if callee_name(t["callee"]).endswith("::Record::chromosome_id")]
            maps = [(b, t) for b, t in con.calls() if callee_name(t["callee"]) == "noodles_bcf::header::string_maps::StringMaps::contigs"]
            gets = [(b, t) for b, t in con.calls() if callee_name(t["callee"]).split("::")[-1] in ("get_index", "get_index_of", "get")]
            hdr = [callee_name(t["callee"]) for b, t in con.calls() if callee_name(t["callee"]).startswith("noodles_vcf::header::")]
            ok = len(ids) == 1 and len(maps) == 1 and len(gets) == 1 and not hdr
            if ok:
                ok = an.self_field(an.arg_pointee(con, ids[0][1], 0) or (0, ())) == "buf" and an.self_field(an.arg_pointee(con, maps[0][1], 0) or (0, ())) == "string_maps"
                recv = op_local(gets[0][1]["args"][0])
                rp = con.resolve_ptr(recv) if recv is not None else None
                arg = op_local(gets[0][1]["args"][1])
                ok = ok and rp is not None and rp[0] == an.call_dest_local(maps[0][1]) and arg is not None and con.copy_root(arg) == an.call_dest_local(ids[0][1])
            chk.ob(rule, "bcf::current_contig=string_maps.contigs()[buf.chromosome_id()]", ok, con.loc(),
                   "the record's chromosome id indexes the BCF string map (dictionary order, IDX-aware), not the header's textual contig list (header lookups: %s)" % hdr)


def c10c(chk):
    f = chk.fn(RUNNER_RUN)
    s = chk.fn(SUMMARIZE)
    if f is None or s is None:
        return
    cs = an.calls(f, SUMMARIZE)
    ok = False
    why_s = "summarize_skipped must dominate the construction of Ok(scs)"
    for b, i, p, rv, st in f.assigns():
        if p[0] == 0 and rv["k"] == "aggregate" and rv.get("variant") == "Ok":
            ok = len(cs) >= 1 and any(f.dominates(cb, b) for cb, _ in cs)
            if not cs and s is f:
                # the summary was merged into run: the message showing skipped and sites sits here, and every way to Ok(scs) passes the
                # place that decides whether to print it (a test of self.skipped) after the record loop
                fm = [fb for fb, pieces, phs, t in an.format_calls(f) if {"field:skipped", "field:sites"} <= fmt_arg_sources(f, t)]
                tests = []
                for sb, stt in f.switches():
                    sl_, info_ = f.slice_locals(stt["discr"])
                    if (RUNNER_STRUCT, "skipped") in info_["fields"] and not f.reaches(sb, sb):
                        tests.append(sb)
                ok = bool(fm) and any(f.dominates(sb, b) and all(fb in f.reachable_from(sb) for fb in fm) for sb in tests)
                why_s = "the summary (merged into run) is decided on every path to Ok(scs): %s" % ok
    chk.ob("C10.c", "Runner::run/summary-before-Ok", ok, f.loc(), why_s)
    good = False
    for b, pieces, phs, t in an.format_calls(s):
        srcs = fmt_arg_sources(s, t)
        if "field:skipped" in srcs and "field:sites" in srcs:
            good = True
    chk.ob("C10.c", "summarize_skipped/reports-skipped-and-sites", good, s.loc(), "the summary must display self.skipped and self.sites")
    # ... for every run that skipped anything: the line is reached exactly when skipped >= 1 (it is where a user reads how many records are
    # missing from the mass; `> 1` leaves one record unaccounted for)
    verdicts = []
    for fb, pieces, phs, t in an.format_calls(s):
        if not {"field:skipped", "field:sites"} <= fmt_arg_sources(s, t):
            continue
        for sb, stt in s.switches():
            sj = an.switch_subject(s, sb)
            dd = s.single_def(sj["root"]) if sj["kind"] == "value" and sj["root"] is not None else None
            if not (dd and dd[0] == "assign" and dd[3]["k"] == "binop" and dd[3]["op"] in ("Gt", "Ge", "Lt", "Le", "Eq", "Ne")):
                continue
            lc, rc = an._const_int_of(s, dd[3]["l"]), an._const_int_of(s, dd[3]["r"])
            if (lc is None) == (rc is None):
                continue
            var = dd[3]["r"] if lc is not None else dd[3]["l"]
            sl_, info_ = s.slice_locals(var)
            if (RUNNER_STRUCT, "skipped") not in info_["fields"]:
                continue
            t_true, t_false = stt["otherwise"], an.edge_target(stt, 0)
            on_true = an.dominated_by_edge(s, sb, t_true, fb)
            on_false = an.dominated_by_edge(s, sb, t_false, fb)
            if on_true == on_false:
                continue
            import operator as _op
            fn_ = {"Gt": _op.gt, "Ge": _op.ge, "Lt": _op.lt, "Le": _op.le, "Eq": _op.eq, "Ne": _op.ne}[dd[3]["op"]]
            def holds(v):
                r_ = fn_(lc, v) if lc is not None else fn_(v, rc)
                return r_ if on_true else not r_
            verdicts.append(all(holds(v) == (v >= 1) for v in range(0, 6)))
    chk.ob("C10.c", "summarize_skipped/printed-iff-skipped>=1", verdicts == [True], s.loc(),
           "the summary line is reached exactly when self.skipped >= 1 (tests of self.skipped against a constant that guard it: %s)" % (verdicts or "none found"))


def no_partial_output(chk, rule, fn_path, producer, writers):
    """(i) the continue edge of `producer(..)?` dominates every writer call W; (ii) after W nothing but W's own `?`,
    drops and Ok(()) is reachable; (iii) W is the only call that can reach stdout in this function"""
    f = chk.fn(fn_path)
    if f is None:
        return
    short = fn_path.split("::")[-2] + "::" + fn_path.split("::")[-1]
    prod = an.calls(f, producer)
    ws = []
    for w in writers:
        ws += an.calls(f, w)
    if len(prod) != 1 or not ws:
        chk.fail(rule, "%s/producer-and-writer" % short, f.loc(), "expected one producer call (%s) and >= 1 writer call; found %d / %d" % (producer, len(prod), len(ws)))
        return
    pb, pt = prod[0]
    tb = an.try_branch_of(f, pb)
    if tb is None:
        chk.fail(rule, "%s/producer?-missing" % short, f.loc(pb), "the producer's Result is not propagated with `?`")
        return
    _, sb, cont, brk = tb
    for wb, wt in ws:
        chk.saw_calls()
        chk.ob(rule, "%s/write-after-producer-succeeded" % short, an.dominated_by_edge(f, sb, cont, wb), f.loc(wb),
               "the stdout writer must be dominated by the success edge of %s(..)?" % producer.split("::")[-1])
        # (ii) after W
        after = set()
        for s in f.succ.get(wb, []):
            after |= f.reachable_from(s)
        offenders = []
        for b in after:
            t = f.term(b)
            if t["k"] == "call":
                c = t["callee"]
                if callee_is(c, N.TRY_BRANCH, N.FROM_RESIDUAL) or callee_name(c).startswith("core::convert::") or callee_name(c).startswith("<anyhow::Error as core::convert::From"):
                    continue
                offenders.append(callee_name(c))
        chk.ob(rule, "%s/nothing-fallible-after-write" % short, not offenders, f.loc(wb),
               "after the writer only its own `?` and drops may follow, so a failing run never leaves a spectrum on stdout (calls after the write: %s)" % offenders)
    # a successful run always writes: from the producer's success edge every path to `return` passes the writer or a `?` error exit
    stops = {wb for wb, _ in ws} | {b for b, t in f.calls() if callee_is(t["callee"], N.FROM_RESIDUAL)}
    stops |= {b for b, t in f.calls() if callee_name(t["callee"]).startswith(("core::panicking", "std::process::exit"))}
    silent = [b for b in f.reachable_from(cont, avoid=stops) if f.term(b)["k"] == "return"]
    # error values built without `?` (return Err(..)) also count as error exits: a block assigning Err to the return place
    def err_exit(b):
        return any(s["k"] == "assign" and P(s["place"])[0] == 0 and s["rv"]["k"] == "aggregate" and s["rv"].get("variant") == "Err" for s in f.stmts(b))
    if silent:
        errs = {b for b in f.nodes() if err_exit(b)} | {b for b, t in f.calls() if P(t["dest"])[0] == 0 and t["dest_ty"].startswith("core::result::Result") and not callee_is(t["callee"], *writers)}
        silent = [b for b in f.reachable_from(cont, avoid=stops | errs) if f.term(b)["k"] == "return"]
    chk.ob(rule, "%s/success-always-writes" % short, not silent, f.loc(pb),
           "every successful path from the producer to `return` passes the writer (a conditional or skipped write would print nothing and exit 0); silent returns reachable: %s" % [f.loc(b) for b in silent])
    # the Break edge of the producer does not reach a writer
    # (a failure handed on as a value by an inlined helper and re-raised with `?` by the caller: the success edge of that second `?`
    # is not a path from here)
    br = an.reachable_with_edges_removed(f, brk, set(), an.infeasible_edges_from(f, brk, None))
    chk.ob(rule, "%s/failed-producer-writes-nothing" % short, not any(wb in br for wb, _ in ws), f.loc(pb), "the error edge of the producer must not reach the writer")


def who_may_write(chk, rule):
    prog = chk.prog
    allowed = {"sfs_core::spectrum::io::write::Builder::write_to_stdout", "sfs::stat::runner::Runner::<std::io::stdio::StdoutLock<'static>>::new"}
    n_eprint = 0
    for f in prog.fn_list:
        for b, t in f.calls():
            c = t["callee"]
            if callee_is(c, N.STDOUT):
                chk.saw_calls()
                # (anywhere inside the spectrum writer's module counts as the spectrum writer: its entry points are what the commands call,
                # and the no-partial-output rules place those calls)
                in_writer = f.path.startswith("sfs_core::spectrum::io::write::") or f.path.startswith("<sfs_core::spectrum::io::write::")
                chk.ob(rule, "stdout()/caller=%s" % f.path, f.path in allowed or in_writer, f.loc(b),
                       "io::stdout() may only be called by the spectrum writer (module spectrum::io::write) and the stat runner constructor")
            if callee_is(c, N.PRINT):
                chk.ob(rule, "print!/caller=%s" % f.path, False, f.loc(b), "print!/println! writes to stdout outside the two reviewed writers")
            if callee_is(c, N.EPRINT):
                n_eprint += 1
    # positive control for the name matcher of the zero-count rule: the sibling `_eprint` must be found
    chk.ob(rule, "print!-absent(control:_eprint-found=%s)" % (n_eprint >= 1), n_eprint >= 1, "",
           "zero calls of std::io::stdio::_print; the same matcher finds %d calls of its sibling _eprint (positive control)" % n_eprint, nontrivial=False)


def exit_status(chk, rule):
    f = chk.fn("sfs::main")
    if f is None:
        return
    runs = an.calls(f, "sfs::Cli::run")
    if len(runs) != 1:
        chk.fail(rule, "main/Cli::run", f.loc(), "expected one Cli::run call")
        return
    rb, rt = runs[0]
    sws = an.switches_on_call_result(f, rb)
    if not sws:
        chk.fail(rule, "main/match-on-result", f.loc(rb), "main does not match on Cli::run's result")
        return
    sb, s = sws[0]
    err_t = an.variant_target(f, sb, "Err")
    region = f.reachable_from(err_t)
    exits = [(b, t) for b, t in f.calls() if b in region and callee_is(t["callee"], N.EXIT)]
    rets = [b for b in region if f.term(b)["k"] == "return"]
    ok = bool(exits) and not rets and all(isinstance(const_val(t["args"][0]), int) and const_val(t["args"][0]) != 0 for _, t in exits)
    # every path from err_t hits an exit: no return reachable (checked) and no infinite loop possible in loop-free region
    chk.ob(rule, "main/Err->exit(nonzero)", ok, f.loc(err_t), "the Err edge must reach process::exit(c) with constant c != 0 on every path (exits: %s, returns reachable: %s)" % ([ostr(t["args"][0]) for _, t in exits], rets))
    pr = [(b, t) for b, t in f.calls() if b in region and callee_is(t["callee"], N.EPRINT)]
    ok2 = bool(pr) and all(any(f.dominates(pb, eb) for pb, _ in pr) for eb, _ in exits)
    srcs = set()
    for b, pieces, phs, t in an.format_calls(f):
        if b in region:
            sl, info = f.slice_locals(t["args"][1])
            for l in sl:
                if "anyhow::Error" in f.local_ty(l):
                    srcs.add("error")
    chk.ob(rule, "main/Err->diagnostic-on-stderr", ok2 and "error" in srcs, f.loc(err_t), "the error must be printed with eprintln! before exiting")


# ====================================================================================
# C11
# ====================================================================================
SET_ZERO = "sfs_core::spectrum::count::Count::set_zero"
SITE_READER = "sfs_core::input::site::reader::Reader"


def check_C11(chk):
    chk.explanation = (
        "Structural clauses of C11 (hand-written resets): (a) Reader::reset dominates every other use of counts/totals/skipped_samples and the "
        "genotype read in read_site; (b) every field of site::Reader written during read_site (except the stream cursor `reader` and the "
        "`projection` scratch, handled by (c)) is re-initialised by reset (set_zero stores const 0 to every element, Vec::clear); "
        "(c) project_unchecked zeroes to_buf before every projection and ProjectIter starts at index 0; (d) every field of the per-run structs "
        "written per record is reset, a stream cursor, or an additive counter; (e) the workspace has no mutable global state besides the "
        "input-independent factorial table.")
    chk.not_decided = "numeric additivity of projected sites up to floating-point summation order; noodles' internal record buffers"
    c11a(chk)
    c11b(chk)
    c11c(chk)
    c11d(chk)
    c11e(chk)
    import rules_io as RIO_
    # the record buffer is reused between reads: a failed read must not be taken for a record (its genotypes would be the previous record's)
    chk.borrow(lambda: RIO_.reader_outcomes(chk, "C10.e"), "C11.f", 2)
    # additivity: each record's contribution is added exactly once, directly to the output spectrum (no side accumulator): C01.c, C10.a
    chk.borrow(lambda: (c01c(chk), c10a(chk)), "C11.g", 12)
    for r, n in (("C11.a", 2), ("C11.b", 4), ("C11.c", 3), ("C11.d", 4), ("C11.e", 1), ("C11.f", 2)):
        chk.floor(r, n)


def c11a(chk):
    f = chk.fn(READ_SITE)
    if f is None:
        return
    rs = an.calls(f, RESET)
    chk.ob("C11.a", "read_site/reset-called-once", len(rs) == 1 and an.arg_pointee(f, rs[0][1], 0) == (1, (("deref",),)) if rs else False, f.loc(), "read_site must call self.reset() (found %d calls)" % len(rs))
    if len(rs) != 1:
        return
    rb = rs[0][0]
    # every other block touching self.* state or reading genotypes is dominated by the block after reset
    after = f.succ[rb][0]
    bad = []
    n = 0
    for b in f.nodes():
        touches = False
        for s in f.stmts(b):
            if s["k"] == "assign":
                ps = [f.canon(P(s["place"]))]
                rv = s["rv"]
                if rv["k"] in ("ref", "rawptr", "discr"):
                    ps.append(f.canon(P(rv["place"])))
                from facts import rv_operands
                for o in rv_operands(rv):
                    p = op_place(o)
                    if p:
                        ps.append(f.canon(p))
                if any(an.self_field(p) in ("counts", "totals", "skipped_samples", "reader", "projection") for p in ps):
                    touches = True
        t = f.term(b)
        if t["k"] == "call" and b != rb:
            touches = True
        if touches:
            n += 1
            if b == rb:
                # statements in reset's own block precede the call only if they do not touch state
                bad.append(b)
            elif not f.dominates(after, b):
                bad.append(b)
    chk.ob("C11.a", "read_site/reset-first", not bad, f.loc(rb),
           "self.reset() must dominate every other statement that touches reader state or calls anything (%d blocks examined, offenders: %s)" % (n, [f.loc(b) for b in bad]))


def zeroing_summary(chk, g):
    """is g `Count::set_zero`-like: stores const 0 to every element of the whole vector?  Accepted idioms:
    iter_mut().for_each(|x| *x = 0), `for x in self.0.iter_mut() { *x = 0 }`, self.0.fill(0)"""
    if g is None:
        return False, "missing"
    upd = an.each_element_update(chk.prog, g)
    if upd is None:
        return False, "no per-element update recognised"
    adapt = [a_ for a_ in upd["adaptors"] if a_ not in ("into_iter", "deref_mut", "deref")]
    whole = (adapt == ["iter_mut"] if upd["kind"] != "fill" else adapt == []) and ("sfs_core::spectrum::count::Count", "0") in upd["fields"]
    st = upd["store"]
    zero = st is not None and st["k"] == "use" and const_val(st["op"]) == 0
    ok = whole and zero and upd["unconditional"]
    return ok, "%s idiom over the whole self.0=%s, stores const 0=%s, unconditional=%s" % (upd["kind"], whole, zero, upd["unconditional"])


def c11b(chk):
    f = chk.fn(READ_SITE)
    r = chk.fn(RESET)
    if f is None or r is None:
        return
    W = {}
    for fld, how, b in an.self_field_writes(chk.prog, f, include_calls=False):
        W.setdefault(fld, set()).add(how)
    # &mut self passed to reset is not a write "during" the record; other &mut self calls would be
    for b, t in f.calls():
        if callee_is(t["callee"], RESET):
            continue
        for ai, a in enumerate(t["args"]):
            l = op_local(a)
            if l is not None and f.local_ty(l).startswith("&mut") and f.resolve_ptr(l) == (1, (("deref",),)):
                for g in chk.prog.call_targets(f, t):
                    for fld, how, b2 in an.self_field_writes(chk.prog, g):
                        W.setdefault(fld, set()).add("via:" + g.path)
    Z = {}
    ok_zero, why = zeroing_summary(chk, chk.fn(SET_ZERO))
    chk.ob("C11.b", "Count::set_zero/zeroes-every-element", ok_zero, chk.fn(SET_ZERO).loc() if chk.fn(SET_ZERO) else "", why)
    import iters as IT
    uncond = lambda b: r.postdominates(b, 0)
    for b, t in r.calls():
        tgt = an.arg_pointee(r, t, 0) if t["args"] else None
        fld = an.self_field(tgt) if tgt else None
        if fld and len(tgt[1]) == 2 and uncond(b):
            nm = callee_name(t["callee"]).split("::")[-1]
            if callee_is(t["callee"], SET_ZERO) and ok_zero:
                Z[fld] = "set_zero"
            elif callee_is(t["callee"], N.VEC_CLEAR) or nm == "clear":
                Z[fld] = "clear"
            elif nm == "truncate" and len(t["args"]) == 2 and const_val(t["args"][1]) == 0:
                Z[fld] = "truncate(0)"
            elif nm == "fill" and len(t["args"]) == 2 and const_val(t["args"][1]) == 0:
                Z[fld] = "fill(0)"
    # a fresh value assigned to the field
    for b, i, p_, rv, st_ in r.assigns():
        fld = an.self_field(p_)
        if fld and len(p_[1]) == 2 and uncond(b) and rv["k"] == "use":
            l = op_local(rv["op"])
            d = r.single_def(r.copy_root(l)) if l is not None else None
            if d and d[0] == "call" and callee_name(d[2]["callee"]).split("::")[-1] in ("new", "default", "with_capacity") and not any(op_local(a) is not None for a in d[2]["args"]):
                Z[fld] = "= fresh %s" % callee_name(d[2]["callee"]).split("::")[-1]
    # every element of the field set to 0 in place
    for it in IT.iterations(chk.prog, r):
        if it.parent is not r or not uncond(it.bb) or not it.runs_for_every_element() or it.switches():
            continue
        ch = it.chain()
        src = ch[-1][1]
        fld = an.self_field(src) if src is not None else None
        if not fld or [n for n in IT.chain_names(ch) if n not in ("iter_mut",)]:
            continue
        zero = [1 for b2, i2, p2, rv2, s2 in it.assigns() if p2[1] and p2[1][-1] == ("deref",) and it.elem_path(p2) == () and rv2["k"] == "use" and const_val(rv2["op"]) == 0]
        if zero:
            Z[fld] = "every element = 0 (%s)" % it.kind
    exempt = {"reader": "stream cursor owned by the genotype reader", "projection": "scratch buffer, reset by project_unchecked (C11.c)"}
    for fld in sorted(W):
        if fld in exempt:
            chk.ob("C11.b", "read_site/field(%s)/exempt" % fld, True, f.loc(), "written via %s; %s" % (sorted(W[fld]), exempt[fld]), nontrivial=False)
            continue
        chk.ob("C11.b", "read_site/field(%s)/reset" % fld, fld in Z, f.loc(),
               "field %s is written while reading a record (%s) and must be re-initialised by Reader::reset (reset covers: %s)" % (fld, sorted(W[fld]), Z))
    chk.extra["C11_written"] = sorted(W)
    chk.extra["C11_reset"] = Z
    # no re-initialisation is conditional: only actions that run on every path through reset were counted above, and reset has no early return
    rets = [b for b in r.nodes() if r.term(b)["k"] == "return"]
    chk.ob("C11.b", "reset/straight-line", len(rets) == 1 and len(Z) >= 1, r.loc(), "reset performs its re-initialisations unconditionally (single exit; only unconditional actions are accepted: %s)" % Z)


def c11c(chk):
    g = chk.fn(PP_PROJECT_UNCHECKED)
    if g is None:
        return
    zs = [(b, t) for b, t in an.calls(g, SET_ZERO) if an.self_field(an.arg_pointee(g, t, 0) or (0, ())) == "to_buf"]
    news = an.calls(g, PROJECTED_NEW)
    ok = len(zs) >= 1 and len(news) == 1 and any(g.dominates(zb, news[0][0]) and zb != news[0][0] for zb, _ in zs)
    chk.ob("C11.c", "project_unchecked/to_buf-zeroed-before-use", ok, g.loc(), "self.to_buf.set_zero() must dominate Projected::new_unchecked(.., &mut self.to_buf)")
    pi = chk.fn(PITER_NEW)
    if pi is not None:
        idx = None
        for b, i, p, rv, s in pi.assigns():
            if rv["k"] == "aggregate" and rv["akind"] == "adt" and "index" in rv.get("fields", []):
                idx = const_val(rv["ops"][rv["fields"].index("index")])
        chk.ob("C11.c", "ProjectIter::new_unchecked/index=0", idx == 0, pi.loc(), "a fresh projection iterator starts at index 0 (found %s)" % idx)
    # fields of PartialProjection / Projection written after construction
    written = set()
    for fn in chk.prog.fn_list:
        io = fn.impl_of
        if not io or io.get("self_adt") not in ("sfs_core::spectrum::project::PartialProjection", "sfs_core::spectrum::project::Projection"):
            continue
        if fn.kind == "Closure" or fn.derived:
            continue
        if not fn.locals[1]["ty"].startswith("&mut") if fn.argc >= 1 else True:
            continue
        for fld, how, b in an.self_field_writes(chk.prog, fn):
            written.add((io["self_adt"].split("::")[-1], fld))
    ok = written <= {("PartialProjection", "to_buf"), ("Projection", "inner")}
    chk.ob("C11.c", "projection/only-to_buf-mutated", ok, "", "fields of the projection structs mutated through &mut self: %s" % sorted(written))


def c11d(chk):
    prog = chk.prog
    # site::Reader: fields and their treatment
    adt = prog.adts.get(SITE_READER)
    if adt is None:
        chk.fail("C11.d", "site::Reader/ANCHOR-MISSING", "", "ADT not found")
        return
    fields = [f["name"] for f in adt["variants"][0]["fields"]]
    reviewed = {"reader": "stream cursor (Box<dyn genotype::Reader>)", "sample_map": "never written after construction",
                "counts": "reset", "totals": "reset", "projection": "scratch zeroed per use", "skipped_samples": "reset"}
    # a field the review did not know is classified mechanically where that is safe: re-initialised by reset() on every record (C11.b
    # checked that reset covers it), or never written after the constructor; anything else carries state from one record to the next
    Z = chk.extra.get("C11_reset") or {}
    written_anywhere = set()
    for fn in prog.fn_list:
        io = fn.impl_of
        if not io or io.get("self_adt") != SITE_READER or fn.derived:
            continue
        for fld_, how_, b_ in an.self_field_writes(prog, fn):
            written_anywhere.add(fld_)
    for fld in fields:
        how = reviewed.get(fld)
        if how is None and fld in Z:
            how = "re-initialised by reset(): %s" % Z[fld]
        if how is None and fld not in written_anywhere:
            how = "never written after construction"
        chk.ob("C11.d", "site::Reader/field(%s)/classified" % fld, how is not None, "%s:%d" % (adt["span"]["file"], adt["span"]["line"]),
               "every field of site::Reader must be classified (reset / cursor / immutable); a new field is reported here (%s)" % (how or "UNCLASSIFIED"))
    f = chk.fn(READ_SITE)
    if f is not None:
        w = {fld for fld, how, b in an.self_field_writes(prog, f)}
        chk.ob("C11.d", "site::Reader/sample_map-immutable", "sample_map" not in w, f.loc(), "sample_map must not be written while reading")
    # create::Runner: fields written in run/handle_*: only additive counters
    radt = prog.adts.get(RUNNER_STRUCT)
    if radt is None:
        chk.fail("C11.d", "create::Runner/ANCHOR-MISSING", "", "ADT not found")
        return
    rfields = [x["name"] for x in radt["variants"][0]["fields"]]
    rreviewed = {"reader": "site reader (see above)", "strict": "read-only flag", "sites": "additive counter", "skipped": "additive counter"}
    for fld in rfields:
        chk.ob("C11.d", "create::Runner/field(%s)/classified" % fld, fld in rreviewed, "%s:%d" % (radt["span"]["file"], radt["span"]["line"]), rreviewed.get(fld, "UNCLASSIFIED field: per-record state must be reset, a cursor or an additive counter"))
    run = chk.fn(RUNNER_RUN)
    if run is not None:
        w = {}
        for fld, how, b in an.self_field_writes(prog, run):
            w.setdefault(fld, set()).add(how)
        for fld in sorted(w):
            if fld == "reader":
                ok = True
            elif fld in ("sites", "skipped"):
                owner = run if fld == "sites" else prog.fn(HANDLE_SKIPPED)
                inc, bad = counter_increments(owner, fld) if owner else ([], [1])
                ok = bool(inc) and not bad
            else:
                ok = False
            chk.ob("C11.d", "create::Runner/written(%s)/additive-or-cursor" % fld, ok, run.loc(), "field written per record must be the cursor or an `x = x + 1` counter (how: %s)" % sorted(w[fld]))
    # vcf / bcf readers: all fields are noodles-owned cursors/buffers or immutable
    for rp in ("sfs_core::input::genotype::reader::vcf::Reader", "sfs_core::input::genotype::reader::bcf::Reader"):
        a = prog.adts.get(rp)
        if a is None:
            chk.fail("C11.d", "%s/ANCHOR-MISSING" % rp, "", "ADT not found")
            continue
        names = {x["name"] for x in a["variants"][0]["fields"]}
        allowed = {"inner", "header", "string_maps", "samples", "buf"}
        chk.ob("C11.d", "%s/fields" % rp.split("::")[-2], names <= allowed, "%s:%d" % (a["span"]["file"], a["span"]["line"]),
               "genotype readers may only hold the noodles reader, header, string maps, sample names and the record buffer (found %s)" % sorted(names))


def c11e(chk):
    prog = chk.prog
    statics = [c for c in prog.consts.values() if c["kind"].startswith("Static")]
    allowed = {"sfs_core::utils::factorial::precomputed::PRECOMPUTED"}
    import re
    # (the table's cell under another name or in a renamed function is the same cell: one OnceLock<[f64; N]> in utils::factorial,
    # whose initialiser C02.g reads; it is keyed by what it is)
    tables = [s for s in statics if s["path"].startswith("sfs_core::utils::factorial::") and re.match(r"^std::sync::(once_lock::)?OnceLock<\[f64; [\w:]+\]>$", s["ty"])]
    for s in statics:
        clap_default = re.match(r"^<sfs::[\w:]+ as clap_builder::derive::Args>::augment_args(_for_update)?::DEFAULT_VALUE$", s["path"]) is not None
        is_table = len(tables) == 1 and s is tables[0]
        key = "sfs_core::utils::factorial::precomputed::PRECOMPUTED" if is_table else s["path"]
        chk.ob("C11.e", "static(%s)" % key, s["path"] in allowed or clap_default or is_table, "%s:%d" % (s["span"]["file"], s["span"]["line"]),
               "statics must be the input-independent factorial table or clap-derive's default-value cells (type %s)" % s["ty"], nontrivial=not clap_default)
    # interior mutability / sync primitives in workspace ADT fields and locals
    bad = []
    pats = ("core::cell::Cell<", "core::cell::RefCell<", "std::sync::Mutex<", "std::sync::RwLock<", "core::sync::atomic::Atomic", "std::thread::LocalKey", "std::sync::poison::mutex::Mutex<", "std::sync::poison::rwlock::RwLock<")
    for a in prog.adts.values():
        for v in a["variants"]:
            for fld in v["fields"]:
                if any(p in fld["ty"] for p in pats):
                    bad.append("%s.%s: %s" % (a["path"], fld["name"], fld["ty"]))
    for f in prog.fn_list:
        if f.derived:
            continue
        for l in f.locals:
            if any(p in l["ty"] for p in pats) and "clap" not in l["ty"] and "std::io::stdio" not in l["ty"]:
                bad.append("%s local: %s" % (f.path, l["ty"][:80]))
    chk.ob("C11.e", "no-interior-mutable-state", not bad, "", "Cell/RefCell/Mutex/RwLock/Atomic/thread_local in workspace types: %s" % bad[:6])
