#!/bin/bash
# Build the fact extractor (offline, nightly, zero cargo deps) and warm the dependency metadata cache
# by extracting facts for the current /repo tree once.
set -e
cd "$(dirname "$0")/sfsmir"
CARGO_NET_OFFLINE=true cargo build --release --offline 2>&1 | tail -3
cd ../..
python3 - <<'PY'
import sys
sys.path.insert(0, "engine/sfsverif")
from facts import get_facts
prog, info = get_facts()
print("facts ready:", info)
PY
