"""entry point: python3 main.py <Cxx> [--tier quick|thorough]"""
import sys, os, argparse, importlib, traceback
sys.path.insert(0, os.path.dirname(os.path.abspath(__file__)))
from facts import get_facts, FactError
from core import Check

MODULES = {
    "C01": "rules_create", "C02": "rules_create", "C10": "rules_create", "C11": "rules_create",
    "C08": "rules_geno", "C09": "rules_geno", "C12": "rules_geno",
    "C06": "rules_stat", "C14": "rules_stat", "C13": "rules_view",
    "C07": "rules_io", "C15": "rules_io", "C16": "rules_io", "C18": "rules_io",
    "C17": "rules_panic", "C19": "rules_panic",
    "C03": "rules_num", "C04": "rules_num", "C05": "rules_num",
}


def main():
    ap = argparse.ArgumentParser()
    ap.add_argument("pid")
    ap.add_argument("--tier", default=os.environ.get("VERIF_TIER", "quick"))
    ap.add_argument("--repo", default=None)
    ap.add_argument("--explain", default=None, help="replay file written for a VIOLATION: re-derive that obligation on the current tree and print it")
    a = ap.parse_args()
    seed = int(os.environ.get("VERIF_SEED", "0") or 0)
    pid = a.pid
    if pid not in MODULES:
        print("unknown or unclaimed property", pid)
        return 2
    try:
        prog, info = get_facts(a.repo)
    except FactError as e:
        # fail closed: cannot analyse the current tree
        chk = Check(pid, None, a.tier, seed, {"key": None, "wall_s": 0})
        chk.explanation = "fact extraction failed; nothing analysed"
        chk.ob("FACTS", "EXTRACTION-FAILED", False, "", str(e)[-1500:], nontrivial=False)
        return chk.finish()
    chk = Check(pid, prog, a.tier, seed, info)
    rep = getattr(prog, "canon_report", None) or {}
    if any(rep.get(k) for k in ("renamed", "inlined", "new_functions_kept")):
        chk.extra["canonicalised"] = rep
        print("NOTE facts canonicalised against tables/functions.json: renamed=%s inlined=%s new functions kept=%s" % (rep.get("renamed"), rep.get("inlined"), rep.get("new_functions_kept")))
    if a.repo:
        os.environ["SFS_CHECK_REPO"] = a.repo
    mod = importlib.import_module(MODULES[pid])
    try:
        getattr(mod, "check_" + pid)(chk)
    except Exception:
        chk.ob("ENGINE", "RULE-CRASH", False, "", "rule engine raised (unrecognised MIR shape at an anchor - fail closed):\n" + traceback.format_exc()[-1800:], nontrivial=False)
    if a.explain:
        import json
        rep = json.load(open(a.explain))
        oid = rep["obligation"]["id"]
        print("replay of %s (recorded against facts %s):" % (oid, rep.get("facts_key")))
        print("  recorded: %s\n    %s" % (rep["obligation"]["where"], rep["obligation"]["detail"]))
        now = [o for o in chk.obs if o["id"] == oid]
        if not now:
            print("  now: the obligation no longer exists on the current tree (anchor or site gone)")
            return 0
        for o in now:
            print("  now [%s]: %s\n    %s" % ("discharged" if o["ok"] else "FAILS", o["where"], o["detail"]))
        return 0 if all(o["ok"] for o in now) else 1
    if os.environ.get("SFSVERIF_LIST"):
        for o in chk.obs:
            print("OB %s %s" % ("ok  " if o["ok"] else "FAIL", o["id"]))
    if a.tier == "thorough":
        try:
            import thorough
            thorough.run(chk)
        except ImportError:
            pass
    return chk.finish()


if __name__ == "__main__":
    sys.exit(main())
