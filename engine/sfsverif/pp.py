"""debug helper: python3 pp.py <path-suffix> [...]  — pretty-print MIR facts of matching fns"""
import sys
from facts import get_facts
prog, info = get_facts()
for s in sys.argv[1:]:
    fs = [f for p, f in prog.fns.items() if s in p]
    for f in fs:
        f.pp()
        print()
