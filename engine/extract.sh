#!/bin/bash
# usage: extract.sh <repo-dir> <out-dir> <target-dir>
# Runs the sfsmir driver over the workspace at <repo-dir>; facts land in <out-dir>.
set -e
REPO="$1"; OUT="$2"; TGT="$3"
HERE="$(cd "$(dirname "$0")" && pwd)"
DRV="$HERE/sfsmir/target/release/sfsmir"
if [ ! -x "$DRV" ] || [ "$HERE/sfsmir/src/main.rs" -nt "$DRV" ]; then
  # build the driver on first use / after an edit (offline, nightly, no dependencies)
  (cd "$HERE/sfsmir" && CARGO_NET_OFFLINE=true cargo build --release --offline >/dev/null 2>"$HERE/sfsmir/build.stderr") || { tail -20 "$HERE/sfsmir/build.stderr"; exit 2; }
fi
[ -x "$DRV" ] || { echo "driver not built: $DRV (run engine/setup.sh)"; exit 2; }
SYSROOT="$(rustc +nightly --print sysroot)"
mkdir -p "$OUT" "$TGT"
# cargo's freshness cache would skip the wrapper for workspace members: drop their fingerprints
rm -rf "$TGT"/debug/.fingerprint/sfs-* "$TGT"/debug/.fingerprint/sfs_* 2>/dev/null || true
rm -f "$OUT"/*.json
cd "$REPO"
CARGO_NET_OFFLINE=true LD_LIBRARY_PATH="$SYSROOT/lib" RUSTFLAGS="-Zmir-opt-level=0 -Awarnings" \
  RUSTC_WORKSPACE_WRAPPER="$DRV" SFSMIR_OUT="$OUT" SFSMIR_CRATES="sfs_core,sfs" CARGO_TARGET_DIR="$TGT" \
  cargo +nightly check --offline --quiet 2>"$OUT/cargo.stderr" || { cat "$OUT/cargo.stderr" | tail -40; exit 3; }
[ -s "$OUT/sfs_core.lib.json" ] && [ -s "$OUT/sfs.bin.json" ] || { echo "fact files missing"; exit 4; }
