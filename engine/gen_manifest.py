#!/usr/bin/env python3
"""Writes /verif/MANIFEST.json from the table below (keeps the manifest valid and in one place)."""
import json, os
V = os.path.dirname(os.path.dirname(os.path.abspath(__file__)))
TECH = "static analysis: repo-specific rules over type-checked, callee-resolved MIR (rustc_private driver) - "
CHECKS = {
 "C01": ("selection isolation, complete-only, +1 once, integer printing, 2n+1 shape form decided on all paths of read_site / Runner::run / Create::run", "dominance + field-sensitive dataflow over MIR; affine-form extraction", "4/C01"),
 "C02": ("exact/projectable/insufficient decision (per-axis facts established at each outcome), argument roles down to hypergeometric_pmf, the weight as nine signed ln-factorial terms exponentiated once (log-space), the factorial table read symbolically (entry i = entry i-1 * i for i = 1..MAX, ln taken once), ln_gamma(x + 1) beyond it with its x >= 0.5 branch read as the Lanczos expression over the reviewed constants, every site outcome decided inside the projection / no-projection split, 2i+1 sibling agreement, validation before construction", "comparison-operator set over compared values; argument-role tracing; affine-form cross-check", "4/C02"),
 "C03": ("NARROW: rejection of zero / larger / different-dimensional targets dominates construction (element-wise), Spectrum::project validates first and projects every (value, index) pair unconditionally into a zero result, add_unchecked = cell + projected * weight, hypergeometric building blocks incl. the log-space form of the weight (no binomial materialised as f64); the numerical identity and its laws are NOT decided", "dominance + operand-role tracing + loop-body unconditionality over MIR", "6/C03 and 11.2"),
 "C04": ("NARROW: the three rejections guard both unchecked calls, sorted-or-sorted-copy, ascending renumbering original - removed, Array::sum accumulates every view into a zero array of the remaining shape, remove list passed through a Vec only (no set/map on the way); that the sums are the array sums for all shapes is NOT decided", "edge dominance, adaptor-chain and closure-shape checks over MIR", "6/C04 and 11.2"),
 "C05": ("NARROW: fill table, fold().into_spectrum(fill), straight-line from_spectrum with one pass over (i, n-1-i), T = sum(len-1), mid = T/2, diagonal = T even, per-cell decision table Less/Equal/Greater x diagonal with exactly one store at i; index/mirror arithmetic for all shapes and the mass/idempotence/symmetry laws are NOT decided", "decision-table extraction and expression-shape comparison per arm over MIR", "6/C05 and 11.2"),
 "C06": ("CLI statistic -> library method -> estimator wiring (14+12 rows), D-statistic theta pairs, the default theta estimator as sum of weight(position, n) * value over the interior positions, the per-cell terms of F2/F3/F4 as expressions, Fst axis roles, normalise-before-f typestate, guards before unchecked estimators", "match-table extraction; who-may-call; dominance; compile-fail witnesses (thorough)", "4/C06"),
 "C07": ("writer/reader literal and table agreement for text and npy, to_le_bytes/from_le_bytes pairing, one detector and writer arm per format, auto-detection over whole input, every file opened for writing is created-or-truncated", "format-template decoding and table cross-check over MIR constants", "4/C07"),
 "C08": ("per-allele {0,1} bound before classification (information flow), missing/ploidy arms, single VCF/BCF funnel, totality, error reaches Err naming contig:position of the current record (BCF contig id through the IDX-aware string map)", "backward slicing per allele + dominating-branch value-set reasoning", "4/C08"),
 "C09": ("ordered containers, order-preserving API only, id = insertion index, single construction funnel, lookup by sample name, ids 0..len, error checks dominate construction", "typed call allow-list; dataflow slices; who-constructs", "4/C09"),
 "C10": ("exactly one accounting event and one sites increment per loop path, strict read once, summary on success path, write after everything, non-zero exit", "path counting on the CFG (exactly-once), dominance, who-may-write", "4/C10"),
 "C11": ("reset first, reset complete (field-write inventory vs reset set), scratch buffer zeroed, field classification, no mutable globals", "field-effect inventory over MIR places; dominance", "4/C11"),
 "C12": ("hash order never observed, ambient inputs only at reviewed sites, threads has one sink and decides no branch, one construction funnel for transport/container, BGZF peeked with a multi-member decoder only", "typed call allow-lists; information-flow slice from `threads`", "4/C12"),
 "C13": ("marginalize < project < mask < normalize < write on every path, each step under its own option only, mask = first/last := 0.0, keep -> complement", "CFG reachability order, control dependence via edge dominance, idiom recognition", "4/C13"),
 "C14": ("f-statistics only on the normalised type, exactly {F2,F3,F4,Fst} normalise in the CLI, KING/R0/R1 cells exclude monomorphic cells, interior-only iteration", "typestate + match-table + constant-index extraction", "4/C14"),
 "C15": ("20-arm decoder table, dtype/endian/version tables agree, writer constants and emission order, padding = (-len) mod 64 and no must-fail path, Fortran/unknown dtype rejected", "table extraction from nested matches and nom combinator calls; constant propagation (definite-failure rule)", "4/C15"),
 "C16": ("only exact reads on the npy path, read-to-EOF loop exits, checked constructor on every read path, all tokens parsed, read dominates output", "call-graph reachability + typed call allow-list; loop-exit classification; dominance", "4/C16"),
 "C17": ("every panic-capable MIR site reachable from main is auto-discharged, contract-covered, reviewed or a recorded finding; closed caller sets for *_unchecked", "interprocedural may-panic inventory over MIR Assert terminators and a reviewed P-set; guard-dominance contracts", "4/C17"),
 "C18": ("no short-count I/O primitive anywhere (forwarding Write impls excepted), no discarded Result, fill_buf contents only tested for emptiness (followed into the functions the bytes are handed to), every BufReader has a non-zero capacity, whole-input reads, no BufWriter", "typed call inventory; Result-use discipline; forward flow from fill_buf", "4/C18"),
 "C19": ("Option-returning accessors contain no panic site, FusedIterator / ExactSizeIterator obligations of the 4 iterators (no write before None, every yield advances the guarded field), next/size_hint total", "may-panic inventory restricted to the array API; field-write analysis of None paths; size_hint slice", "4/C19"),
}
SHARED = {
 "C01": "genotype classification (C08.a/b/c/e), samples-file parser (C09.d), per-record reset (C11.a/b), readers hand on the decoded columns (C10.e, C08.d), BCF magic tested for both containers (C12.d)",
 "C02": "genotype classification (C08.a/b/c), selection isolation and Error arm (C01.a, C08.f), precision plumbing (C01.d, C07.c/f, C17.f)",
 "C03": "view's project step runs under its own option and its result is written (C13.a/b)",
 "C04": "view's marginalize step and keep->complement (C13.a/b/d), view iterators (C19.b-d)",
 "C05": "text values printed as stored (C07.c), output files created-or-truncated (C07.g)",
 "C06": "interior-only summation and single result expressions (C14.d), factorial helpers (C02.g), genotype classification (C08.a-c,e)",
 "C07": "accepted precision range (C17.f), npy decoder table and writer (C15.a/d), view hands values on untouched (C13.a/b), text reader takes the whole body (C16.d)",
 "C08": "per-record reset (C11.a/b), reader outcomes (C10.e)",
 "C09": "every selected sample of a record is examined (C01.b), selection isolation and Error arm (C01.a, C08.f)",
 "C10": "every selected sample of a record is examined (C01.b), factorial helpers / pmf (C02.g), projectable decision, complete-only, +1 once, precision, classification (C02.a/e, C01.b/c/d, C08.a-e)",
 "C11": "reader outcomes (C10.e), one update per arm (C01.c, C10.a)",
 "C12": "no short-count reads (C18.a), sibling readers: outcomes and reset (C10.e, C11.d)",
 "C13": "marginalize: validation, renumbering, Array::sum (C04.a/c/d), output files created-or-truncated (C07.g), lossless hand-over (C07.c/f, C17.f, C15.a/d, C16.d), 2i+1 (C02.c)",
 "C14": "Fst pairing and statistic result expressions (C06.e), estimator overrides and f-statistic terms (C06.b/e), marginals keep the remaining axes in order (C04.c/d)",
 "C15": "reader input buffer untouched (C07.e), output files created-or-truncated (C07.g), who may write stdout (C10.d), view writes what its steps produced (C13.a)",
 "C16": "reader input buffer untouched (C07.e)",
 "C17": "guards behind reviewed reasons: marginalize (C04.a), project (C03.a/b), genotype classifier (C08.a/b/e)",
 "C18": "unusable records fail the run (C08.f)",
 "C19": "Array::sum accumulates every view (C04.d)",
}
NA = {
 "C03x": "numerical identity of the projection operator (sum of products of hypergeometric pmfs), finiteness at large sizes and algebraic laws between evaluations: no clause is visible in the shape of the code beyond input validation (covered by C17 contracts) and the 2i+1 conversion (decided under C02.c); no sound static argument in reach bounds these values",
 "C04x": "equality of entries with array sums over all shapes/subsets/orders is index and stride arithmetic on runtime values; the structural preconditions (validate, sort, shift) are contract-checked under C17 and the keep->complement conversion under C13.d",
 "C05x": "which entry is folded onto which (flat index i with n-1-i, T/2, parity) and mass preservation/idempotence are arithmetic over all shapes and values; there is no ordering, ownership, table or typestate clause a rule could name without re-deriving that arithmetic",
}

def main():
    claimed = [p for p in sorted(CHECKS) if os.path.exists(os.path.join(V, "engine", "sfsverif", "CLAIMED")) is False or True]
    impl = json.load(open(os.path.join(V, "engine", "claimed.json")))
    checks = []
    na = [{"property_id": k, "reason": v} for k, v in sorted(NA.items()) if not k.endswith("x")]
    for pid in sorted(CHECKS):
        what, tech, ref = CHECKS[pid]
        if pid in SHARED:
            what += "; clauses shared with other properties and evaluated here as well: " + SHARED[pid]
        if pid not in impl:
            na.append({"property_id": pid, "reason": "claimed in DESIGN.md but its check is not built yet in this commit (no verdict is given)"})
            continue
        checks.append({
            "property_id": pid,
            "quick_cmd": "./check %s --tier quick" % pid,
            "thorough_cmd": "./check %s --tier thorough" % pid,
            "evidence_file": "evidence/%s.json" % pid,
            "replay_cmd_template": "./check %s --explain {path}" % pid,
            "engine": "sfsverif",
            "level_claimed": {"category": "other",
                              "text": "Static analysis, all paths of the current source: " + what + ". A pass means the named structural clauses (genuine necessary conditions of the property) hold on every path; it does not mean numerical behaviour was checked.",
                              "design_ref": "DESIGN.md section " + ref},
            "level_note": "Trusted: rustc nightly MIR + Instance resolution, the sfsmir extractor, std's documented contracts, dependencies behaving as documented, reviewed tables/known_findings.json. Decides the structural clauses only; see evidence coverage.explanation for what is not decided.",
            "technique": TECH + tech,
        })
    m = {
        "version": 1,
        "setup_cmd": "bash engine/setup.sh",
        "hooks": {"guard": "sfs_verif", "enable": "none: static analysis reads the unmodified sources; the guard name is reserved and unused",
                  "baseline_off_cmd": "cd /repo && cargo test --workspace --no-fail-fast --offline", "source_commits": [], "add_only": True},
        "engines": [
            {"name": "sfsmir", "path": "engine/sfsmir", "serves_properties": sorted(impl), "kind_free_text": "rustc_private driver (nightly) dumping type-checked, callee-resolved MIR facts of sfs-core and sfs-cli as JSON"},
            {"name": "sfsverif", "path": "engine/sfsverif", "serves_properties": sorted(impl), "kind_free_text": "python3 rule engine: CFG/dominators/slices/call graph + per-property rules, reviewed tables, known findings, evidence"},
        ],
        "checks": checks,
        "not_applicable": na,
        "notes": "Repairs of genuine defects are unguarded `fix:` commits in /repo, recorded in known_findings.json (status fixed). Open known findings are printed as KNOWN-FINDING lines.",
    }
    json.dump(m, open(os.path.join(V, "MANIFEST.json"), "w"), indent=1)
    print("MANIFEST: %d checks, %d not_applicable" % (len(checks), len(na)))

main()
