"""C03, C04, C05: the numeric core of these properties is NOT decided (DESIGN section 6).  What is decided are the
clauses whose truth is in the shape of the code: input validation and its dominance, the wiring and pairing of the
operands, decision tables, and that the per-element loops are unconditional and run over every element."""
from facts import P, pstr, op_place, op_local, op_const, const_val, ostr, rvstr, callee_is, callee_name, rv_operands
import an
import names as N
import rules_create as RC
import rules_geno as RG

SP = "sfs_core::spectrum::Spectrum::<S>::"
SCS = "sfs_core::spectrum::Spectrum::<sfs_core::spectrum::Counts>::"
PROJ = "sfs_core::spectrum::project::"
A = "sfs_core::array::"
FOLDED = "sfs_core::spectrum::folded::Folded::<S>::"
COUNT = "sfs_core::spectrum::count::Count"


def adaptors_of(f, op, skip_bb=None):
    sl, info = f.slice_locals(op)
    return [(x[1]["callee"].get("path") or "").split("::")[-1] for x in info["calls"] if x[0] != skip_bb], info


def closure_of_arg(prog, f, t, idx):
    l = op_local(t["args"][idx])
    d = f.single_def(l) if l is not None else None
    if d and d[0] == "assign" and d[3]["k"] == "aggregate" and d[3]["akind"] == "closure":
        return prog.fn(d[3]["closure"])
    return None


def only_structural_switches(f, allowed_bbs):
    """switch blocks of f other than the given ones (iterator `next`, `?`)"""
    return [b for b, t in f.switches() if b not in allowed_bbs]


# ====================================================================================
# C03
# ====================================================================================
def check_C03(chk):
    chk.explanation = (
        "NARROW claim.  Decided (structure of Projection::{from_shapes,new}, Count::try_from_shape, Spectrum::project, Projected::{add_unchecked,"
        "into_weighted}): (a) rejection: a target that is zero on any axis, of different dimensionality, or larger than the source on any axis "
        "(element-wise comparison over zipped axes) never reaches Projection::new_unchecked; (b) Spectrum::project validates before anything "
        "else, walks every (value, index) pair of the source in the same order, unconditionally, and for each one calls project_unchecked(index)"
        ".into_weighted(value).add_unchecked(result) on a zero-initialised result of the target shape; (c) add_unchecked adds projected * weight "
        "to every cell; (d) shared with C02: argument roles down to hypergeometric_pmf, factorial table bound, ln_gamma(x + 1), 2i+1.")
    chk.not_decided = ("the numerical identity sum_k x[k] prod_j Hypergeom(..) itself, finiteness at large sizes beyond the table bound, mass preservation, "
                       "identity/composition/commutation laws: values, not structure")
    c03a(chk)
    c03b(chk)
    c03c(chk)
    before = len(chk.obs)
    RC.c02g(chk)
    rs = None
    # roles down to the pmf (C02.b without the read_site part)
    class _RS:
        pass
    for o in chk.obs[before:]:
        o["rule"] = "C03.d"
        o["id"] = "C03.d/" + o["key"]
    chk.rule_counts["C03.d"] = chk.rule_counts.pop("C02.g", 0)
    RC.affine_siblings(chk, "C03.d")
    for r, n in (("C03.a", 6), ("C03.b", 8), ("C03.c", 3), ("C03.d", 9)):
        chk.floor(r, n)


def c03a(chk):
    prog = chk.prog
    f = chk.fn(PROJ + "Projection::new")
    if f is not None:
        nu = an.calls(f, PROJ + "Projection::new_unchecked")
        fm = [(b, t) for b, t in f.calls() if callee_is(t["callee"], "core::iter::traits::iterator::Iterator::find_map", "core::iter::traits::iterator::Iterator::find", "core::iter::traits::iterator::Iterator::position", "core::iter::traits::iterator::Iterator::any")]
        if len(nu) != 1 or len(fm) != 1:
            chk.fail("C03.a", "Projection::new/shape", f.loc(), "expected one new_unchecked call and one element-wise search, found %d / %d" % (len(nu), len(fm)))
        else:
            nb = nu[0][0]
            # dimensionality
            dim_ok = False
            for sb, st in f.switches():
                s = an.switch_subject(f, sb)
                if s["kind"] == "value" and s["root"] is not None:
                    d = f.single_def(s["root"])
                    if d and d[0] == "assign" and d[3]["k"] == "binop" and d[3]["op"] == "Eq":
                        ds = [f.single_def(f.copy_root(op_local(d[3][x]))) for x in ("l", "r") if op_local(d[3][x]) is not None]
                        if len(ds) == 2 and all(x and x[0] == "call" and callee_is(x[2]["callee"], COUNT + "::dimensions") for x in ds):
                            roots = sorted(RG._param_root_owned(f, x[2]["args"][0]) or -1 for x in ds)
                            dim_ok = an.dominated_by_edge(f, sb, st["otherwise"], nb) and len(set(roots)) == 2
            chk.ob("C03.a", "Projection::new/new_unchecked<=equal-dimensions", dim_ok, f.loc(nb), "the projection is built only when source and target have the same number of axes")
            # element-wise size test
            fb, ft = fm[0]
            ad, info = adaptors_of(f, ft["args"][0], fb)
            zips = [x for x in info["calls"] if callee_is(x[1]["callee"], N.ZIP)]
            roles_ok = False
            if len(zips) == 1:
                zt = zips[0][1]
                s0, i0 = f.slice_locals(zt["args"][0])
                s1, i1 = f.slice_locals(zt["args"][1])
                # `from` = Into::into(param 1), `to` = Into::into(param 2)
                def src_param(sl):
                    ps = set()
                    for l in sl:
                        for d in f.defs.get(l, []):
                            if d[0] == "call" and callee_is(d[2]["callee"], "core::convert::Into::into"):
                                r = f.copy_root(op_local(d[2]["args"][0])) if op_local(d[2]["args"][0]) is not None else None
                                ps.add(r)
                    return ps
                roles_ok = src_param(s0) == {1} and src_param(s1) == {2}
            cl = closure_of_arg(prog, f, ft, 1)
            cmp_ok = False
            if cl is not None:
                chk.fns_analysed.add(cl.path)
                lts = [t for b, t in cl.calls() if callee_is(t["callee"], "core::cmp::PartialOrd::lt")]
                bins = [rv for _, _, _, rv, _ in cl.assigns() if rv["k"] == "binop" and rv["op"] in ("Lt", "Gt", "Le", "Ge")]
                if len(lts) == 1 and not bins:
                    # operands: tuple item (.1.0 = from, .1.1 = to) in that order
                    def item_path(op):
                        sl, info = cl.slice_locals(op, through_calls=False)
                        for l in sl:
                            for d in cl.defs.get(l, []):
                                if d[0] == "assign" and d[3]["k"] == "use":
                                    p = op_place(d[3]["op"])
                                    if p and p[0] == 2 and p[1]:
                                        return tuple(e[1] for e in p[1] if e[0] == "field")
                        return None
                    cmp_ok = item_path(lts[0]["args"][0]) in ((1, 0), (0,)) and item_path(lts[0]["args"][1]) in ((1, 1), (1,))
            none_ok = False
            for sb, s in an.switches_on_call_result(f, fb):
                none_ok = an.dominated_by_edge(f, sb, an.edge_target(f.term(sb), 0), nb)
            elementwise = all(a in ("zip", "enumerate", "iter", "deref", "into") for a in ad) and "zip" in ad
            chk.ob("C03.a", "Projection::new/new_unchecked<=no-axis-with-from<to(element-wise)", roles_ok and cmp_ok and none_ok and elementwise, f.loc(nb),
                   "built only when the search for an axis with `from < to` over zip(from, to) found none (zip roles from/to=%s, closure compares item.from < item.to=%s, "
                   "None edge dominates=%s, adaptors %s)" % (roles_ok, cmp_ok, none_ok, ad))
            # whole-vector comparisons (lexicographic Ord on Count) are not a validation
            whole = [callee_name(t["callee"]) for b, t in f.calls() if callee_is(t["callee"], "core::cmp::PartialOrd::ge", "core::cmp::PartialOrd::le", "core::cmp::PartialOrd::lt", "core::cmp::PartialOrd::gt", "core::cmp::Ord::cmp")]
            chk.ob("C03.a", "Projection::new/no-whole-vector-comparison", not whole, f.loc(), "no comparison of the two counts as wholes (a derived ordering would be lexicographic): %s" % whole)
            errs = sorted({rv["variant"] for _, _, _, rv, _ in f.assigns() if rv["k"] == "aggregate" and rv.get("adt") == PROJ + "ProjectionError"})
            chk.ob("C03.a", "Projection::new/error-variants", errs == ["Empty", "InvalidProjection", "UnequalDimensions"], f.loc(), "rejections are reported as %s" % errs, nontrivial=False)
    g = chk.fn(PROJ + "Projection::from_shapes")
    if g is not None:
        tf = an.calls(g, COUNT + "::try_from_shape")
        nw = an.calls(g, PROJ + "Projection::new")
        ok = False
        if len(tf) == 2 and len(nw) == 1:
            dests = [an.call_dest_local(t) for b, t in tf]
            # new is dominated by the Some edges of both results
            somes = 0
            for sb, st in g.switches():
                s = an.switch_subject(g, sb)
                if s["kind"] == "discr" and "Option" in (s.get("ty") or ""):
                    if an.dominated_by_edge(g, sb, an.edge_target(st, 1), nw[0][0]):
                        somes += 1
            # argument order preserved: new(from, to)
            def from_which(op):
                chain = RG.pure_move_chain(g, op)
                if not chain:
                    return None
                for pl in chain:
                    if pl[1] and pl[1][0][0] == "field" and g.single_def(pl[0]) and g.single_def(pl[0])[3].get("akind") == "tuple":
                        return pl[1][0][1]
                return None
            order = [from_which(a) for a in nw[0][1]["args"]]
            zero = any(rv["k"] == "aggregate" and rv.get("variant") == "Zero" for _, _, _, rv, _ in g.assigns())
            ok = somes >= 2 and order == [0, 1] and zero
        chk.ob("C03.a", "Projection::from_shapes/both-shapes-nonzero-then-new(from,to)", ok, g.loc(), "Projection::new(from, to) is reached only when both shapes convert to counts; otherwise ProjectionError::Zero")
    h = chk.fn(COUNT + "::try_from_shape")
    if h is not None:
        cs = [t for b, t in h.calls() if (t["callee"].get("path") or "") == "core::num::<impl usize>::checked_sub"]
        ok = len(cs) == 1 and const_val(cs[0]["args"][1]) == 1 and an.try_branch_of(h, [b for b, t in h.calls() if t is cs[0]][0]) is not None
        upd = an.each_element_update(chk.prog, h)
        whole = upd is not None and upd["kind"] == "loop" and [a for a in upd["adaptors"] if a not in ("into_iter", "deref_mut")] == ["iter_mut"]
        chk.ob("C03.a", "Count::try_from_shape/zero-axis->None", ok and whole, h.loc(), "every axis length n becomes n.checked_sub(1)?: a zero-length axis rejects the shape (per element over the whole vector=%s)" % whole)


def c03b(chk):
    prog = chk.prog
    f = chk.fn(SP + "project")
    if f is None:
        return
    fs = an.calls(f, PROJ + "Projection::from_shapes")
    fz = an.calls(f, SCS + "from_zeros")
    pu = an.calls(f, PROJ + "Projection::project_unchecked")
    iw = an.calls(f, PROJ + "Projected::<'a>::into_weighted")
    au = an.calls(f, PROJ + "Projected::<'a>::add_unchecked")
    nx = [(b, t) for b, t in f.calls() if callee_is(t["callee"], N.ITER_NEXT)]
    if not (len(fs) == len(fz) == len(pu) == len(iw) == len(au) == len(nx) == 1):
        chk.fail("C03.b", "Spectrum::project/shape", f.loc(), "expected one each of from_shapes, from_zeros, project_unchecked, into_weighted, add_unchecked, next")
        return
    tb = an.try_branch_of(f, fs[0][0])
    chk.ob("C03.b", "project/validation-first", tb is not None and all(an.dominated_by_edge(f, tb[1], tb[2], b) for b in (fz[0][0], pu[0][0], nx[0][0])), f.loc(fs[0][0]),
           "Projection::from_shapes(..)? succeeds before the result is allocated and before any cell is projected")
    # from_shapes(self.shape, target): roles
    s0, i0 = f.slice_locals(fs[0][1]["args"][0])
    s1, i1 = f.slice_locals(fs[0][1]["args"][1])
    from_self = any(callee_is(x[1]["callee"], SP + "shape") for x in i0["calls"])
    to_param = 2 in s1 or any(callee_is(x[1]["callee"], "core::convert::Into::into") for x in i1["calls"])
    chk.ob("C03.b", "project/from_shapes(self.shape, target)", from_self and to_param and not any(callee_is(x[1]["callee"], SP + "shape") for x in i1["calls"]), f.loc(fs[0][0]),
           "source shape is self's, target shape is the argument (not swapped)")
    # result allocated with the target shape, zero
    sz, iz = f.slice_locals(fz[0][1]["args"][0])
    chk.ob("C03.b", "project/result=from_zeros(target)", not any(callee_is(x[1]["callee"], SP + "shape") for x in iz["calls"]), f.loc(fz[0][0]), "the accumulator has the target shape and starts at zero")
    # iteration: zip(self.array.iter(), self.array.iter_indices().map(Count)), nothing else
    itl = op_local(nx[0][1]["args"][0])
    itp = f.resolve_ptr(itl) if itl is not None else None
    ad, info = adaptors_of(f, {"k": "copy", "place": {"l": itp[0], "p": []}} if itp else nx[0][1]["args"][0], nx[0][0])
    ok_iter = sorted(ad) == ["into_iter", "iter", "iter_indices", "map", "zip"]
    zips = [x for x in info["calls"] if callee_is(x[1]["callee"], N.ZIP)]
    pair_ok = False
    if len(zips) == 1:
        a0, i0_ = adaptors_of(f, zips[0][1]["args"][0])
        a1, i1_ = adaptors_of(f, zips[0][1]["args"][1])
        pair_ok = a0 == ["iter"] and sorted(a1) == ["iter_indices", "map"] and ("sfs_core::spectrum::Spectrum", "array") in i0_["fields"] and ("sfs_core::spectrum::Spectrum", "array") in i1_["fields"]
    chk.ob("C03.b", "project/walks-every-(value,index)-pair-in-order", ok_iter and pair_ok, f.loc(nx[0][0]),
           "the loop zips self.array.iter() with self.array.iter_indices() (both row-major over the same array), no skip/filter/rev (adaptors %s)" % ad)
    # loop body unconditional
    sws = an.switches_on_call_result(f, nx[0][0])
    next_sw = sws[0][0] if sws else None
    allowed = {next_sw, tb[1] if tb else None}
    extra = [f.loc(b) for b in only_structural_switches(f, allowed) if f.term(b)["k"] == "switch" and not _is_dropflag_switch(f, b)]
    chk.ob("C03.b", "project/every-cell-projected(no-conditional-skip)", not extra and next_sw is not None, f.loc(nx[0][0]),
           "no branch inside the loop: every source cell, whatever its value, is projected (extra branches at %s)" % (extra or "none"))
    # per-iteration chain and operand roles
    some_t = an.edge_target(f.term(next_sw), 1) if next_sw is not None else None
    body = an.arm_region(f, next_sw, some_t) if next_sw is not None else set()
    chain_ok = all(b in body for b in (pu[0][0], iw[0][0], au[0][0])) and f.dominates(pu[0][0], iw[0][0]) and f.dominates(iw[0][0], au[0][0])
    item = an.call_dest_local(nx[0][1])
    def item_field(op):
        sl, info_ = f.slice_locals(op, through_calls=False)
        out = set()
        for l in sl:
            for d in f.defs.get(l, []):
                if d[0] == "assign" and d[3]["k"] in ("use", "ref"):
                    p = op_place(d[3]["op"]) if d[3]["k"] == "use" else P(d[3]["place"])
                    if p and p[0] == item:
                        fl = [e[1] for e in p[1] if e[0] == "field"]
                        if len(fl) >= 2:
                            out.add(fl[1])
        return out
    idx_role = item_field(pu[0][1]["args"][1]) == {1}
    w_role = item_field(iw[0][1]["args"][1]) == {0}
    recv_ok = op_local(iw[0][1]["args"][0]) is not None and f.copy_root(op_local(iw[0][1]["args"][0])) == an.call_dest_local(pu[0][1]) and \
        op_local(au[0][1]["args"][0]) is not None and f.copy_root(op_local(au[0][1]["args"][0])) == an.call_dest_local(iw[0][1])
    tgt = an.arg_pointee(f, au[0][1], 1)
    acc_ok = tgt is not None and tgt[0] == an.call_dest_local(fz[0][1])
    chk.ob("C03.b", "project/per-cell: project_unchecked(index).into_weighted(value).add_unchecked(result)", chain_ok and idx_role and w_role and recv_ok and acc_ok, f.loc(pu[0][0]),
           "chain in order=%s, index is the zipped index=%s, weight is the zipped value=%s, each step consumes the previous result=%s, accumulates into the zero result=%s" % (chain_ok, idx_role, w_role, recv_ok, acc_ok))
    # return value is the accumulator
    isu = an.calls(f, SP + "into_state_unchecked")
    ok = len(isu) == 1 and op_local(isu[0][1]["args"][0]) is not None and f.copy_root(op_local(isu[0][1]["args"][0])) == an.call_dest_local(fz[0][1]) and an.dominated_by_edge(f, next_sw, an.edge_target(f.term(next_sw), 0), isu[0][0])
    chk.ob("C03.b", "project/returns-accumulator-after-loop", ok, f.loc(), "Ok(result) is built from the accumulator once the iterator is exhausted")
    pj = chk.fn(PROJ + "Projection::project_unchecked")
    if pj is not None:
        chk.ob("C03.b", "Projection::project_unchecked/forwards-(project_from, from)", len(an.calls(pj, PROJ + "PartialProjection::project_unchecked")) == 1, pj.loc(), "checked in detail by C02.b", nontrivial=False)


def _is_dropflag_switch(f, b):
    """switches on compiler-generated drop flags (bool locals only ever assigned constants)"""
    t = f.term(b)
    l = op_local(t["discr"])
    if l is None:
        return False
    defs = f.defs.get(l, [])
    return bool(defs) and all(d[0] == "assign" and d[3]["k"] == "use" and isinstance(const_val(d[3]["op"]), bool) for d in defs)


def c03c(chk):
    prog = chk.prog
    f = chk.fn(PROJ + "Projected::<'a>::add_unchecked")
    if f is not None:
        upd = an.each_element_update(prog, f)
        ok = False
        why = "for_each not recognised"
        if upd is not None and upd["kind"] == "for_each":
            ad = [a for a in upd["adaptors"]]
            whole = sorted(ad) == ["inner_mut", "iter_mut", "zip"]
            cl = upd["closure"]
            st = None
            if cl is not None:
                chk.fns_analysed.add(cl.path)
                # closure param 2 = (to: &mut f64, projected: f64); store (*to) = (*to) + projected * weight
                def reads_cell(op, cell):
                    p_ = op_place(op)
                    if p_ == cell:
                        return True
                    l_ = op_local(op)
                    d_ = cl.single_def(cl.copy_root(l_)) if l_ is not None else None
                    return bool(d_ and d_[0] == "assign" and d_[3]["k"] == "use" and op_place(d_[3]["op"]) == cell)
                for b2, i2, p2, rv2, s2 in cl.assigns():
                    if p2[1] == (("deref",),) and rv2["k"] == "binop" and rv2["op"] == "Add":
                        for cell_op, mul_op in ((rv2["l"], rv2["r"]), (rv2["r"], rv2["l"])):
                            if not reads_cell(cell_op, p2):
                                continue
                            ml = op_local(mul_op)
                            md = cl.single_def(cl.copy_root(ml)) if ml is not None else None
                            if not (md and md[0] == "assign" and md[3]["k"] == "binop" and md[3]["op"] == "Mul"):
                                continue
                            sl_a, ia = cl.slice_locals(md[3]["l"], through_calls=False)
                            sl_b, ib = cl.slice_locals(md[3]["r"], through_calls=False)
                            caps = an.closure_captures(f, cl.path) or []
                            cap_w = any(c is not None and an.owned_self_field(c) == "weight" for c in caps)
                            uses = (2 in sl_a and 1 in sl_b) or (1 in sl_a and 2 in sl_b)
                            st = uses and cap_w
            ok = whole and bool(st) and upd["unconditional"]
            why = "every cell of the target (zip of to.iter_mut() with the projection iterator)=%s, cell = cell + projected * self.weight=%s, unconditional=%s" % (whole, bool(st), upd["unconditional"])
        chk.ob("C03.c", "Projected::add_unchecked/cell+=projected*weight", ok, f.loc(), why)
    g = chk.fn(PROJ + "Projected::<'a>::into_weighted")
    if g is not None:
        w = [(an.owned_self_field(g.canon(p)), rv) for b, i, p, rv, s in g.assigns() if an.owned_self_field(g.canon(p))]
        ok = len(w) == 1 and w[0][0] == "weight" and w[0][1]["k"] == "use" and op_local(w[0][1]["op"]) is not None and g.copy_root(op_local(w[0][1]["op"])) == 2 and not list(g.calls())
        chk.ob("C03.c", "Projected::into_weighted/sets-weight-only", ok, g.loc(), "into_weighted(w) stores w in self.weight and changes nothing else")
    v = chk.fn("sfs::view::View::run")
    if v is not None:
        pc = an.calls(v, SP + "project")
        chk.ob("C03.c", "view/--project->Spectrum::project", len(pc) == 1, v.loc(), "the CLI projects through Spectrum::project (order and options: C13)", nontrivial=False)


# ====================================================================================
# C04
# ====================================================================================
MARG = SP + "marginalize"
MARG_U = SP + "marginalize_unchecked"
MARG_ERR = "sfs_core::spectrum::MarginalizationError"


def check_C04(chk):
    chk.explanation = (
        "NARROW claim.  Decided: (a) the three rejections (duplicate, out-of-range, too many axes) dominate both calls of marginalize_unchecked, "
        "with the duplicate test looking at every later position and the range/too-many tests using `>=` against dimensions(); (b) unsorted axis "
        "lists are sorted (a sorted copy) before use, sortedness is tested on every adjacent pair; (c) marginalize_unchecked removes the axes "
        "in the given ascending order, renumbering each as original - (number already removed), one marginalize_axis per axis; (d) Array::sum "
        "folds every view of the axis into a zero array whose shape is the remaining axes in their original order, adding element-wise; "
        "(e) the CLI hands --marginalize-remove through untouched and converts --marginalize-keep to the complement (C13.d).")
    chk.not_decided = "that the strided views select the right elements and that the sums are the array sums for all shapes (index arithmetic over values)"
    c04a(chk)
    c04c(chk)
    c04d(chk)
    c04e(chk)
    for r, n in (("C04.a", 6), ("C04.c", 4), ("C04.d", 5), ("C04.e", 3)):
        chk.floor(r, n)


def c04a(chk):
    prog = chk.prog
    f = chk.fn(MARG)
    if f is None:
        return
    mu = an.calls(f, MARG_U)
    if len(mu) != 2:
        chk.fail("C04.a", "marginalize/two-unchecked-calls", f.loc(), "expected the sorted and the unsorted call of marginalize_unchecked, found %d" % len(mu))
        return
    errs = {}
    for b, i, p, rv, s in f.assigns():
        if rv["k"] == "aggregate" and rv.get("adt") == MARG_ERR:
            errs[rv["variant"]] = b
    chk.ob("C04.a", "marginalize/three-rejections", sorted(errs) == ["AxisOutOfBounds", "DuplicateAxis", "TooManyAxes"], f.loc(), "rejections constructed: %s" % sorted(errs))
    # each rejection's guard edge (the edge NOT leading to the error) dominates both unchecked calls
    for name, eb in sorted(errs.items()):
        ok = False
        guard = None
        for sb, st in f.switches():
            for tgt in set(f.succ.get(sb, [])):
                if an.dominated_by_edge(f, sb, tgt, eb):
                    others = [x for x in f.succ.get(sb, []) if x != tgt and f.term(x)["k"] != "unreachable"]
                    if len(others) == 1 and all(an.dominated_by_edge(f, sb, others[0], mb) for mb, _ in mu):
                        ok = True
                        guard = sb
        chk.ob("C04.a", "marginalize/%s-guards-both-unchecked-calls" % name, ok, f.loc(eb), "marginalize_unchecked is only reached on the edge where the %s test passed" % name)
    # the tests themselves
    cls = {c.path: c for c in prog.closures_of(MARG)}
    # duplicate: find_map over enumerate; closure: axes.get(i + 1..) ... contains(axis)
    dup_ok = False
    oob_ok = False
    sorted_ok = False
    for c in cls.values():
        chk.fns_analysed.add(c.path)
        names = [callee_name(t["callee"]).split("::")[-1] for b, t in c.calls()]
        sub = [callee_name(t["callee"]).split("::")[-1] for c2 in prog.fn_list if c2.path.startswith(c.path + "::{closure") for b, t in c2.calls()]
        if "get" in names and "and_then" in names:
            rf = [rv for _, _, _, rv, _ in c.assigns() if rv["k"] == "aggregate" and rv.get("adt") == "core::ops::range::RangeFrom"]
            plus1 = [rv for _, _, _, rv, _ in c.assigns() if rv["k"] == "binop" and rv["op"].startswith("Add") and const_val(rv["r"]) == 1]
            dup_ok = len(rf) == 1 and len(plus1) == 1 and "contains" in sub
        ge = [rv for _, _, _, rv, _ in c.assigns() if rv["k"] == "binop" and rv["op"] == "Ge"]
        if ge and any(callee_is(t["callee"], SP + "dimensions") for b, t in c.calls()):
            oob_ok = len(ge) == 1
        if [rv for _, _, _, rv, _ in c.assigns()] is not None and any(callee_is(t["callee"], "core::cmp::PartialOrd::le") for b, t in c.calls()):
            idx = sorted(e[1] for b, t in c.calls() for a in t["args"] for e in ((c.resolve_ptr(op_local(a)) or (0, ()))[1] if op_local(a) is not None else ()) if e[0] == "constindex")
            sorted_ok = True
    fm = [(b, t) for b, t in f.calls() if callee_is(t["callee"], "core::iter::traits::iterator::Iterator::find_map")]
    dup_iter = False
    if len(fm) == 1:
        ad, info = adaptors_of(f, fm[0][1]["args"][0], fm[0][0])
        dup_iter = sorted(ad) == ["enumerate", "iter"]
    chk.ob("C04.a", "marginalize/duplicate-test=any-later-position", dup_ok and dup_iter, f.loc(), "for every i the tail axes[i+1..] is searched for axes[i] (closure shape=%s, over all positions=%s)" % (dup_ok, dup_iter))
    chk.ob("C04.a", "marginalize/out-of-range-test=axis>=dimensions", oob_ok, f.loc(), "an axis is out of range iff axis.0 >= self.dimensions()")
    too = False
    for sb, st in f.switches():
        s = an.switch_subject(f, sb)
        if s["kind"] == "value" and s["root"] is not None:
            d = f.single_def(s["root"])
            if d and d[0] == "assign" and d[3]["k"] == "binop" and d[3]["op"] == "Ge":
                ds = [f.single_def(f.copy_root(op_local(d[3][x]))) for x in ("l", "r") if op_local(d[3][x]) is not None]
                if len(ds) == 2 and ds[0] and ds[1] and ds[0][0] == "call" and ds[1][0] == "call" and callee_name(ds[0][2]["callee"]).endswith("::len") and callee_is(ds[1][2]["callee"], SP + "dimensions"):
                    too = "TooManyAxes" in errs and an.dominated_by_edge(f, sb, st["otherwise"], errs["TooManyAxes"])
    chk.ob("C04.a", "marginalize/too-many-test=len>=dimensions", too, f.loc(), "removing every axis (axes.len() >= dimensions()) is an error")
    # sortedness: windows(2).all(w[0] <= w[1]); unsorted -> to_vec + sort
    wn = [(b, t) for b, t in f.calls() if callee_is(t["callee"], "core::slice::<impl [T]>::windows")]
    al = [(b, t) for b, t in f.calls() if callee_is(t["callee"], "core::iter::traits::iterator::Iterator::all")]
    st_ok = len(wn) == 1 and const_val(wn[0][1]["args"][1]) == 2 and len(al) == 1 and sorted_ok
    srt = [(b, t) for b, t in f.calls() if callee_is(t["callee"], "alloc::slice::<impl [T]>::sort", "alloc::slice::<impl [T]>::sort_unstable")]
    tv = [(b, t) for b, t in f.calls() if callee_is(t["callee"], "alloc::slice::<impl [T]>::to_vec")]
    route_ok = False
    if len(al) == 1 and len(srt) == 1 and len(tv) == 1:
        for sb, s in an.switches_on_call_result(f, al[0][0]):
            stt = f.term(sb)
            t_true, t_false = stt["otherwise"], an.edge_target(stt, 0)
            direct = [mb for mb, mt in mu if an.dominated_by_edge(f, sb, t_true, mb)]
            viasort = [(mb, mt) for mb, mt in mu if an.dominated_by_edge(f, sb, t_false, mb)]
            if len(direct) == 1 and len(viasort) == 1:
                mb, mt = viasort[0]
                sl, info = f.slice_locals(mt["args"][1])
                uses_sorted = an.call_dest_local(tv[0][1]) in sl and f.dominates(srt[0][0], mb)
                dsl, dinfo = f.slice_locals([mt for mb2, mt in mu if mb2 == direct[0]][0]["args"][1])
                route_ok = uses_sorted and 2 in dsl
    # nothing else rearranges the list: the slice/vector methods used in marginalize are the reviewed ones
    slice_calls = sorted({callee_name(t["callee"]).split("::")[-1] for b, t in f.calls() if callee_name(t["callee"]).startswith(("core::slice::", "alloc::slice::", "alloc::vec::Vec::"))})
    extra_calls = [c for c in slice_calls if c not in ("iter", "len", "windows", "to_vec", "sort", "sort_unstable")]
    route_ok = route_ok and not extra_calls
    chk.ob("C04.a", "marginalize/sorted-or-sorted-copy", st_ok and route_ok, f.loc(),
           "sortedness is tested on every adjacent pair (windows(2).all(w[0] <= w[1]))=%s; a sorted list is used as is, an unsorted one is copied and sorted (ascending, nothing applied afterwards; other slice operations: %s) first=%s" % (st_ok, extra_calls, route_ok))


def c04c(chk):
    prog = chk.prog
    f = chk.fn(MARG_U)
    if f is None:
        return
    fe = an.calls(f, N.FOR_EACH)
    ok = False
    ad = None
    if len(fe) == 1:
        ad, info = adaptors_of(f, fe[0][1]["args"][0], fe[0][0])
        ok = sorted(ad) == ["enumerate", "iter", "map"] and not list(f.switches())
    chk.ob("C04.c", "marginalize_unchecked/axes-in-given-order", ok, f.loc(), "the axes are walked as given (iter().enumerate().map(..).for_each(..)), no re-sorting or reversal (adaptors %s)" % ad)
    c0 = None
    c1 = None
    for c in prog.closures_of(MARG_U):
        chk.fns_analysed.add(c.path)
        if any(rv["k"] == "aggregate" and rv.get("adt") == "sfs_core::array::shape::Axis" for _, _, _, rv, _ in c.assigns()):
            c0 = c
        if an.calls(c, SP + "marginalize_axis"):
            c1 = c
    ok = False
    if c0 is not None:
        subs = [rv for _, _, _, rv, _ in c0.assigns() if rv["k"] == "binop" and rv["op"].startswith("Sub")]
        if len(subs) == 1:
            def fld(op):
                sl, info = c0.slice_locals(op, through_calls=False)
                for l in sl:
                    for d in c0.defs.get(l, []):
                        if d[0] == "assign" and d[3]["k"] == "use":
                            p = op_place(d[3]["op"])
                            if p and p[0] == 2 and p[1] and p[1][0][0] == "field":
                                return p[1][0][1]
                return None
            ok = fld(subs[0]["l"]) == 1 and fld(subs[0]["r"]) == 0 and len([rv for _, _, _, rv, _ in c0.assigns() if rv["k"] == "binop"]) == 1
    chk.ob("C04.c", "marginalize_unchecked/renumber=original-removed", ok, c0.loc() if c0 else f.loc(), "the k-th axis removed is Axis(original.0 - k) with k the enumerate index")
    ok = False
    if c1 is not None:
        ma = an.calls(c1, SP + "marginalize_axis")
        st = [p for b, i, p, rv, s in c1.assigns() if p[1] == (("deref",),) and rv["k"] == "use" and op_local(rv["op"]) == an.call_dest_local(ma[0][1])]
        ok = len(ma) == 1 and len(st) == 1 and not list(c1.switches())
    chk.ob("C04.c", "marginalize_unchecked/one-marginalize_axis-per-axis", ok, c1.loc() if c1 else f.loc(), "spectrum = spectrum.marginalize_axis(axis) for every axis, unconditionally")
    g = chk.fn(SP + "marginalize_axis")
    if g is not None:
        sm = an.calls(g, A + "Array::<f64>::sum")
        ok = len(sm) == 1 and op_local(sm[0][1]["args"][1]) is not None and g.copy_root(op_local(sm[0][1]["args"][1])) == 2 and (an.arg_pointee(g, sm[0][1], 0) or (0, ()))[1][-1:] == (("field", 0, "array", "sfs_core::spectrum::Spectrum"),)
        chk.ob("C04.c", "marginalize_axis=array.sum(axis)", ok, g.loc(), "one axis is removed by summing self.array along it")


def c04d(chk):
    prog = chk.prog
    f = chk.fn(A + "Array::<f64>::sum")
    if f is None:
        return
    ra = an.calls(f, A + "shape::Shape::remove_axis")
    ish = an.calls(f, A + "shape::removed_axis::RemovedAxis::<'a, sfs_core::array::shape::Shape>::into_shape")
    ia = an.calls(f, A + "Array::<T>::iter_axis")
    fz = an.calls(f, A + "Array::<f64>::from_zeros")
    fo = an.calls(f, N.FOLD)
    ok = all(len(x) == 1 for x in (ra, ish, ia, fz, fo)) and not list(f.switches())
    same_axis = ok and all(op_local(t["args"][1]) is not None and f.copy_root(op_local(t["args"][1])) == 2 for t in (ra[0][1], ia[0][1]))
    init_ok = ok and op_local(fo[0][1]["args"][1]) is not None and f.copy_root(op_local(fo[0][1]["args"][1])) == an.call_dest_local(fz[0][1]) and \
        op_local(fz[0][1]["args"][0]) is not None and f.copy_root(op_local(fz[0][1]["args"][0])) == an.call_dest_local(ish[0][1])
    recv_ok = ok and op_local(fo[0][1]["args"][0]) is not None and f.copy_root(op_local(fo[0][1]["args"][0])) == an.call_dest_local(ia[0][1])
    chk.ob("C04.d", "Array::sum/fold(iter_axis(axis), zeros(remaining shape))", ok and same_axis and init_ok and recv_ok, f.loc(),
           "every view of the summed axis is folded into a zero array shaped like the remaining axes (same axis=%s, init=%s, receiver=%s)" % (same_axis, init_ok, recv_ok))
    cl = closure_of_arg(prog, f, fo[0][1], 2) if len(fo) == 1 else None
    ok = False
    if cl is not None:
        chk.fns_analysed.add(cl.path)
        upd = an.each_element_update(prog, cl)
        if upd is not None and upd["kind"] == "for_each":
            ad = sorted(upd["adaptors"])
            c2 = upd["closure"]
            add_ok = False
            if c2 is not None:
                for b2, i2, p2, rv2, s2 in c2.assigns():
                    if p2[1] == (("deref",),) and rv2["k"] == "binop" and rv2["op"] == "Add" and op_place(rv2["l"]) == p2:
                        add_ok = True
                aa = [t for b2, t in c2.calls() if callee_is(t["callee"], N.ADD_ASSIGN)]
                if len(aa) == 1 and len(list(c2.calls())) == 1:
                    def tf(op):
                        sl, info = c2.slice_locals(op, through_calls=False)
                        for l in sl:
                            for d in c2.defs.get(l, []):
                                if d[0] == "assign" and d[3]["k"] == "use":
                                    p = op_place(d[3]["op"])
                                    if p and p[0] == 2 and p[1] and p[1][0][0] == "field":
                                        return p[1][0][1]
                        return None
                    add_ok = tf(aa[0]["args"][0]) == 0 and tf(aa[0]["args"][1]) == 1
            ret_acc = any(p[0] == 0 and rv["k"] == "use" and op_local(rv["op"]) is not None and cl.copy_root(op_local(rv["op"])) == 2 for b, i, p, rv, s in cl.assigns())
            ok = ad == ["iter", "iter_mut", "zip"] and add_ok and ret_acc and upd["unconditional"]
    chk.ob("C04.d", "Array::sum::closure/element-wise-add-of-the-whole-view", ok, cl.loc() if cl else f.loc(), "acc[k] += view[k] for every k (zip of acc.iter_mut() with view.iter()), then the accumulator is returned")
    g = chk.fn(A + "shape::removed_axis::RemovedAxis::<'a, sfs_core::array::shape::Shape>::into_shape")
    if g is not None:
        names = [callee_name(t["callee"]).split("::")[-1] for b, t in g.calls()]
        chk.ob("C04.d", "RemovedAxis::into_shape=iter().copied().collect()", names == ["iter", "copied", "collect"], g.loc(), "the remaining axes keep their order (calls %s)" % names)
    h = chk.fn(A + "shape::removed_axis::RemovedAxis::<'a, T>::iter")
    if h is not None:
        idx = [(t["callee"].get("args") or ["", ""])[1] for b, t in h.calls() if callee_is(t["callee"], N.INDEX)]
        ch = an.calls(h, "core::iter::traits::iterator::Iterator::chain")
        kinds = sorted(("RangeTo" if "RangeTo<" in x else "RangeFrom" if "RangeFrom<" in x else x) for x in idx)
        plus = [rv for _, _, _, rv, _ in h.assigns() if rv["k"] == "binop" and rv["op"].startswith("Add") and 1 in (const_val(rv["l"]), const_val(rv["r"]))]
        ok = kinds == ["RangeFrom", "RangeTo"] and len(ch) == 1 and len(plus) == 1
        # chain order: [..removed] first
        if ok:
            a0, i0 = adaptors_of(h, ch[0][1]["args"][0])
            ok = any("RangeTo<" in " ".join(x[1]["callee"].get("args", [])) for x in i0["calls"])
        chk.ob("C04.d", "RemovedAxis::iter=inner[..r].chain(inner[r+1..])", ok, h.loc(), "the removed axis is skipped and everything else keeps its order")
    it = chk.fn("<sfs_core::array::iter::AxisIter<'a, T> as core::iter::traits::iterator::Iterator>::next")
    if it is not None:
        ga = an.calls(it, A + "Array::<T>::get_axis")
        ok = len(ga) == 1
        if ok:
            s1, i1 = it.slice_locals(ga[0][1]["args"][1], through_calls=False)
            s2, i2 = it.slice_locals(ga[0][1]["args"][2], through_calls=False)
            ok = ("sfs_core::array::iter::AxisIter", "axis") in i1["fields"] and ("sfs_core::array::iter::AxisIter", "index") in i2["fields"]
        chk.ob("C04.d", "AxisIter::next=get_axis(self.axis, self.index)", ok, it.loc(), "the k-th view is position k of the iterated axis (totality / length: C19)")
    fzf = chk.fn(A + "Array::<f64>::from_zeros")
    if fzf is not None:
        fe = an.calls(fzf, A + "Array::<T>::from_element")
        v = const_val(fe[0][1]["args"][0]) if len(fe) == 1 else None
        chk.ob("C04.d", "Array::from_zeros=from_element(0.0)", isinstance(v, dict) and v.get("f") == "0.0", fzf.loc(), "the accumulator starts at 0.0")


def c04e(chk):
    f = chk.fn("sfs::view::View::run")
    if f is None:
        return
    m = an.calls(f, SP + "marginalize")
    ok = False
    why = "marginalize call not found"
    if len(m) == 1:
        tb = an.try_branch_of(f, m[0][0])
        # the axes argument: collect::<Vec<Axis>>(into_iter(list).map(Axis))
        sl, info = f.slice_locals(m[0][1]["args"][1])
        names = sorted({(x[1]["callee"].get("path") or "").split("::")[-1] for x in info["calls"]})
        bad = [n for n in names if n in ("sort", "sort_unstable", "dedup", "rev", "reverse", "retain", "truncate", "skip", "take")]
        axis_map = any(a["k"] == "const" and a.get("fn") == "sfs_core::array::shape::Axis" for x in info["calls"] for a in x[1]["args"])
        ok = tb is not None and not bad and axis_map
        why = "`?`-propagated=%s, axes mapped with Axis(..)=%s, list-modifying calls=%s" % (tb is not None, axis_map, bad)
    chk.ob("C04.e", "view/marginalize(&axes)?", ok, f.loc(), why)
    # remove arm: the list is moved through untouched
    ok = False
    for b, i, p, rv, s in f.assigns():
        if rv["k"] == "use":
            chain = RG.pure_move_chain(f, rv["op"])
            if chain and any(any(e[0] == "field" and e[2] == "remove" for e in pl[1]) for pl in chain):
                # this value reaches into_iter directly
                for b2, t2 in f.calls():
                    if callee_is(t2["callee"], N.INTO_ITER) and op_local(t2["args"][0]) is not None:
                        c2 = RG.pure_move_chain(f, t2["args"][0])
                        if c2 and any(pl == P(s["place"]) or pl[0] == P(s["place"])[0] for pl in c2):
                            ok = True
    chk.ob("C04.e", "view/--marginalize-remove-passed-through", ok, f.loc(), "the remove list reaches marginalize as given: duplicates and out-of-range axes are left for the library to reject")
    import rules_view
    flt = an.calls(f, "core::iter::traits::iterator::Iterator::filter")
    chk.ob("C04.e", "view/--marginalize-keep->complement", len(flt) == 1, f.loc(), "keep is converted by filtering 0..dimensions() (details: C13.d)", nontrivial=False)


# ====================================================================================
# C05
# ====================================================================================
def check_C05(chk):
    chk.explanation = (
        "NARROW claim.  Decided: (a) the CLI fill table (nan/zero/minus-one/inf -> NaN/0.0/-1.0/+inf) and Fold::run = fold().into_spectrum(fill); "
        "(b) into_spectrum replaces exactly the None cells by the fill value, over every cell; (c) from_spectrum is straight-line: T = sum over axes "
        "of (length - 1), mid = T / 2, has_diagonal = (T % 2 == 0), one pass over every flat index i paired with its mirror n-1-i; (d) the per-cell "
        "decision table on (cmp(index-sum(i), mid), has_diagonal): Less or (Equal, no diagonal) -> Some(src[i] + src[mirror]); (Equal, diagonal) -> "
        "Some(0.5 src[i] + 0.5 src[mirror]); Greater -> None; every path stores exactly once, at i.")
    chk.not_decided = "that index-sum and mirror arithmetic are right for all shapes, mass preservation, idempotence, polarity symmetry (values)"
    c05a(chk)
    c05c(chk)
    c05d(chk)
    for r, n in (("C05.a", 6), ("C05.c", 5), ("C05.d", 5)):
        chk.floor(r, n)


def c05a(chk):
    prog = chk.prog
    f = chk.fn("sfs::fold::<impl core::convert::From<sfs::fold::Fill> for f64>::from")
    if f is not None:
        table, sb = an.enum_match_table(f, lambda s: s.get("adt") == "sfs::fold::Fill")
        got = {}
        if table:
            for v, tgt in table.items():
                for b in sorted({tgt} | an.arm_region(f, sb, tgt)):
                    for s in f.stmts(b):
                        if s["k"] == "assign" and P(s["place"])[0] == 0 and s["rv"]["k"] == "use":
                            cv = const_val(s["rv"]["op"])
                            if isinstance(cv, dict):
                                got[v] = cv.get("f")
        want = {"Nan": "NaN", "Zero": "0.0", "MinusOne": "-1.0", "Inf": "inf"}
        for v in sorted(set(want) | set(got)):
            chk.ob("C05.a", "Fill::%s->%s" % (v, want.get(v)), got.get(v) == want.get(v), f.loc(), "fill option %s must become %s (found %s)" % (v, want.get(v), got.get(v)))
    g = chk.fn("sfs::fold::Fold::run")
    if g is not None:
        fo = an.calls(g, SP + "fold")
        isp = an.calls(g, FOLDED + "into_spectrum")
        ok = len(fo) == 1 and len(isp) == 1
        if ok:
            sl, info = g.slice_locals(isp[0][1]["args"][1])
            ok = ("sfs::fold::Fold", "fill") in info["fields"] and not info["binops"]
            recv = an.arg_pointee(g, isp[0][1], 0)
            ok = ok and recv is not None and recv[0] == an.call_dest_local(fo[0][1])
        chk.ob("C05.a", "Fold::run=fold().into_spectrum(fill)", ok, g.loc(), "the folded spectrum is filled with the requested value and written")
    h = chk.fn(FOLDED + "into_spectrum")
    if h is not None:
        mp = an.calls(h, N.MAP)
        ok = False
        if len(mp) == 1:
            ad, info = adaptors_of(h, mp[0][1]["args"][0], mp[0][0])
            cl = closure_of_arg(prog, h, mp[0][1], 1)
            uo = cl is not None and [callee_name(t["callee"]) for b, t in cl.calls()] == ["core::option::Option::<T>::unwrap_or"]
            caps = an.closure_captures(h, cl.path) if cl is not None else None
            cap_fill = bool(caps) and any(c is not None and c[0] == 2 for c in caps)
            nu = an.calls(h, A + "Array::<T>::new_unchecked")
            ok = ad == ["iter"] and uo and cap_fill and len(nu) == 1 and not list(h.switches())
        chk.ob("C05.a", "into_spectrum/None->fill-for-every-cell", ok, h.loc(), "data = array.iter().map(|x| x.unwrap_or(fill)): cells that were folded keep their value, all None cells get the fill")


def c05c(chk):
    prog = chk.prog
    f = chk.fn(FOLDED + "from_spectrum")
    if f is None:
        return
    chk.ob("C05.c", "from_spectrum/straight-line", not [b for b, t in f.switches()], f.loc(), "no branch in from_spectrum itself: no shortcut or special case bypasses the fold pass")
    aggs = [b for b, i, p, rv, s in f.assigns() if rv["k"] == "aggregate" and rv.get("adt") == "sfs_core::spectrum::folded::Folded"]
    chk.ob("C05.c", "from_spectrum/one-construction", len(aggs) == 1, f.loc(), "Folded is constructed once, after the pass")
    fe = an.calls(f, N.FOR_EACH)
    ok = False
    why = "for_each over zip(0..n, (0..n).rev()) not recognised"
    if len(fe) == 1:
        ad, info = adaptors_of(f, fe[0][1]["args"][0], fe[0][0])
        rngs = [rv for b, i, p, rv, s in f.assigns() if rv["k"] == "aggregate" and rv.get("adt") == "core::ops::range::Range"]
        el = an.calls(f, SP + "elements")
        n_local = an.call_dest_local(el[0][1]) if len(el) == 1 else None
        full = len(rngs) == 2 and all(const_val(r["ops"][0]) == 0 and op_local(r["ops"][1]) is not None and f.copy_root(op_local(r["ops"][1])) == n_local for r in rngs)
        zips = [x for x in info["calls"] if callee_is(x[1]["callee"], N.ZIP)]
        rev_second = False
        if len(zips) == 1:
            a1, i1 = adaptors_of(f, zips[0][1]["args"][1])
            a0, i0 = adaptors_of(f, zips[0][1]["args"][0])
            rev_second = "rev" in a1 and "rev" not in a0
        ok = sorted(a for a in ad if a != "elements") == ["rev", "zip"] and full and rev_second
        why = "adaptors %s, both ranges are 0..elements()=%s, second is reversed=%s" % (ad, full, rev_second)
    chk.ob("C05.c", "from_spectrum/pass-over-(i, n-1-i)-for-every-i", ok, f.loc(), why)
    # mid = T / 2 ; has_diagonal = T % 2 == 0 ; T from the fold over the shape
    fo = an.calls(f, N.FOLD)
    T = an.call_dest_local(fo[0][1]) if len(fo) == 1 else None
    mid = None
    diag = None
    for b, i, p, rv, s in f.assigns():
        if rv["k"] == "binop" and rv["op"] == "Div" and const_val(rv["r"]) == 2 and op_local(rv["l"]) is not None and f.copy_root(op_local(rv["l"])) == T:
            mid = p[0]
        if rv["k"] == "binop" and rv["op"] == "Eq" and const_val(rv["r"]) == 0:
            l = op_local(rv["l"])
            d = f.single_def(f.copy_root(l)) if l is not None else None
            if d and d[0] == "assign" and d[3]["k"] == "binop" and d[3]["op"] == "Rem" and const_val(d[3]["r"]) == 2 and f.copy_root(op_local(d[3]["l"])) == T:
                diag = p[0]
    chk.ob("C05.c", "from_spectrum/mid=T/2,has_diagonal=T%2==0", T is not None and mid is not None and diag is not None, f.loc(), "the fold line is at half the maximum total count; a diagonal exists iff that total is even")
    # T = sum (len - 1): fold(0, |sum, n| sum + (n - 1)) over the whole shape
    ok = False
    if len(fo) == 1:
        ad, info = adaptors_of(f, fo[0][1]["args"][0], fo[0][0])
        cl = closure_of_arg(prog, f, fo[0][1], 2)
        init0 = const_val(fo[0][1]["args"][1]) == 0
        shape_ok = any(callee_is(x[1]["callee"], SP + "shape") for x in info["calls"]) and not [a for a in ad if a not in ("shape", "deref", "iter")]
        form = False
        if cl is not None:
            chk.fns_analysed.add(cl.path)
            r = _acc_plus_n_minus_1(cl)
            form = r
        ok = init0 and shape_ok and form
    chk.ob("C05.c", "from_spectrum/T=sum(len-1)-over-all-axes", ok, f.loc(), "the maximum total count adds (length - 1) for every axis, starting from 0")
    # captures of the pass closure: spectrum, dst, &mid, &has_diagonal
    if len(fe) == 1:
        cl = closure_of_arg(prog, f, fe[0][1], 1)
        caps = an.closure_captures(f, cl.path) if cl is not None else None
        ok = bool(caps) and mid is not None and diag is not None and [c[0] if c else None for c in caps][2:4] == [mid, diag]
        chk.ob("C05.c", "from_spectrum/pass-sees-mid-and-has_diagonal", ok, f.loc(), "the per-cell decision uses the mid count and the diagonal flag computed above")


def _acc_plus_n_minus_1(cl):
    """closure |acc, &n| acc + (n - 1) in plain or saturating arithmetic"""
    # find the final value
    d0 = cl.defs.get(0, [])
    if len(d0) != 1:
        return False
    def is_acc(op):
        l = op_local(op)
        return l is not None and cl.copy_root(l) == 2
    def is_n_minus_1(op):
        l = op_local(op)
        d = cl.single_def(cl.copy_root(l)) if l is not None else None
        if d is None:
            return False
        if d[0] == "call" and (d[2]["callee"].get("path") or "") in ("core::num::<impl usize>::saturating_sub", "core::num::<impl usize>::wrapping_sub"):
            a = d[2]["args"]
            sl, info = cl.slice_locals(a[0], through_calls=False)
            return 3 in sl and const_val(a[1]) == 1
        if d[0] == "assign":
            rv = d[3]
            if rv["k"] == "use":
                p = op_place(rv["op"])
                if p and p[1] and p[1][0][0] == "field":
                    dd = cl.single_def(p[0])
                    rv = dd[3] if dd and dd[0] == "assign" else rv
            if rv["k"] == "binop" and rv["op"].startswith("Sub"):
                sl, info = cl.slice_locals(rv["l"], through_calls=False)
                return 3 in sl and const_val(rv["r"]) == 1
        return False
    d = d0[0]
    if d[0] == "call" and (d[2]["callee"].get("path") or "") in ("core::num::<impl usize>::saturating_add",):
        a = d[2]["args"]
        return (is_acc(a[0]) and is_n_minus_1(a[1])) or (is_acc(a[1]) and is_n_minus_1(a[0]))
    if d[0] == "assign":
        rv = d[3]
        if rv["k"] == "use":
            p = op_place(rv["op"])
            if p and p[1] and p[1][0][0] == "field":
                dd = cl.single_def(p[0])
                rv = dd[3] if dd and dd[0] == "assign" else rv
        if rv["k"] == "binop" and rv["op"].startswith("Add"):
            return (is_acc(rv["l"]) and is_n_minus_1(rv["r"])) or (is_acc(rv["r"]) and is_n_minus_1(rv["l"]))
    return False


def c05d(chk):
    prog = chk.prog
    f = chk.fn(FOLDED + "from_spectrum")
    if f is None:
        return
    fe = an.calls(f, N.FOR_EACH)
    cl = closure_of_arg(prog, f, fe[0][1], 1) if len(fe) == 1 else None
    if cl is None:
        chk.fail("C05.d", "from_spectrum::pass/closure", f.loc(), "pass closure not found")
        return
    chk.fns_analysed.add(cl.path)
    caps = an.closure_captures(f, cl.path) or []
    # locals: i = _2.0, rev = _2.1 ; src = as_slice(spectrum.array) ; dst = as_mut_slice(capture 1)
    def param_field(l):
        l = cl.copy_root(l)
        d = cl.single_def(l)
        if d and d[0] == "assign" and d[3]["k"] == "use":
            p = op_place(d[3]["op"])
            if p and p[0] == 2 and len(p[1]) == 1 and p[1][0][0] == "field":
                return p[1][0][1]
        return None
    src = [an.call_dest_local(t) for b, t in cl.calls() if callee_is(t["callee"], A + "Array::<T>::as_slice")]
    dst = [an.call_dest_local(t) for b, t in cl.calls() if callee_is(t["callee"], A + "Array::<T>::as_mut_slice")]
    cmpc = [(b, t) for b, t in cl.calls() if callee_is(t["callee"], "core::cmp::Ord::cmp")]
    isum = an.calls(cl, A + "shape::Shape::index_sum_from_flat_unchecked")
    if not (len(src) == len(dst) == len(cmpc) == len(isum) == 1):
        chk.fail("C05.d", "from_spectrum::pass/shape", cl.loc(), "expected one as_slice, as_mut_slice, Ord::cmp and index_sum_from_flat_unchecked")
        return
    # cmp(count, mid): count = index_sum(i)
    a0 = an.arg_pointee(cl, cmpc[0][1], 0)
    a1l = op_local(cmpc[0][1]["args"][1])
    sl1, info1 = cl.slice_locals(cmpc[0][1]["args"][1], through_calls=False)
    def cap_index(sl):
        for l in sl:
            for d in cl.defs.get(l, []):
                if d[0] == "assign" and d[3]["k"] == "use":
                    p = op_place(d[3]["op"])
                    if p and p[0] == 1:
                        fs = [e[1] for e in p[1] if e[0] == "field"]
                        if fs:
                            return fs[0]
        return None
    count_ok = a0 is not None and a0[0] == an.call_dest_local(isum[0][1]) and param_field(op_local(isum[0][1]["args"][1])) == 0
    mid_ok = cap_index(sl1) == 2
    chk.ob("C05.d", "pass/decision=cmp(index_sum(i), mid)", count_ok and mid_ok, cl.loc(), "the total allele count of cell i is compared with the mid count (count=%s, mid capture=%s)" % (count_ok, mid_ok))

    # expression summariser
    def expr(op, depth=0):
        if depth > 12:
            return ("?",)
        c = an.const_of(cl, op)
        if c is not None and isinstance(c.get("val"), dict) and "f" in c["val"]:
            return ("const", c["val"]["f"])
        p = op_place(op)
        if p is None:
            return ("?",)
        l, proj = p
        if len(proj) == 2 and proj[0] == ("deref",) and proj[1][0] == "index" and l in src:
            k = param_field(proj[1][1])
            return ("src", {0: "i", 1: "mirror"}.get(k, "?"))
        if proj:
            return ("?",)
        d = cl.single_def(l)
        if d and d[0] == "assign":
            rv = d[3]
            if rv["k"] == "use":
                return expr(rv["op"], depth + 1)
            if rv["k"] == "binop" and rv["op"] in ("Add", "Mul", "Sub", "Div"):
                return (rv["op"], expr(rv["l"], depth + 1), expr(rv["r"], depth + 1))
            if rv["k"] == "aggregate" and rv.get("adt") == "core::option::Option":
                return (rv["variant"],) + tuple(expr(o, depth + 1) for o in rv["ops"])
        return ("?",)

    def norm(e):
        if e[0] in ("Add", "Mul"):
            return (e[0],) + tuple(sorted((norm(x) for x in e[1:]), key=repr))
        if e[0] in ("Some",):
            return (e[0],) + tuple(norm(x) for x in e[1:])
        return e
    SUM = norm(("Some", ("Add", ("src", "i"), ("src", "mirror"))))
    AVG = norm(("Some", ("Add", ("Mul", ("const", "0.5"), ("src", "i")), ("Mul", ("const", "0.5"), ("src", "mirror")))))
    # stores
    stores = []
    for b, i, p, rv, s in cl.assigns():
        if p[0] in dst and len(p[1]) == 2 and p[1][0] == ("deref",) and p[1][1][0] == "index":
            at = param_field(p[1][1][1])
            val = norm(expr(rv["op"])) if rv["k"] == "use" else ("?",)
            stores.append((b, at, val))
    chk.ob("C05.d", "pass/stores-at-i", len(stores) >= 3 and all(at == 0 for b, at, v in stores), cl.loc(), "every store goes to dst[i] (targets: %s)" % [at for b, at, v in stores])
    # decision switches
    osw = None
    dsw = None
    for sb, st in cl.switches():
        s = an.switch_subject(cl, sb)
        if s["kind"] == "discr" and s.get("adt") == "core::cmp::Ordering":
            osw = (sb, st, s)
        elif s["kind"] == "value":
            sl, info = cl.slice_locals(st["discr"], through_calls=False)
            if cap_index(sl) == 3:
                dsw = (sb, st)
    if osw is None or dsw is None:
        chk.fail("C05.d", "pass/decision-switches", cl.loc(), "switches on the Ordering and on has_diagonal not recognised")
        return
    sb, st, s = osw
    vmap = {nm: an.edge_target(st, val) for val, nm in s["variants"].items()}
    db, dt = dsw
    d_true, d_false = dt["otherwise"], an.edge_target(dt, 0)

    def value_on(edges):
        """the value stored on the path satisfying all (switch, target) edges; None if not exactly one store"""
        cands = [v for b, at, v in stores if all(an.dominated_by_edge(cl, e0, e1, b) or _reach_only_via(cl, e0, e1, b) for e0, e1 in edges)]
        return cands
    table = {
        "Less": [v for b, at, v in stores if _on_edge(cl, sb, vmap["Less"], b) and not _on_edge(cl, db, d_true, b) or (_on_edge(cl, sb, vmap["Less"], b))],
    }
    # evaluate each case by path: simulate the two switches
    def store_for(order, diag):
        cur = vmap[order]
        seen = 0
        while seen < 20:
            seen += 1
            hit = [v for b, at, v in stores if b == cur]
            if hit:
                return hit[0]
            t = cl.term(cur)
            if t["k"] == "switch":
                if cur == db:
                    cur = d_true if diag else d_false
                else:
                    return None
            elif t["k"] in ("goto", "assert", "call", "drop") and t.get("target") is not None:
                cur = t["target"]
            else:
                return None
        return None
    want = {("Less", True): SUM, ("Less", False): SUM, ("Equal", False): SUM, ("Equal", True): AVG, ("Greater", True): ("None",), ("Greater", False): ("None",)}
    got = {k: store_for(*k) for k in want}
    for k in sorted(want):
        chk.ob("C05.d", "pass/table(%s,diag=%s)" % k, got[k] == want[k], cl.loc(),
               "cell below the fold line -> src[i] + src[mirror]; on an existing diagonal -> 0.5 src[i] + 0.5 src[mirror]; above -> None (found %s)" % (got[k],))
    # exactly one store on every path: stores are in distinct arms and the closure has no other switch
    others = [b for b, t in cl.switches() if b not in (sb, db)]
    chk.ob("C05.d", "pass/no-other-branch", not others, cl.loc(), "the only branches are the two of the decision table (no value-dependent shortcut such as skipping zero pairs): extra at %s" % [cl.loc(b) for b in others])


def _on_edge(f, sb, tgt, b):
    return an.dominated_by_edge(f, sb, tgt, b)


def _reach_only_via(f, sb, tgt, b):
    return False
