#!/bin/bash
# Build the fact extractor (offline, nightly, zero cargo deps) and warm the dependency metadata cache.
set -e
cd "$(dirname "$0")/sfsmir"
CARGO_NET_OFFLINE=true cargo build --release --offline 2>&1 | tail -3
cd ../..
python3 engine/sfsverif/main.py --warm 2>/dev/null || true
