#!/usr/bin/env python3
"""Automatic one-token mutants of /repo, to find clauses no rule looks at (a measurement aid, not a registered check).

  automut.py gen                     -> /tmp/automut/mutants.json (every candidate: file, line, column, old, new)
  automut.py run <worker> <nworkers> -> evaluates its share: compile + pinned tests in a private scratch copy (own target dir); a mutant the
                                        tests do not kill is evaluated by all 19 checks; results appended to /tmp/automut/results.<worker>.jsonl
  automut.py report                  -> summary + the surviving mutants (tests pass, no check reports them), for triage

Scratch copies live under /tmp/automut/w<k> and are removed by `automut.py clean`."""
import os, re, sys, json, subprocess, shutil, time

VERIF = os.path.dirname(os.path.dirname(os.path.abspath(__file__)))
REPO = "/repo"
ROOT = "/tmp/automut"
PROPS = ["C%02d" % i for i in range(1, 20)]

OPS = [
    (r"(?<![<>=!+\-*/&|])<=(?![=>])", ["<"]), (r"(?<![<>=!\-&|])<(?![<=:>A-Za-z_(\[&'])", ["<="]),
    (r"(?<![<>=!\-])>=(?!=)", [">"]), (r"(?<![<>=!\-=:A-Za-z_)\]'])\s>(?![>=])", [" >="]),
    (r"==", ["!="]), (r"!=", ["=="]),
    (r"&&", ["||"]), (r"\|\|(?!\s*\{)", ["&&"]),
    (r"(?<![+\-=(,\[<>e])\s\+\s(?!=)", [" - "]), (r"(?<![+\-=(,\[<>e])\s-\s(?![=>])", [" + "]),
    (r"(?<![*/])\s\*\s(?!=)", [" / "]), (r"\s/\s(?![=/])", [" * "]),
    (r"\+=", ["-="]), (r"-=", ["+="]),
    (r"\b0\b(?![.\w])", ["1"]), (r"\b1\b(?![.\w])", ["0", "2"]), (r"\b2\b(?![.\w])", ["1", "3"]),
    (r"\b1\.0\b", ["0.0"]), (r"\b0\.0\b", ["1.0"]), (r"\b1\.(?=[^\d])", ["2."]), (r"\b0\.(?=[^\d.])", ["1."]),
    (r"\btrue\b", ["false"]), (r"\bfalse\b", ["true"]),
    (r"\.skip\(1\)", [".skip(0)", ".skip(2)"]), (r"\.rev\(\)", [""]), (r"\.min\(", [".max("]), (r"\.max\(", [".min("]),
    (r"\bis_empty\(\)", ["is_empty() == false"]), (r"!(?=[a-z_(])", [""]),
    (r"\.first\(\)", [".last()"]), (r"\.last\(\)", [".first()"]), (r"first_mut\(\)", ["last_mut()"]), (r"last_mut\(\)", ["first_mut()"]),
    (r"\bSome\((\w+)\)\s=>\s", None),
]
# second wave (ids continue after the first): off-by-one deletions, swapped arguments, dropped error propagation, loop control, orderings
OPS2 = [
    (r"\s[-+]\s1\b(?![.\w])", [""]),
    (r"\((\w+), (\w+)\)", "swap"),
    (r"\.take\(([^()]+)\)", "take+1"),
    (r"\bbreak\b", ["continue"]), (r"\bcontinue\b", ["break"]),
    (r"Ordering::Less", ["Ordering::Greater"]), (r"Ordering::Greater", ["Ordering::Less"]),
    (r"\.iter\(\)(?=\s*$|\.zip|\.enumerate|\.map)", [".iter().rev()"]),
    (r"\bwrite_all\b", ["write"]), (r"\bread_exact\b", ["read"]),
    (r"\.unwrap_or\(None\)", [".unwrap_or(None).or(None)"]),
]
# third wave: negated conditions, dropped early error returns, weaker arithmetic helpers, swapped Option/Result constructors
OPS3 = [
    (r"\bif\s+(?!let\b)([^{}]+?)\s\{", "negate"),
    (r"\bchecked_sub\(1\)", ["checked_sub(0)"]), (r"\bsaturating_sub\(", ["wrapping_sub("]), (r"\bchecked_sub\(", ["wrapping_sub("]),
    (r"\.then_some\(", [".then(|| "]),
    (r"\bSome\(([a-z_][\w.]*)\)(?=\s*$|,|\))", ["None"]),
    (r"\.is_some\(\)", [".is_none()"]), (r"\.is_none\(\)", [".is_some()"]), (r"\.is_ok\(\)", [".is_err()"]),
    (r"\.all\(", [".any("]), (r"\.any\(", [".all("]),
    (r"\.find\(", [".rfind("]), (r"\.position\(", [".rposition("]),
    (r"\.windows\(2\)", [".chunks(2)"]), (r"\.sort\(\)", [".reverse()"]),
    (r"\bu64\b", ["u32"]),
]
RET_ERR = re.compile(r"^(\s*)return Err\(.*\);\s*$")
DROP_Q = re.compile(r"^(\s*)([^=\n]*\S)\?;\s*$")
STMT_DELETE = re.compile(r"^\s*(self\.[\w.]+\([^;]*\)|[\w.]+\.(sort|sort_unstable|clear|set_zero|reset|normalize|push|truncate|flush)\([^;]*\));\s*$")


def code_lines(path):
    """(lineno, text) of lines that are code outside `#[cfg(test)]` modules"""
    out = []
    in_tests = False
    depth_at = None
    depth = 0
    for i, l in enumerate(open(path).read().split("\n"), 1):
        st = l.strip()
        if st.startswith("#[cfg(test)]"):
            in_tests = True
            depth_at = None
        if in_tests:
            if depth_at is None and "{" in l and ("mod " in l):
                depth_at = depth
            depth += l.count("{") - l.count("}")
            if depth_at is not None and depth <= depth_at:
                in_tests = False
            continue
        depth += l.count("{") - l.count("}")
        if not st or st.startswith(("//", "#[", "#!", "use ", "pub use ", "mod ", "pub mod ", "///", "//!")):
            continue
        out.append((i, l))
    return out


def in_string(line, col):
    return line[:col].count('"') % 2 == 1


def gen():
    muts = []
    muts2 = []
    muts3 = []
    files = []
    for base in ("core/src", "cli/src"):
        for dp, dn, fn in os.walk(os.path.join(REPO, base)):
            for f in fn:
                if f.endswith(".rs"):
                    files.append(os.path.relpath(os.path.join(dp, f), REPO))
    for rel in sorted(files):
        if rel.endswith(("approx.rs", "lib.rs")) or "/tests" in rel:
            continue
        for ln, text in code_lines(os.path.join(REPO, rel)):
            code = text.split("//")[0]
            if "log::" in code or "anyhow!(" in code or "write!(" in code and '"' in code and "{" in code.split('"')[1] if '"' in code else False:
                pass
            for pat, reps in OPS:
                if reps is None:
                    continue
                for m in re.finditer(pat, code):
                    if in_string(code, m.start()):
                        continue
                    for r in reps:
                        new = code[:m.start()] + r + code[m.end():] + text[len(code):]
                        if new != text:
                            muts.append({"file": rel, "line": ln, "col": m.start(), "old": text, "new": new, "op": "%s -> %s" % (m.group(0).strip(), r.strip())})
            if STMT_DELETE.match(code):
                muts.append({"file": rel, "line": ln, "col": 0, "old": text, "new": re.sub(r"\S.*$", "();", text, count=1), "op": "delete statement"})
            if os.environ.get("AUTOMUT_WAVE") == "3":
                for pat, reps in OPS3:
                    for m in re.finditer(pat, code):
                        if in_string(code, m.start()):
                            continue
                        if reps == "negate":
                            rr = ["if !(%s) {" % m.group(1)]
                        else:
                            rr = reps
                        for r in rr:
                            new = code[:m.start()] + r + code[m.end():] + text[len(code):]
                            if r.startswith(".then(|| "):
                                pass
                            if new != text:
                                muts3.append({"file": rel, "line": ln, "col": m.start(), "old": text, "new": new, "op": "%s -> %s" % (m.group(0).strip()[:40], r.strip()[:40])})
                if RET_ERR.match(code) and code.count("(") == code.count(")"):
                    muts3.append({"file": rel, "line": ln, "col": 0, "old": text, "new": re.sub(r"\S.*$", "();", text, count=1), "op": "drop `return Err(..)`"})
            if os.environ.get("AUTOMUT_WAVE") == "2":
                for pat, reps in OPS2:
                    for m in re.finditer(pat, code):
                        if in_string(code, m.start()):
                            continue
                        if reps == "swap":
                            if m.group(1) == m.group(2) or m.group(1) in ("self", "mut") or m.group(2) in ("self",):
                                continue
                            rr = ["(%s, %s)" % (m.group(2), m.group(1))]
                        elif reps == "take+1":
                            rr = [".take(%s + 1)" % m.group(1)]
                        else:
                            rr = reps
                        for r in rr:
                            new = code[:m.start()] + r + code[m.end():] + text[len(code):]
                            if new != text:
                                muts2.append({"file": rel, "line": ln, "col": m.start(), "old": text, "new": new, "op": "%s -> %s" % (m.group(0).strip(), r.strip())})
                mq = DROP_Q.match(code)
                if mq and "let " not in code and "return" not in code:
                    muts2.append({"file": rel, "line": ln, "col": 0, "old": text, "new": "%slet _ = %s;" % (mq.group(1), mq.group(2)), "op": "drop `?`"})
    os.makedirs(ROOT, exist_ok=True)
    if os.environ.get("AUTOMUT_WAVE") == "3":
        prev = json.load(open(os.path.join(ROOT, "mutants.json"))) if os.path.exists(os.path.join(ROOT, "mutants.json")) else []
        base = max([m["id"] for m in prev] + [-1]) + 1
        for i, m in enumerate(muts3):
            m["id"] = base + i
        json.dump(prev + muts3, open(os.path.join(ROOT, "mutants.json"), "w"))
        print("wave 3: %d new mutants (ids %d..%d)" % (len(muts3), base, base + len(muts3) - 1))
        return
    muts = muts + muts2
    for i, m in enumerate(muts):
        m["id"] = i
    json.dump(muts, open(os.path.join(ROOT, "mutants.json"), "w"))
    byf = {}
    for m in muts:
        byf[m["file"]] = byf.get(m["file"], 0) + 1
    print("%d mutants in %d files" % (len(muts), len(byf)))
    for f, n in sorted(byf.items(), key=lambda x: -x[1])[:50]:
        print("  %4d %s" % (n, f))


def sh(cmd, cwd=None, timeout=600, env=None):
    try:
        r = subprocess.run(cmd, shell=True, cwd=cwd, stdout=subprocess.PIPE, stderr=subprocess.STDOUT, text=True, timeout=timeout, env=env)
        return r.returncode, r.stdout
    except subprocess.TimeoutExpired:
        return 124, "TIMEOUT"


def run(worker, nworkers, only=None):
    muts = json.load(open(os.path.join(ROOT, "mutants.json")))
    mine = [m for m in muts if m["id"] % nworkers == worker and (only is None or m["id"] in only)]
    wd = os.path.join(ROOT, "w%d" % worker)
    if not os.path.isdir(wd):
        os.makedirs(wd)
        sh("rsync -a --exclude .git %s/ %s/" % (REPO, wd))
    done = set()
    resf = os.path.join(ROOT, "results.%d.jsonl" % worker)
    if os.path.exists(resf):
        for l in open(resf):
            try:
                done.add(json.loads(l)["id"])
            except Exception:
                pass
    env = dict(os.environ, CARGO_NET_OFFLINE="true", SFS_ALLOW_STDIN="1")
    for m in mine:
        if m["id"] in done:
            continue
        fp = os.path.join(wd, m["file"])
        src = open(os.path.join(REPO, m["file"])).read()
        lines = src.split("\n")
        if lines[m["line"] - 1] != m["old"]:
            continue
        lines[m["line"] - 1] = m["new"]
        open(fp, "w").write("\n".join(lines))
        t0 = time.time()
        res = {"id": m["id"], "file": m["file"], "line": m["line"], "op": m["op"], "new": m["new"].strip()}
        rc, out = sh("cargo test --workspace --no-fail-fast --offline 2>&1 | grep -E '^test result|FAILED|panicked|could not compile|^error' | head -20", cwd=wd, timeout=420, env=env)
        if "could not compile" in out or re.search(r"^error", out, re.M):
            res["outcome"] = "compile-error"
        elif rc == 124 or out == "TIMEOUT":
            res["outcome"] = "timeout"
        else:
            passed = sum(int(l.split("ok. ")[1].split(" passed")[0]) for l in out.splitlines() if l.startswith("test result: ok."))
            if "FAILED" in out or passed < 90:
                res["outcome"] = "killed-by-tests"
            else:
                res["outcome"] = "tests-pass"
        if res["outcome"] == "tests-pass":
            caught = {}
            tmp = os.path.join(ROOT, "chk%d" % worker)
            shutil.rmtree(tmp, ignore_errors=True)
            cenv = dict(os.environ, VERIF_EVIDENCE_DIR=os.path.join(tmp, "evidence"), VERIF_OUT_DIR=os.path.join(tmp, "out"))
            scratch = os.path.join(tmp, "repo")
            os.makedirs(tmp)
            sh("rsync -a --exclude target --exclude .git %s/ %s/" % (wd, scratch))
            for pid in PROPS:
                r2 = subprocess.run([sys.executable, os.path.join(VERIF, "engine", "sfsverif", "main.py"), pid, "--repo", scratch, "--tier", "quick"],
                                    stdout=subprocess.PIPE, stderr=subprocess.STDOUT, text=True, env=cenv)
                viol = [l for l in r2.stdout.splitlines() if "rule=" in l and "instance=" in l]
                if r2.returncode != 0 or viol:
                    caught[pid] = [v.strip()[:160] for v in viol[:2]] or ["exit %d" % r2.returncode]
            res["caught_by"] = caught
            shutil.rmtree(tmp, ignore_errors=True)
        res["secs"] = round(time.time() - t0, 1)
        open(resf, "a").write(json.dumps(res) + "\n")
        open(fp, "w").write(src)
    print("worker %d done" % worker)


def report():
    rows = []
    for f in sorted(os.listdir(ROOT)):
        if f.startswith("results.") and f.endswith(".jsonl"):
            for l in open(os.path.join(ROOT, f)):
                try:
                    rows.append(json.loads(l))
                except Exception:
                    pass
    oc = {}
    for r in rows:
        oc[r["outcome"]] = oc.get(r["outcome"], 0) + 1
    print("evaluated %d: %s" % (len(rows), oc))
    tp = [r for r in rows if r["outcome"] == "tests-pass"]
    surv = [r for r in tp if not r.get("caught_by")]
    print("tests pass: %d; reported by a check: %d; surviving: %d" % (len(tp), len(tp) - len(surv), len(surv)))
    for r in sorted(surv, key=lambda r: (r["file"], r["line"])):
        print("  #%d %s:%d  [%s]  %s" % (r["id"], r["file"], r["line"], r["op"], r["new"][:110]))


if __name__ == "__main__":
    cmd = sys.argv[1]
    if cmd == "gen":
        gen()
    elif cmd == "run":
        only = set(int(x) for x in sys.argv[4].split(",")) if len(sys.argv) > 4 else None
        run(int(sys.argv[2]), int(sys.argv[3]), only)
    elif cmd == "report":
        report()
    elif cmd == "clean":
        for f in os.listdir(ROOT):
            if re.match(r"^(w|chk)\d+$", f):
                shutil.rmtree(os.path.join(ROOT, f), ignore_errors=True)
