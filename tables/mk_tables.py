#!/usr/bin/env python3
"""Source of the reviewed tables (one reason per row).  Running it rewrites tables/*.json.
Rows were produced by listing what the extractor finds, reading every row against the source, and freezing it."""
import json, os
HERE = os.path.dirname(os.path.abspath(__file__))
A = "sfs_core::array::"
SH = "sfs_core::array::shape::"
SP = "sfs_core::spectrum::"
ST = "sfs_core::spectrum::stat::"
IN = "sfs_core::input::"
GENO_FROM = ("sfs_core::input::genotype::reader::vcf::<impl core::convert::From<core::option::Option<"
             "noodles_vcf::record::genotypes::sample::value::genotype::Genotype>> for sfs_core::input::genotype::Result>::from")

# invariants referred to in the reasons
INV = {
 "LEN": "Array.data.len() == shape.elements(): established by Array::new; the callers of Array::new_unchecked are a closed, reviewed set (tables/contracts)",
 "NE": "every Shape has >= 1 axis: text parser (split yields >= 1 token), npy parser (separated_list1), sample::Map::shape (non-empty map), marginalize (removes fewer axes than exist)",
 "POS": "every axis length >= 1: NOT established for parsed files (the degenerate-shape findings)",
}

def ok(fn, sig, n, reason, tag=None):
    return {"fn": fn, "sig": sig, "count": n, "verdict": "ok", "reason": reason, "tag": tag}

def finding(fn, sig, n, fid, reason):
    return {"fn": fn, "sig": sig, "count": n, "verdict": "finding", "finding": fid, "reason": reason}

ROWS = [
 # ---- array ---------------------------------------------------------------------------------------------------
 ok("<sfs_core::array::Array<T> as core::ops::index::Index<I>>::index", "call:expect<Option<T>>", 1,
    "panicking API by contract (std::ops::Index). Callers reachable from main are workspace functions whose index is in range: King/R0/R1 constant cells under SHAPE33, PiXY closure m1<=n1,m2<=n2 under DIM(2), Runner::run scs[&counts] with counts[j] <= totals[j] <= shape[j]-1 (every genotype adds g<=2 to counts and 2 to totals). Checked by the closed caller list in tables/contracts (INDEX_INBOUNDS).", "INDEX_INBOUNDS"),
 ok("<sfs_core::array::Array<T> as core::ops::index::IndexMut<I>>::index_mut", "call:expect<Option<T>>", 1,
    "as Index::index; only caller from main is create::Runner::run (scs[&counts] += 1.0) via Spectrum::index_mut", "INDEX_INBOUNDS"),
 ok("<sfs_core::array::iter::AxisIter<'a, T> as core::iter::traits::iterator::Iterator>::next", "Overflow(Add v,c1)", 1,
    "index += 1 only after get_axis returned Some, i.e. index < shape[axis] <= usize::MAX"),
 ok("<sfs_core::array::iter::IndicesIter<'a> as core::iter::traits::iterator::Iterator>::next::{closure#0}", "Overflow(Add v,c1)", 1,
    "closure of bool::then on `index < total`: index + 1 <= total"),
 ok("<sfs_core::array::iter::IndicesIter<'a> as core::iter::traits::iterator::Iterator>::next::{closure#0}", "Overflow(Sub v,c1)", 1,
    "index was just incremented, so index >= 1"),
 ok("<sfs_core::array::iter::IndicesIter<'a> as core::iter::traits::iterator::Iterator>::size_hint", "Overflow(Sub v,v)", 1,
    "index is only incremented while index < total and starts at 0, so index <= total"),
 ok("<sfs_core::array::npy::header::TypeDescriptor as core::str::traits::FromStr>::from_str", "call:split_at<str>", 1,
    "dominated by `s.len() != 3 => return`; not called from main (the nom parser is used); a multi-byte first character would make index 1 a non-boundary, but the function is dead code from main (kept as reviewed because it is reachable only through the over-approximate trait-impl edge)"),
 ok("<sfs_core::array::shape::Shape as core::fmt::Display>::fmt", "BoundsCheck(idx=c0)", 1, "self[0] under NE"),
 ok("<sfs_core::array::shape::removed_axis::RemovedAxis<'a, T> as core::ops::index::Index<usize>>::index", "call:expect<Option<T>>", 1,
    "panicking API; callers: view::Iter::{impl_next_rec, backstride} with axis < view.dimensions() (axis starts at dimensions()-1 and only decreases while > 0)"),
 ok("<sfs_core::array::view::iter::Iter<'a, T> as core::iter::traits::iterator::Iterator>::next", "Overflow(Add v,c1)", 1,
    "zero-axis arm: index += 1 with index < elements (== 1)"),
 ok(A + "Array::<T>::get_axis", "BoundsCheck(idx=v)", 2, "shape[axis.0] / strides[axis.0] evaluated only when axis.0 < dimensions() (short-circuit `||`, first operand `axis.0 >= dimensions()`); strides.len() == shape.len() by construction in new_unchecked"),
 ok(A + "Array::<T>::get_axis", "Overflow(Mul v,v)", 1, "index < shape[axis] so index * stride < elements = data.len() (LEN) which exists in memory"),
 ok(A + "Array::<T>::get_axis", "call:index<Vec<T>>[RangeFrom<usize>]", 1, "offset = index * stride[axis] < elements == data.len() (LEN)"),
 ok(A + "Array::<T>::index_axis", "call:expect<Option<T>>", 1, "panicking convenience API; no caller in the workspace (not reachable from main)"),
 ok(A + "npy::header::Header::write", "Overflow(Add v,c1)", 2, "header length arithmetic on in-memory string lengths"),
 ok(A + "npy::header::Header::write", "Overflow(Add v,v)", 5, "sums of in-memory lengths (6 + 2 + 2|4 + dict text) and a pad < 64"),
 ok(A + "npy::header::Header::write", "panic:assert_failed()", 1, "assert_eq!((len + pad_len) % 64, 0): pad_len is 0 when len % 64 == 0 and 64 - len % 64 otherwise, so the sum is a multiple of 64"),
 ok(A + "npy::header::Version::read_header_len", "call:expect<Result<T, E>>", 1, "usize::try_from(u32) cannot fail on >= 32-bit targets"),
 finding(A + "npy::header::Version::write_header_len", "call:expect<Result<T, E>>", 2, "F14",
    "u16::try_from(header_len).expect(..): a dict longer than 65535 bytes (about 22 000 axes) panics after 8 bytes were written; the u32 row is unreachable (only V1 is written) and fits for any in-memory header"),
 ok(A + "npy::header::parse::parse_usize::{closure#0}", "call:expect<Result<T, E>>", 1, "u64 -> usize cannot fail on 64-bit targets (assumption recorded in the evidence)"),
 finding(SH + "Shape::elements", "call:product<usize>", 1, "F13", "product of declared axis lengths overflows for absurd shapes read from a file"),
 ok(SH + "Shape::index_from_flat_unchecked", "DivisionByZero", 1, "under FLAT_LT_ELEMENTS: flat < elements implies elements > 0, so every axis length v > 0 and n = elements / prefix product > 0", "FLAT_LT_ELEMENTS"),
 ok(SH + "Shape::index_from_flat_unchecked", "RemainderByZero", 1, "same as the division", "FLAT_LT_ELEMENTS"),
 ok(SH + "Shape::index_from_flat_unchecked", "call:div_assign<usize,usize>", 1, "n /= v with v > 0 (elements > 0)", "FLAT_LT_ELEMENTS"),
 ok(SH + "Shape::index_from_flat_unchecked", "call:index_mut<Vec<usize>>[usize]", 1, "index[i] with i from enumerate over the same length", "FLAT_LT_ELEMENTS"),
 ok(SH + "Shape::index_sum_from_flat_unchecked", "DivisionByZero", 1, "as index_from_flat_unchecked", "FLAT_LT_ELEMENTS"),
 ok(SH + "Shape::index_sum_from_flat_unchecked", "RemainderByZero", 1, "as index_from_flat_unchecked", "FLAT_LT_ELEMENTS"),
 ok(SH + "Shape::index_sum_from_flat_unchecked", "call:div_assign<usize,usize>", 1, "as index_from_flat_unchecked", "FLAT_LT_ELEMENTS"),
 ok(SH + "Shape::index_sum_from_flat_unchecked", "Overflow(Add v,v)", 1, "sum of per-axis indices, each < its axis length; bounded by the sum of the shape which was computed without overflow in Folded::from_spectrum before", "FLAT_LT_ELEMENTS"),
 finding(SH + "Shape::strides::{closure#0}", "call:mul_assign<usize,usize>", 1, "F15",
    "stride products can overflow although elements() did not, when one axis is 0: #SHAPE=<0/18446744073709551615/2>"),
 ok(SH + "removed_axis::RemovedAxis::<'a, T>::get", "Overflow(Add v,c1)", 1, "index + 1 with index an axis number (< usize::MAX: a Vec cannot have usize::MAX elements)"),
 ok(SH + "removed_axis::RemovedAxis::<'a, T>::iter", "Overflow(Add c1,v)", 1, "1 + removed axis number"),
 ok(SH + "removed_axis::RemovedAxis::<'a, T>::iter", "call:index<[usize]>[RangeFrom<usize>]", 1, "inner[1 + removed..] under INBOUNDS(axis): removed < len", "INBOUNDS_AXIS"),
 ok(SH + "removed_axis::RemovedAxis::<'a, T>::iter", "call:index<[usize]>[RangeTo<usize>]", 1, "inner[..removed] under INBOUNDS(axis)", "INBOUNDS_AXIS"),
 ok(SH + "removed_axis::RemovedAxis::<'a, T>::len", "Overflow(Sub v,c1)", 1, "inner is non-empty (RemovedAxis::new panics otherwise, and that panic is reviewed under NE)"),
 ok(SH + "removed_axis::RemovedAxis::<'a, T>::new", "panic:panic_fmt(cannot remove axis from empty)", 1, "callers pass the shape/strides of an existing array: non-empty under NE"),
 ok(SH + "removed_axis::RemovedAxis::<'a, sfs_core::array::shape::Shape>::elements", "call:product<usize>", 1, "product of a subset of axis lengths whose full product did not overflow, unless an excluded axis is 0: then the view is created from get_axis(index < 0) which is impossible, or from Array::sum -> iter_axis which yields no view"),
 ok(SH + "strides::Strides::flat_index_unchecked::{closure#0}", "Overflow(Add v,v)", 1, "under INBOUNDS(index): flat < elements", "INBOUNDS_INDEX"),
 ok(SH + "strides::Strides::flat_index_unchecked::{closure#0}", "call:mul<usize,usize>", 1, "stride * idx <= flat index < elements", "INBOUNDS_INDEX"),
 ok(A + "view::iter::Iter::<'a, T>::backstride", "Overflow(Mul v,v)", 1, "stride * (len - 1) < elements of the parent array"),
 ok(A + "view::iter::Iter::<'a, T>::backstride", "Overflow(Sub v,c1)", 1, "shape[axis] >= 1: next() returns early when elements == 0, so every axis length is >= 1 when the odometer runs"),
 ok(A + "view::iter::Iter::<'a, T>::impl_next_rec", "Overflow(Add v,c1)", 3, "index/coords increments bounded by elements / axis length"),
 ok(A + "view::iter::Iter::<'a, T>::impl_next_rec", "Overflow(Add v,v)", 1, "offset + stride stays below the parent's element count while index < elements"),
 ok(A + "view::iter::Iter::<'a, T>::impl_next_rec", "Overflow(Sub v,c1)", 1, "axis - 1 on the `axis > 0` edge (auto-discharge does not see through the else-if chain; reviewed)"),
 ok(A + "view::iter::Iter::<'a, T>::impl_next_rec", "Overflow(Sub v,v)", 1, "offset -= backstride(axis): offset accumulated exactly (len-1) strides on this axis before wrapping"),
 ok(A + "view::iter::Iter::<'a, T>::impl_next_rec", "call:index<Vec<usize>>[usize]", 1, "coords[axis], axis < dimensions() == coords.len()"),
 ok(A + "view::iter::Iter::<'a, T>::impl_next_rec", "call:index_mut<Vec<usize>>[usize]", 2, "coords[axis], axis < dimensions() == coords.len()"),
 finding(A + "Array::<T>::from_element", "call:from_elem<T>", 1, "F17",
    "vec![element; shape.elements()] panics with 'capacity overflow' when elements * size_of::<T>() > isize::MAX: reachable through marginalize -> Array::sum -> from_zeros(remaining shape) when the removed axis has length 0: `sfs view -m 1` on #SHAPE=<18446744073709551615/0>"),
 # ---- spectrum --------------------------------------------------------------------------------------------------
 ok(SP + "count::Count::from_zeros", "call:from_elem<usize>", 1, "vec![0; dimensions] with dimensions = number of populations / axes of an existing shape"),
 ok(SH + "Shape::index_from_flat_unchecked", "call:from_elem<usize>", 1, "vec![0; self.len()]"),
 ok(SH + "Shape::strides", "call:from_elem<usize>", 1, "vec![1; self.len()]"),
 ok(A + "view::iter::Iter::<'a, T>::new", "call:from_elem<usize>", 1, "vec![0; view.dimensions()]"),
 ok(A + "npy::header::Header::read", "call:from_elem<u8>", 1, "vec![0; header_len] with header_len <= u32::MAX < isize::MAX (an allocation failure aborts, it is not a panic)"),
 ok(A + "npy::header::Header::write", "call:from_elem<u8>", 1, "vec![b' '; pad_len] with pad_len < 64"),
 ok("<sfs_core::spectrum::count::Count as core::ops::index::Index<usize>>::index", "call:index<Vec<usize>>[usize]", 1,
    "panicking API; callers from main: ProjectIter::impl_next_rec (axis < dimensions), Projection::new (dimension from enumerate), read_site is IndexMut", "COUNT_INDEX"),
 ok("<sfs_core::spectrum::count::Count as core::ops::index::IndexMut<usize>>::index_mut", "call:index_mut<Vec<usize>>[usize]", 1,
    "panicking API; callers from main: read_site with population_id < number_of_populations (ids are insertion indices of the population set; an orphaned population panics earlier in Map::shape, finding F7), ProjectIter::impl_next_rec (axis < dimensions)", "COUNT_INDEX"),
 ok("<sfs_core::spectrum::iter::FrequenciesIter<'a> as core::iter::traits::iterator::Iterator>::next::{closure#0}::{closure#0}", "call:sub<usize,usize>", 1,
    "n - 1 with n an axis length; the closure only runs for an existing index, which requires every axis length >= 1"),
 ok("<sfs_core::spectrum::project::ProjectIter<'a> as core::iter::traits::iterator::Iterator>::next", "Overflow(Sub v,c1)", 1, "dimensions() - 1 under NE (projection shapes have the dimensionality of an existing spectrum / sample map)"),
 ok(SP + "project::ProjectIter::<'a>::impl_next_rec", "Overflow(Add v,c1)", 3, "index / to[axis] increments bounded by the target shape"),
 ok(SP + "project::ProjectIter::<'a>::impl_next_rec", "Overflow(Sub v,c1)", 1, "axis - 1 on the `axis > 0` edge"),
 ok(SP + "Spectrum::<S>::marginalize", "call:windows<[T]>", 1, "windows(2): constant non-zero size"),
 ok(SP + "Spectrum::<S>::marginalize::{closure#0}", "Overflow(Add v,c1)", 1, "i + 1 with i an index into axes"),
 ok(SP + "Spectrum::<S>::marginalize::{closure#2}", "BoundsCheck(idx=c0)", 1, "w[0] of a windows(2) item"),
 ok(SP + "Spectrum::<S>::marginalize::{closure#2}", "BoundsCheck(idx=c1)", 1, "w[1] of a windows(2) item"),
 ok(SP + "Spectrum::<S>::marginalize_unchecked::{closure#0}", "Overflow(Sub v,v)", 1, "original.0 - removed under SORTED_DISTINCT_INBOUNDS: the k-th smallest distinct axis is >= k", "SORTED_DISTINCT_INBOUNDS"),
 ok(SP + "Spectrum::<sfs_core::spectrum::Counts>::from_vec", "call:unwrap<Result<T, E>>", 1, "shape = vec.len(): cannot mismatch; not reachable from main"),
 finding(SP + "Spectrum::<sfs_core::spectrum::Counts>::segregating_sites", "Overflow(Sub v,c1)", 1, "F8.s", "n - 1 with n = elements(): a spectrum with zero elements (#SHAPE=<0>)"),
 ok(SP + "count::Count::into_shape::{closure#0}", "Overflow(Add v,c1)", 1, "count + 1 where count came from shape - 1 (try_from_shape)"),
 ok(SP + "folded::Folded::<S>::from_spectrum::{closure#0}", "BoundsCheck(idx=v)", 7, "dst[i] / src[i] / src[rev_i] with i, rev_i in 0..n, n = elements == data.len() (LEN), dst allocated with the same shape"),
 ok(SP + "io::text::format_spectrum", "call:from_usize<Argument<'_>>", 1, "`{first:.precision$}`: formatting panics for precision > u16::MAX; every precision reaching the writer comes from a CLI option parsed by parse_precision (<= 65535, checked: C17.f) or is the library default 6", "PRECISION_U16"),
 ok(SP + "io::text::format_spectrum::{closure#0}", "call:from_usize<Argument<'_>>", 1, "as above", "PRECISION_U16"),
 ok("sfs::stat::runner::Runner::<W>::write_statistics::{closure#0}", "call:from_usize<Argument<'_>>", 1, "`{stat:.precision$}` with s.precision from Stat.precision, parsed by parse_precision (<= 65535, checked: C17.f)", "PRECISION_U16"),
 ok(SP + "io::text::format_spectrum", "call:unwrap<Result<T, E>>", 1, "write! to a String: fmt::Write for String never fails"),
 ok(SP + "io::text::format_spectrum::{closure#0}", "call:unwrap<Result<T, E>>", 1, "write! to a String: fmt::Write for String never fails"),
 ok(ST + "F2::from_sfs_unchecked::{closure#0}", "call:index<Vec<f64>>[usize]", 2, "fs[0], fs[1] under DIM(2): iter_frequencies yields one frequency per axis", "DIM"),
 ok(ST + "F3::from_sfs_unchecked::{closure#0}", "call:index<Vec<f64>>[usize]", 4, "fs[0..3] under DIM(3)", "DIM"),
 ok(ST + "F4::from_sfs_unchecked::{closure#0}", "call:index<Vec<f64>>[usize]", 4, "fs[0..4] under DIM(4)", "DIM"),
 ok(ST + "Fst::from_sfs_unchecked", "BoundsCheck(idx=c0)", 1, "shape[0] under DIM(2)", "DIM"),
 ok(ST + "Fst::from_sfs_unchecked", "BoundsCheck(idx=c1)", 1, "shape[1] under DIM(2)", "DIM"),
 finding(ST + "Fst::from_sfs_unchecked", "Overflow(Sub v,c1)", 1, "F8.fst.elements", "elements() - 1 with zero elements: `sfs stat -s fst` on #SHAPE=<0/3>"),
 finding(ST + "Fst::from_sfs_unchecked", "Overflow(Sub v,c2)", 2, "F8.fst.axis", "shape[i] - 2 with an axis of length 1: `sfs stat -s fst` on #SHAPE=<1/3>"),
 ok(ST + "Fst::from_sfs_unchecked::{closure#0}", "call:index<Vec<f64>>[usize]", 2, "fs[0], fs[1] under DIM(2)", "DIM"),
 finding(ST + "PiXY::from_spectrum_unchecked", "Overflow(Sub v,c1)", 3, "F8.pixy", "n1 - 1, n2 - 1, elements() - 1 with a zero-length axis: `sfs stat -s pi-xy` on #SHAPE=<0/3>"),
 ok(ST + "PiXY::from_spectrum_unchecked", "Overflow(Mul v,v)", 1, "n1 * n2 <= elements of an in-memory spectrum"),
 ok(ST + "PiXY::from_spectrum_unchecked", "panic:panic_fmt(dimensions do not fit)", 1, "slice pattern [n1, n2] under DIM(2)", "DIM"),
 ok(ST + "PiXY::from_spectrum_unchecked::{closure#1}", "Overflow(Add v,v)", 1, "p1 + p2 <= 2 * n1 * n2, in-memory sizes"),
 ok(ST + "PiXY::from_spectrum_unchecked::{closure#1}", "Overflow(Mul v,v)", 2, "m * (n - m) <= n1 * n2"),
 ok(ST + "PiXY::from_spectrum_unchecked::{closure#1}", "Overflow(Sub v,v)", 2, "n - m with m from 0..=n"),
 finding(ST + "theta::private::Estimator::estimate_unchecked", "Overflow(Sub v,c1)", 1, "F8.theta", "elements() - 1 with zero elements: `sfs stat -s theta` (or pi) on #SHAPE=<0>"),
 finding("<sfs_core::spectrum::stat::theta::FuLi as sfs_core::spectrum::stat::theta::private::Estimator>::estimate_unchecked", "BoundsCheck(idx=c1)", 1, "F8.theta_fuli",
    "as_slice()[1] on a spectrum with fewer than two elements: `sfs stat -s d-fu-li` on #SHAPE=<1>"),
 ok("<sfs_core::spectrum::stat::theta::FuLi as sfs_core::spectrum::stat::theta::private::Estimator>::weight", "panic:panic(not implemented)", 1,
    "unimplemented!(): FuLi overrides estimate_unchecked, the only caller of weight (checked: C06.b theta::FuLi/overrides and the caller set of weight)"),
 ok("<sfs_core::spectrum::stat::theta::Tajima as sfs_core::spectrum::stat::theta::private::Estimator>::weight", "Overflow(Mul v,v)", 1, "i * (n - i) <= n^2/4 for in-memory n"),
 ok("<sfs_core::spectrum::stat::theta::Tajima as sfs_core::spectrum::stat::theta::private::Estimator>::weight", "Overflow(Sub v,v)", 1, "n - i with i < n from enumerate().take(n)"),
 ok("<sfs_core::spectrum::stat::theta::FayWu as sfs_core::spectrum::stat::theta::private::Estimator>::weight", "call:pow<usize>", 1, "FayWu is never constructed (dead code warning); i^2 for in-memory i"),
 finding("<sfs_core::spectrum::stat::d::FuLi as sfs_core::spectrum::stat::d::private::Statistic>::variance", "Overflow(Sub v,c1)", 4, "F8.d_fuli", "elements() - 1, n - 1: `sfs stat -s d-fu-li` on #SHAPE=<1> (after theta::FuLi) / #SHAPE=<0>"),
 finding("<sfs_core::spectrum::stat::d::FuLi as sfs_core::spectrum::stat::d::private::Statistic>::variance", "Overflow(Sub v,c2)", 1, "F8.d_fuli2", "n - 2 with n = 1: `sfs stat -s d-fu-li` on #SHAPE=<2>"),
 ok("<sfs_core::spectrum::stat::d::FuLi as sfs_core::spectrum::stat::d::private::Statistic>::variance", "Overflow(Add v,c1)", 1, "n + 1 for in-memory n"),
 ok("<sfs_core::spectrum::stat::d::FuLi as sfs_core::spectrum::stat::d::private::Statistic>::variance", "Overflow(Mul c4,v)", 1, "4 * (n - 1) for in-memory n"),
 ok("<sfs_core::spectrum::stat::d::FuLi as sfs_core::spectrum::stat::d::private::Statistic>::variance", "Overflow(Mul v,v)", 1, "(n-1)(n-2) for in-memory n (< 2^32)"),
 finding("<sfs_core::spectrum::stat::d::Tajima as sfs_core::spectrum::stat::d::private::Statistic>::variance", "Overflow(Sub v,c1)", 3, "F8.d_tajima", "elements() - 1, n - 1: `sfs stat -s d-tajima` on #SHAPE=<1>"),
 ok("<sfs_core::spectrum::stat::d::Tajima as sfs_core::spectrum::stat::d::private::Statistic>::variance", "Overflow(Add v,c1)", 1, "n + 1"),
 ok("<sfs_core::spectrum::stat::d::Tajima as sfs_core::spectrum::stat::d::private::Statistic>::variance", "Overflow(Add v,c2)", 1, "n + 2"),
 ok("<sfs_core::spectrum::stat::d::Tajima as sfs_core::spectrum::stat::d::private::Statistic>::variance", "Overflow(Add v,c3)", 1, "n^2 + n + 3 for in-memory n"),
 ok("<sfs_core::spectrum::stat::d::Tajima as sfs_core::spectrum::stat::d::private::Statistic>::variance", "Overflow(Add v,v)", 1, "n^2 + n"),
 ok("<sfs_core::spectrum::stat::d::Tajima as sfs_core::spectrum::stat::d::private::Statistic>::variance", "Overflow(Mul c2,v)", 1, "2 (n^2 + n + 3): needs n > 3e9 elements (24 GB of f64) to overflow"),
 ok("<sfs_core::spectrum::stat::d::Tajima as sfs_core::spectrum::stat::d::private::Statistic>::variance", "Overflow(Mul c3,v)", 1, "3 (n - 1)"),
 ok("<sfs_core::spectrum::stat::d::Tajima as sfs_core::spectrum::stat::d::private::Statistic>::variance", "Overflow(Mul c9,v)", 1, "9 n: in-memory n"),
 ok("<sfs_core::spectrum::stat::d::Tajima as sfs_core::spectrum::stat::d::private::Statistic>::variance", "Overflow(Mul v,v)", 1, "9 n (n - 1): needs n > 1.4e9 elements (11 GB of f64) to overflow; treated as out of the in-memory range"),
 ok("<sfs_core::spectrum::stat::d::Tajima as sfs_core::spectrum::stat::d::private::Statistic>::variance", "call:pow<usize>", 1, "n^2 for in-memory n"),
 ok("sfs_core::utils::gamma::ln_gamma", "BoundsCheck(idx=c0)", 2, "DK[0] of a constant 11-element slice"),
 ok("sfs_core::utils::hypergeometric_pmf", "Overflow(Sub v,v)", 1, "size - successes: callers pass successes <= size (Spectrum::project: index <= shape - 1 = project_from; read_site: counts <= totals)"),
 ok("sfs_core::utils::ln_binomial", "Overflow(Sub v,v)", 1, "n - k: private helper called only by hypergeometric_pmf with (successes, observed), (size - successes, draws - observed) under the dominating guards observed <= successes and draws - observed <= failures, and (size, draws) with draws <= size by the validated projection (to <= from); the three argument pairs are decided mechanically by C02.g binomial-roles"),
 ok("sfs_core::utils::p_harmonic::{closure#0}", "call:pow<u64>", 1, "i^p with p <= 2 and i < n elements: overflow needs n > 4e9"),
 # ---- input -----------------------------------------------------------------------------------------------------
 ok(GENO_FROM, "Overflow(Add v,v)", 1, "a + b under the dominating guard `a > 1 || b > 1 => Multiallelic` (both <= 1); decided mechanically by C08.e"),
 ok(IN + "sample::Map::population_sizes", "Overflow(Add v,c1)", 1, "a per-population counter bounded by the number of samples"),
 ok(IN + "sample::Map::shape::{closure#0}", "Overflow(Add c1,v)", 1, "1 + 2 * size, size <= number of samples"),
 ok(IN + "sample::Map::shape::{closure#0}", "call:mul<usize,usize>", 1, "2 * size, size <= number of samples"),
 finding(IN + "sample::Map::shape::{closure#0}", "call:unwrap<Option<T>>", 1, "F7",
    "population_sizes.get(&Id(id)).unwrap(): a duplicated sample name with two different labels orphans the first label's id: `sfs create -s s0=A,s0=B x.vcf`"),
 ok(IN + "site::reader::Reader::current_skipped_samples::{closure#0}", "call:unwrap<Option<T>>", 1, "ids were produced by get_sample_id on the same, immutable sample map"),
 ok(IN + "site::reader::Reader::read_site", "Overflow(Add v,c2)", 1, "totals += 2 per sample and record: bounded by 2 * samples (reset every record)"),
 ok(IN + "site::reader::Reader::read_site", "Overflow(Add v,v)", 1, "counts += genotype (<= 2) per sample and record"),
 ok(IN + "site::reader::Reader::read_site", "call:unwrap<Option<T>>", 1, "get_sample_id(sample).unwrap() dominated by get_population_id(sample) being Some on the same immutable map (checked: C01.a)"),
 # ---- cli -------------------------------------------------------------------------------------------------------
 ok("sfs::create::<impl core::convert::From<sfs::create::Project> for sfs_core::input::site::reader::builder::Project>::from", "panic:panic_fmt(internal error: entered unreachable code: checked by clap)", 1,
    "(Some, Some) / (None, None) excluded by #[group(multiple = false)] on create::Project and Option<Project> flattening (clap yields None for an absent group); checked: the derive emits ArgGroup::multiple(false)", "CLAP_GROUP"),
 ok("sfs::create::<impl core::convert::From<sfs::create::Samples> for sfs_core::input::site::reader::builder::Samples>::from", "panic:panic_fmt(internal error: entered unreachable code: checked by clap)", 1,
    "as above for create::Samples", "CLAP_GROUP"),
 ok("sfs::view::View::run", "panic:panic_fmt(internal error: entered unreachable code: checked by clap)", 2, "as above for view::Marginalize and view::Project", "CLAP_GROUP"),
 ok("sfs::create::runner::Runner::handle_skipped_site", "Overflow(Add v,c1)", 1, "skipped += 1 <= number of records"),
 ok("sfs::create::runner::Runner::run", "Overflow(Add v,c1)", 1, "sites += 1 <= number of records"),
]

# closed caller sets of the *_unchecked functions (DESIGN 3.7).  `guard` names a mechanically recognised guard form
# ("dim==k", "shape33", "dominates:<callee>") or "reviewed" with the reason.
CONTRACTS = {
 IN + "site::reader::Reader::new_unchecked": {IN + "site::reader::builder::Builder::build": "reviewed: empty-map and unknown-sample checks dominate it (C09.g), projection validated (C02.d)"},
 IN + "Input::new_unchecked": {IN + "Input::new": "reviewed: the three-way refusal test precedes it"},
 SP + "project::PartialProjection::project_unchecked": {IN + "site::reader::Reader::read_site": "reviewed: under exact/projectable decision, totals >= project_to per axis (C02.a)",
                                                          SP + "project::Projection::project_unchecked": "inherited: Projection validated in Projection::new"},
 SP + "project::Projection::new_unchecked": {SP + "project::Projection::new": "reviewed: on the edge where dimensions are equal and no axis has from < to"},
 SP + "project::Projection::project_unchecked": {SP + "Spectrum::<S>::project": "reviewed: `from` is an index of self (index <= shape - 1 = project_from)"},
 SP + "project::Projected::<'a>::add_unchecked": {"sfs::create::runner::Runner::run": "reviewed: scs = create_zero_scs() has the projection's target shape", SP + "Spectrum::<S>::project": "reviewed: new = from_zeros(project_to)"},
 SP + "project::Projected::<'a>::new_unchecked": {SP + "project::PartialProjection::project_unchecked": "inherited"},
 SP + "project::ProjectIter::<'a>::new_unchecked": {SP + "project::Projected::<'a>::new_unchecked": "inherited"},
 ST + "theta::private::Estimator::estimate_unchecked": {ST + "theta::Theta::<E>::from_spectrum_unchecked": "inherited DIM(1)"},
 "<sfs_core::spectrum::stat::theta::FuLi as sfs_core::spectrum::stat::theta::private::Estimator>::estimate_unchecked": {ST + "theta::Theta::<E>::from_spectrum_unchecked": "inherited DIM(1)"},
 ST + "theta::Theta::<E>::from_spectrum_unchecked": {ST + "theta::Theta::<E>::from_spectrum": "dim==1", ST + "d::private::Statistic::estimate_unchecked": "inherited DIM(1) from D::from_scs"},
 ST + "d::private::Statistic::estimate_unchecked": {ST + "d::D::<S>::from_spectrum_unchecked": "inherited DIM(1)"},
 ST + "d::D::<S>::from_spectrum_unchecked": {ST + "d::D::<S>::from_scs": "dim==1"},
 ST + "PiXY::from_spectrum_unchecked": {ST + "PiXY::from_spectrum": "dim==2"},
 ST + "F2::from_sfs_unchecked": {ST + "F2::from_sfs": "dim==2"},
 ST + "F3::from_sfs_unchecked": {ST + "F3::from_sfs": "dim==3"},
 ST + "F4::from_sfs_unchecked": {ST + "F4::from_sfs": "dim==4"},
 ST + "Fst::from_sfs_unchecked": {ST + "Fst::from_sfs": "dim==2"},
 ST + "King::from_spectrum_unchecked": {ST + "King::from_spectrum": "shape33"},
 ST + "R0::from_spectrum_unchecked": {ST + "R0::from_spectrum": "shape33"},
 ST + "R1::from_spectrum_unchecked": {ST + "R1::from_spectrum": "shape33"},
 SP + "Spectrum::<S>::into_state_unchecked": {SP + "Spectrum::<S>::into_normalized": "dominates:" + SP + "Spectrum::<S>::normalize",
                                              SP + "Spectrum::<S>::marginalize_axis": "reviewed: state-preserving (C06.c)", SP + "Spectrum::<S>::project": "reviewed: state-preserving (C06.c)",
                                              SP + "folded::Folded::<S>::into_spectrum": "reviewed: state-preserving (C06.c)"},
 SP + "Spectrum::<S>::marginalize_unchecked": {SP + "Spectrum::<S>::marginalize": "reviewed: three early returns (duplicate, out of bounds, too many) and is_sorted / sort dominate both call sites"},
 SH + "strides::Strides::flat_index_unchecked": {SH + "strides::Strides::flat_index": "reviewed: on the dimensions_match && in_bounds edge"},
 SH + "Shape::index_from_flat_unchecked": {"<sfs_core::array::iter::IndicesIter<'a> as core::iter::traits::iterator::Iterator>::next::{closure#0}": "reviewed: closure of (index < total).then(..)"},
 SH + "Shape::index_sum_from_flat_unchecked": {SP + "folded::Folded::<S>::from_spectrum::{closure#0}": "reviewed: i from 0..elements"},
 A + "view::View::<'a, T>::new_unchecked": {A + "Array::<T>::get_axis": "reviewed: on the in-range edge"},
 A + "Array::<T>::new_unchecked": {A + "Array::<T>::new": "reviewed: on the len == elements edge (C16.c)", A + "Array::<T>::from_element": "reviewed: vec![element; elements]",
                                   A + "view::View::<'a, T>::to_array": "reviewed: collects exactly the view's elements", SP + "folded::Folded::<S>::into_spectrum": "reviewed: same shape, one value per element"},
}

json.dump({"invariants": INV, "rows": ROWS}, open(os.path.join(HERE, "panic_sites.json"), "w"), indent=1)
json.dump({"contracts": CONTRACTS}, open(os.path.join(HERE, "contracts.json"), "w"), indent=1)
print("panic_sites: %d rows (%d findings); contracts: %d functions" % (len(ROWS), sum(1 for r in ROWS if r["verdict"] == "finding"), len(CONTRACTS)))


# ---- how many sites each row actually covers on the reviewed tree (after the mechanical discharges): a row whose sites are all discharged
# mechanically covers none, and must not look like room for a new site of the same signature moved in from a neighbour (rules_panic.rebalance)
def annotate_baseline():
    import sys
    sys.path.insert(0, os.path.join(os.path.dirname(HERE), "engine", "sfsverif"))
    import facts, rules_panic as RP
    prog, info = facts.get_facts("/repo", verbose=False)
    res, auto = RP.collect_sites(prog, [f for f in prog.fn_list])
    ps = json.load(open(os.path.join(HERE, "panic_sites.json")))
    base = {}
    for (fp, sig), sites in res.items():
        base[(fp, sig)] = len(sites)
    merged = {}
    for r in ps["rows"]:
        k = (RP.norm_fn(r["fn"]), RP.norm_sig(r["sig"]))
        merged.setdefault(k, []).append(r)
    for k, rs in merged.items():
        n = base.get(k, 0)
        # rows of sibling closures are merged by the engine: give the whole number to the first, 0 to the rest
        for i, r in enumerate(rs):
            r["baseline"] = n if i == 0 else 0
    json.dump(ps, open(os.path.join(HERE, "panic_sites.json"), "w"), indent=1)
    print("baseline site counts written for %d rows (%d rows cover no site any more: discharged mechanically)" % (len(ps["rows"]), sum(1 for k, rs in merged.items() if base.get(k, 0) == 0)))


if __name__ == "__main__":
    annotate_baseline()
