"""C01, C02, C10, C11: the `create` path (site reader, runner, CLI)."""
from facts import P, pstr, op_place, op_local, op_const, const_val, ostr, rvstr, callee_is, callee_name
import an
import names as N

READ_SITE = "sfs_core::input::site::reader::Reader::read_site"
RESET = "sfs_core::input::site::reader::Reader::reset"
RUNNER_RUN = "sfs::create::runner::Runner::run"
HANDLE_SKIPPED = "sfs::create::runner::Runner::handle_skipped_site"
CREATE_RUN = "sfs::create::Create::run"
MAP_SHAPE = "sfs_core::input::sample::Map::shape"
GET_POP = "sfs_core::input::sample::Map::get_population_id"
GENO_RESULT = "sfs_core::input::genotype::Result"
SITE = "sfs_core::input::site::Site"
READSTATUS = "sfs_core::input::ReadStatus"
COUNT_INDEX_MUT = "<sfs_core::spectrum::count::Count as core::ops::index::IndexMut<usize>>::index_mut"
PROJ_SHAPE = "sfs_core::input::site::reader::builder::Project::shape"
VIEW_RUN = "sfs::view::View::run"


# ------------------------------------------------------------------------------------
# structure of read_site shared by C01 / C02 / C09 / C11
# ------------------------------------------------------------------------------------
class ReadSite:
    """locates the per-sample loop, the selection switch, the genotype switch and the site
    classification in read_site; every attribute is None when the shape is not recognised."""

    def __init__(self, chk):
        self.ok = False
        self.fn = f = chk.fn(READ_SITE)
        if f is None:
            return
        # the lookup L
        L = an.calls(f, GET_POP)
        self.lookup = L
        if len(L) != 1:
            chk.fail("SHAPE", "read_site/lookup", f.loc(), "expected exactly one call of Map::get_population_id in read_site, found %d" % len(L))
            return
        self.L_bb = L[0][0]
        # loop header: the Iterator::next call whose Some edge dominates L
        self.header = None
        for b, t in f.calls():
            if callee_is(t["callee"], N.ITER_NEXT) and f.dominates(b, self.L_bb):
                sw = an.switches_on_call_result(f, b)
                if len(sw) == 1:
                    self.header = b
                    self.next_sw = sw[0][0]
                    st = f.term(self.next_sw)
                    self.loop_some = an.edge_target(st, 1)
                    self.loop_none = an.edge_target(st, 0)
        if self.header is None:
            chk.fail("SHAPE", "read_site/loop", f.loc(), "per-sample loop (Iterator::next dominating the population lookup) not recognised")
            return
        self.region = an.arm_region(f, self.next_sw, self.loop_some)
        # selection switch: on the (Option::map'ed) result of L
        self.sel_sw = None
        cur = self.L_bb
        for _ in range(4):
            sw = an.switches_on_call_result(f, cur)
            if sw:
                self.sel_sw = sw[0][0]
                self.sel_subject = sw[0][1]
                break
            # follow a single wrapper call taking the result as first argument (Option::map / copied ...)
            d = an.call_dest_local(f.term(cur))
            nxt = None
            for b, t in f.calls():
                if t["args"] and op_local(t["args"][0]) is not None and f.copy_root(op_local(t["args"][0])) == d:
                    if callee_is(t["callee"], N.OPT_MAP, N.OPT_COPIED):
                        nxt = b
            if nxt is None:
                break
            self.wrapper = nxt
            cur = nxt
        if self.sel_sw is None:
            chk.fail("SHAPE", "read_site/selection-switch", f.loc(self.L_bb), "no switch on the result of get_population_id found")
            return
        st = f.term(self.sel_sw)
        self.sel_some = an.edge_target(st, 1)
        self.sel_none = an.edge_target(st, 0)
        # genotype switch: discriminant of a genotype::Result value inside the loop region
        self.geno_sw = None
        for b, t in f.switches():
            s = an.switch_subject(f, b)
            if s["kind"] == "discr" and s.get("adt") == GENO_RESULT and b in self.region:
                self.geno_sw = b
                self.geno_subject = s
        if self.geno_sw is None:
            chk.fail("SHAPE", "read_site/genotype-switch", f.loc(), "no switch on a genotype::Result discriminant inside the per-sample loop")
            return
        self.arm = {nm: an.variant_target(f, self.geno_sw, nm) for nm in ("Genotype", "Skipped", "Error")}
        # projection switch (Option::as_mut(&mut self.projection))
        self.proj_sw = None
        for b, t in f.calls():
            if callee_is(t["callee"], N.OPT_AS_MUT, N.OPT_AS_REF, N.OPT_IS_SOME):
                tgt = an.arg_pointee(f, t, 0)
                if tgt and an.self_field(tgt) == "projection":
                    sw = an.switches_on_call_result(f, b)
                    if sw:
                        self.proj_call = b
                        self.proj_sw = sw[0][0]
                        st = f.term(self.proj_sw)
                        self.proj_some = an.edge_target(st, 1)
                        self.proj_none = an.edge_target(st, 0)
        if self.proj_sw is None:
            # direct discriminant on self.projection
            for b, t in f.switches():
                s = an.switch_subject(f, b)
                if s["kind"] == "discr" and s["place"] and an.self_field(s["place"]) == "projection":
                    self.proj_sw = b
                    self.proj_some = an.edge_target(t, 1)
                    self.proj_none = an.edge_target(t, 0)
        if self.proj_sw is None:
            chk.fail("SHAPE", "read_site/projection-switch", f.loc(), "no switch on self.projection being Some/None found")
            return
        self.ok = True

    def index_mut_sites(self):
        """(bb, field) for Count::index_mut(&mut self.<field>, ..) calls"""
        f = self.fn
        out = []
        for b, t in f.calls():
            if callee_is(t["callee"], N.INDEX_MUT, COUNT_INDEX_MUT):
                tgt = an.arg_pointee(f, t, 0)
                fld = an.self_field(tgt) if tgt else None
                out.append((b, fld, t))
        return out

    def site_aggregates(self):
        f = self.fn
        out = []
        for b, i, p, rv, s in f.assigns():
            if rv["k"] == "aggregate" and rv["akind"] == "adt" and rv["adt"] == SITE:
                out.append((b, rv["variant"], rv))
        return out


def check_C01(chk):
    chk.explanation = (
        "Structural clauses of C01 decided on the MIR of read_site, sample::Map::shape, create::Runner::run and Create::run: "
        "(a) selection isolation: inside the per-sample loop every effect (writes to *self, genotype discriminant reads, "
        "ReadStatus construction, calls other than the population lookup) is dominated by the Some edge of the switch on "
        "get_population_id's result; (b) complete-only: outside the projection branch Site::Standard is dominated by "
        "skipped_samples.is_empty() being true, the Skipped arm always records the sample, only the Genotype arm writes counts/totals; "
        "(c) the Standard arm of Runner::run adds const 1.0 exactly once at index `counts`; (d) the precision operand is const 0 when "
        "--project is absent; (e) sample::Map::shape has affine form 2*n+1 and agrees with its siblings.")
    chk.not_decided = ("that ALT-index arithmetic and the skip rule compose to the stated count for all call sets (value-level); "
                       "noodles' parsing of records")
    rs = ReadSite(chk)
    if rs.ok:
        c01a(chk, rs)
        c01b(chk, rs)
    c01c(chk)
    c01d(chk)
    c01e(chk)
    chk.floor("C01.a", 3)
    chk.floor("C01.b", 4)
    chk.floor("C01.c", 3)
    chk.floor("C01.d", 1)
    chk.floor("C01.e", 3)


def _effects_in_block(f, b, allowed_call_bbs):
    """effects that must not happen for an unselected sample"""
    eff = []
    for i, s in enumerate(f.stmts(b)):
        if s["k"] != "assign":
            continue
        p = f.canon(P(s["place"]))
        if an.self_field(p) is not None or (p[0] == 1 and p[1] and p[1][0] == ("deref",)):
            eff.append("write to %s" % pstr(p))
        if p[0] == 0:
            eff.append("assignment to the return place")
        rv = s["rv"]
        if rv["k"] == "discr" and rv.get("adt") == GENO_RESULT:
            eff.append("genotype discriminant read")
        if rv["k"] == "aggregate" and rv["akind"] == "adt" and rv["adt"] in (READSTATUS, SITE):
            eff.append("constructs %s::%s" % (rv["adt"], rv["variant"]))
    t = f.term(b)
    if t["k"] == "call" and b not in allowed_call_bbs:
        eff.append("call %s" % callee_name(t["callee"]))
    if t["k"] == "return":
        eff.append("return")
    return eff


def c01a(chk, rs):
    f = rs.fn
    allowed = {rs.L_bb, getattr(rs, "wrapper", rs.L_bb)}
    n = 0
    for b in sorted(rs.region):
        if an.dominated_by_edge(f, rs.sel_sw, rs.sel_some, b):
            continue
        eff = _effects_in_block(f, b, allowed)
        n += 1
        chk.ob("C01.a", "read_site/unselected-path/bb-effects:%s" % ("none" if not eff else ";".join(sorted(set(eff)))),
               not eff, f.loc(b),
               "block on the path taken for a sample that is NOT in the sample map must be effect-free; found: %s" % (eff or "nothing"))
    # the Some edge must dominate every counts/totals/skipped_samples write and the genotype switch
    for b, fld, t in rs.index_mut_sites():
        chk.saw_calls()
        if b in rs.region:
            chk.ob("C01.a", "read_site/index_mut(%s)/under-selection" % fld, an.dominated_by_edge(f, rs.sel_sw, rs.sel_some, b), f.loc(b),
                   "update of self.%s must be dominated by the Some edge of the population lookup" % fld)
    chk.ob("C01.a", "read_site/genotype-switch/under-selection", an.dominated_by_edge(f, rs.sel_sw, rs.sel_some, rs.geno_sw), f.loc(rs.geno_sw),
           "the match on the genotype must be dominated by the Some edge of the population lookup (an unselected sample's ploidy error or missing call must not matter)")
    # the None edge leads back to the loop header without effects
    back = f.reachable_from(rs.sel_none, avoid={rs.header})
    eff = []
    for b in back:
        eff += _effects_in_block(f, b, set())
    chk.ob("C01.a", "read_site/continue-edge", (not eff) and rs.header in f.reachable_from(rs.sel_none), f.loc(rs.sel_sw),
           "the None edge of the lookup must return to the loop header without effects; found %s" % (eff or "nothing"))


def c01b(chk, rs):
    f = rs.fn
    # Standard aggregates
    is_empty = None
    for b, t in f.calls():
        if callee_is(t["callee"], N.VEC_IS_EMPTY):
            tgt = an.arg_pointee(f, t, 0)
            if tgt and an.self_field(tgt) == "skipped_samples":
                sw = an.switches_on_call_result(f, b)
                if sw:
                    is_empty = (b, sw[0][0])
    for b, variant, rv in rs.site_aggregates():
        if variant != "Standard":
            continue
        in_proj = an.dominated_by_edge(f, rs.proj_sw, rs.proj_some, b)
        if in_proj:
            chk.ob("C01.b", "read_site/Standard@projection-branch", True, f.loc(b), "Site::Standard inside the projection branch is governed by C02.a", nontrivial=False)
            continue
        ok = False
        if is_empty is not None:
            st = f.term(is_empty[1])
            true_t = st["otherwise"] if all(a[0] == 0 for a in st["arms"]) else an.edge_target(st, 1)
            ok = an.dominated_by_edge(f, is_empty[1], true_t, b) and an.dominated_by_edge(f, rs.proj_sw, rs.proj_none, b)
        chk.ob("C01.b", "read_site/Standard@no-projection/requires-no-skipped-sample", ok, f.loc(b),
               "without projection Site::Standard must be dominated by the true edge of self.skipped_samples.is_empty() "
               "(a record with a missing/multiallelic selected sample contributes nothing)")
    # Skipped arm records the sample on every path back to the header
    sk = rs.arm.get("Skipped")
    pushes = set()
    for b, t in f.calls():
        if callee_is(t["callee"], N.VEC_PUSH):
            tgt = an.arg_pointee(f, t, 0)
            if tgt and an.self_field(tgt) == "skipped_samples":
                pushes.add(b)
                chk.saw_calls()
    ok = sk is not None and bool(pushes) and rs.header not in f.reachable_from(sk, avoid=pushes | {rs.header} - {sk}) if sk is not None else False
    if sk is not None:
        reach = f.reachable_from(sk, avoid=pushes)
        ok = bool(pushes) and rs.header not in reach and not any(f.term(b)["k"] == "return" for b in reach)
    chk.ob("C01.b", "read_site/Skipped-arm/records-sample", ok, f.loc(sk) if sk is not None else f.loc(),
           "every path from the Skipped arm back to the loop header must pass a push onto self.skipped_samples")
    # pushes only on the Skipped arm
    for b in pushes:
        chk.ob("C01.b", "read_site/push(skipped_samples)/only-in-Skipped-arm", an.dominated_by_edge(f, rs.geno_sw, sk, b), f.loc(b),
               "skipped_samples.push must be dominated by the Skipped edge of the genotype match")
    # counts/totals only written on the Genotype arm
    g = rs.arm.get("Genotype")
    for b, fld, t in rs.index_mut_sites():
        if fld in ("counts", "totals"):
            chk.ob("C01.b", "read_site/index_mut(%s)/only-in-Genotype-arm" % fld, g is not None and an.dominated_by_edge(f, rs.geno_sw, g, b), f.loc(b),
                   "self.%s may only be updated on the Genotype edge of the genotype match" % fld)
    # the amounts: counts += genotype as usize ; totals += const 2
    for b, fld, t in rs.index_mut_sites():
        if fld not in ("counts", "totals"):
            continue
        d = an.call_dest_local(t)
        # find the store through the returned &mut
        amt = None
        for b2, i, p, rv, s in f.assigns():
            if p == (d, (("deref",),)):
                src = rv
                if rv["k"] == "use":
                    pl = op_place(rv["op"])
                    if pl and pl[1] and pl[1][0][0] == "field":
                        sd = f.single_def(pl[0])
                        if sd and sd[0] == "assign":
                            src = sd[3]
                if src["k"] == "binop" and src["op"].startswith("Add"):
                    amt = src["r"] if op_place(src["l"]) == (d, (("deref",),)) else src["l"]
        if fld == "totals":
            chk.ob("C01.b", "read_site/totals+=2", amt is not None and const_val(amt) == 2, f.loc(b),
                   "every called diploid genotype adds exactly 2 chromosomes to the population total (found %s)" % (ostr(amt) if amt else "unrecognised update"))
        else:
            ok = False
            why = "unrecognised"
            if amt is not None and op_local(amt) is not None:
                sl, info = f.slice_locals(amt, through_calls=False)
                reads_geno = any(r["k"] == "x" for r in [])
                # amount must be the discriminant (cast) of the matched Genotype payload
                src_ok = False
                for l in sl:
                    for dd in f.defs.get(l, []):
                        if dd[0] == "assign" and dd[3]["k"] == "discr" and "genotype::Genotype" in dd[3].get("ty", ""):
                            src_ok = True
                ok = src_ok and not info["binops"]
                why = "slice reaches genotype discriminant=%s, arithmetic on the way=%d" % (src_ok, len(info["binops"]))
            chk.ob("C01.b", "read_site/counts+=genotype", ok, f.loc(b),
                   "the ALT count added is the matched Genotype's discriminant (0/1/2) unmodified (%s)" % why)


def c01c(chk):
    f = chk.fn(RUNNER_RUN)
    if f is None:
        return
    rsite = an.calls(f, READ_SITE)
    if len(rsite) != 1:
        chk.fail("C01.c", "Runner::run/read_site-call", f.loc(), "expected one call of read_site, found %d" % len(rsite))
        return
    arms = runner_arms(chk, f)
    if arms is None:
        return
    std = arms["Standard"]
    region = an.arm_region(f, arms["site_sw"], std)
    scs_local = arms["scs"]
    adds = []
    others = []
    for b in sorted(region):
        t = f.term(b)
        if t["k"] == "call":
            c = t["callee"]
            chk.saw_calls()
            uses_scs = any(_points_to_local(f, a, scs_local) for a in t["args"])
            if callee_is(c, N.INDEX_MUT) and uses_scs:
                adds.append((b, t, "index_mut"))
            elif callee_is(c, N.ADD_ASSIGN) and uses_scs:
                adds.append((b, t, "add_assign"))
            elif uses_scs:
                others.append((b, callee_name(c)))
    chk.ob("C01.c", "Runner::run/Standard-arm/exactly-one-update", len(adds) == 1 and not others, f.loc(std),
           "the Standard arm must update the spectrum exactly once (found %d update(s), other uses: %s)" % (len(adds), others))
    for b, t, how in adds:
        if how == "index_mut":
            d = an.call_dest_local(t)
            ok = False
            found = "no store through the returned reference"
            for b2, i, p, rv, s in f.assigns():
                if p == (d, (("deref",),)):
                    if rv["k"] == "binop" and rv["op"] == "Add" and op_place(rv["l"]) == p:
                        v = const_val(rv["r"])
                        ok = isinstance(v, dict) and v.get("f") == "1.0"
                        found = rvstr(rv)
                    else:
                        found = rvstr(rv)
            chk.ob("C01.c", "Runner::run/Standard-arm/weight-one", ok, f.loc(b), "the update must be `cell = cell + 1.0` (found: %s)" % found)
            # index operand is the payload of Site::Standard
            idx = t["args"][1]
            sl, info = f.slice_locals(idx, through_calls=False)
            payload = False
            for l in sl:
                for dd in f.defs.get(l, []):
                    if dd[0] == "assign" and dd[3]["k"] == "use":
                        pl = op_place(dd[3]["op"])
                        if pl and any(e[0] == "downcast" and e[1] == "Standard" for e in pl[1]):
                            payload = True
            chk.ob("C01.c", "Runner::run/Standard-arm/index-is-site-counts", payload, f.loc(b),
                   "the cell updated must be indexed by the counts carried by Site::Standard")
        else:
            g = chk.fn("<sfs_core::spectrum::Spectrum<sfs_core::spectrum::Counts> as core::ops::arith::AddAssign<&sfs_core::spectrum::count::Count>>::add_assign")
            chk.ob("C01.c", "Runner::run/Standard-arm/weight-one", g is not None and _add_assign_is_plus_one(g), f.loc(b), "AddAssign<&Count> for Scs must add 1.0")


def _add_assign_is_plus_one(g):
    for b, i, p, rv, s in g.assigns():
        if p[1] == (("deref",),) and rv["k"] == "binop" and rv["op"] == "Add":
            v = const_val(rv["r"])
            if isinstance(v, dict) and v.get("f") == "1.0":
                return True
    return False


def _points_to_local(f, a, local):
    l = op_local(a)
    if l is None:
        return False
    if l == local:
        return True
    tgt = f.resolve_ptr(l)
    return tgt is not None and tgt[0] == local


def runner_arms(chk, f):
    """decode `match self.reader.read_site()` in Runner::run: returns dict with the switch blocks and
    the arm targets Standard/Projected/InsufficientData/Error/Done and the scs local"""
    rs_bb = an.calls(f, READ_SITE)[0][0]
    sws = an.switches_on_call_result(f, rs_bb)
    outer = None
    inner = None
    for b, s in sws:
        if s["kind"] == "discr" and s.get("adt") == READSTATUS:
            outer = b
        if s["kind"] == "discr" and s.get("adt") == SITE:
            inner = b
    if outer is None or inner is None:
        chk.fail("SHAPE", "Runner::run/match", f.loc(rs_bb), "match on ReadStatus / Site of read_site's result not recognised")
        return None
    out = {"status_sw": outer, "site_sw": inner, "read_site_bb": rs_bb}
    for nm in ("Read", "Error", "Done"):
        out[nm] = an.variant_target(f, outer, nm)
    for nm in ("Standard", "Projected", "InsufficientData"):
        out[nm] = an.variant_target(f, inner, nm)
    cz = an.calls(f, "sfs_core::input::site::reader::Reader::create_zero_scs")
    if len(cz) != 1:
        chk.fail("SHAPE", "Runner::run/create_zero_scs", f.loc(), "expected one create_zero_scs call")
        return None
    out["scs"] = an.call_dest_local(f.term(cz[0][0]))
    return out


def c01d(chk):
    f = chk.fn(CREATE_RUN)
    if f is None:
        return
    sp = an.calls(f, "sfs_core::spectrum::io::write::Builder::set_precision")
    if len(sp) != 1:
        chk.fail("C01.d", "Create::run/set_precision", f.loc(), "expected exactly one set_precision call, found %d" % len(sp))
        return
    b, t = sp[0]
    chk.saw_calls()
    arg = t["args"][1]
    l = op_local(arg)
    root = f.copy_root(l) if l is not None else None
    d = f.single_def(root) if root is not None else None
    ok = False
    why = "precision operand is not the result of a recognised idiom"
    if d and d[0] == "call":
        ct = d[2]
        cp = ct["callee"].get("path") or ""
        if cp == N.OPT_MAP_OR:
            # receiver derives from self.project ; default const 0
            recv_sl, info = f.slice_locals(ct["args"][0])
            from_project = ("sfs::create::Create", "project") in info["fields"]
            dflt = const_val(ct["args"][1])
            ok = from_project and dflt == 0
            why = "Option::map_or(receiver from self.project=%s, default=%s)" % (from_project, ostr(ct["args"][1]))
        elif cp.startswith("core::option::Option::<T>::"):
            why = "idiom %s not on the reviewed list (fail closed)" % cp
    elif root is not None:
        # switch form: every def of root is const 0 on the None edge of a switch on self.project
        defs = f.defs.get(root, [])
        consts = [x for x in defs if x[0] == "assign" and x[3]["k"] == "use" and const_val(x[3]["op"]) == 0]
        if consts:
            for x in consts:
                bb = x[1]
                for sb, st in f.switches():
                    s = an.switch_subject(f, sb)
                    if s["kind"] == "discr" and s["place"] and an.owned_self_field(s["place"]) == "project":
                        if an.dominated_by_edge(f, sb, an.edge_target(st, 0), bb):
                            ok = True
                            why = "const 0 assigned on the None edge of a switch on self.project"
    chk.ob("C01.d", "Create::run/precision-is-0-without-projection", ok, f.loc(b),
           "the precision handed to the writer must be const 0 when --project is absent, so counts print as exact integers (%s)" % why)


SIBLINGS = [
    ("sfs_core::input::sample::Map::shape::{closure#0}", "sample::Map::shape (population size -> axis length)"),
    ("sfs_core::input::site::reader::builder::Project::shape::{closure#0}", "create --project-individuals"),
    ("sfs::view::View::run::{closure#1}", "view --project-individuals"),
]


def affine_siblings(chk, rule):
    forms = {}
    for path, what in SIBLINGS:
        g = chk.prog.fn(path)
        if g is None and path.startswith("sfs::view::View::run"):
            # closure numbering may shift: pick the closure of View::run that has an affine form
            for c in chk.prog.closures_of(VIEW_RUN):
                r = an.affine_form_opaque(c)
                if r is not None and c.locals[0]["ty"] == "usize" and r[0] != 0:
                    g = c
        if g is None:
            chk.fail(rule, "affine/%s/ANCHOR-MISSING" % what, "", "closure %s not found" % path)
            continue
        chk.fns_analysed.add(g.path)
        r = an.affine_form_opaque(g)
        forms[what] = r
        chk.ob(rule, "affine/%s=2x+1" % what, r is not None and r[0] == 2 and r[1] == 1, g.loc(),
               "individuals -> axis length must be 2*x+1 (found %s)" % (("%d*x+%d over %s" % r) if r else "not affine / unrecognised"))
    return forms


def c01e(chk):
    affine_siblings(chk, "C01.e")
    f = chk.fn(MAP_SHAPE)
    if f is None:
        return
    # the closure's variable is the population size looked up by id
    g = chk.prog.fn(SIBLINGS[0][0])
    if g is not None:
        r = an.affine_form_opaque(g)
        chk.ob("C01.e", "Map::shape/variable-is-population-size", r is not None and r[2] is not None and "unwrap" in (r[2] or ""), g.loc(),
               "the x in 2x+1 is the looked-up population size (leaf: %s)" % (r[2] if r else None))


# ====================================================================================
# C02
# ====================================================================================
FOLD_CLOSURE = READ_SITE + "::{closure#0}"
PP_PROJECT_UNCHECKED = "sfs_core::spectrum::project::PartialProjection::project_unchecked"
PROJECTED_NEW = "sfs_core::spectrum::project::Projected::<'a>::new_unchecked"
PITER_NEW = "sfs_core::spectrum::project::ProjectIter::<'a>::new_unchecked"
PROJECT_VALUE = "sfs_core::spectrum::project::ProjectIter::<'a>::project_value"
HYPERGEOM = "sfs_core::utils::hypergeometric_pmf"
SITE_BUILD = "sfs_core::input::site::reader::builder::Builder::build"
PP_FROM_SHAPE = "sfs_core::spectrum::project::PartialProjection::from_shape"


def check_C02(chk):
    chk.explanation = (
        "Structural clauses of C02: (a) the exact/projectable/insufficient decision only compares (total,to) with == and >= and the three "
        "outcomes are wired Standard/Projected/InsufficientData in that priority; (b) argument roles (project_from=totals, from=counts, "
        "project_to, to) are preserved from read_site down to hypergeometric_pmf(size, successes, draws, observed); (c) the three "
        "individuals->shape conversions all have affine form 2i+1; (d) dimension and size validation dominate PartialProjection::from_shape; "
        "(e) InsufficientData adds nothing to the spectrum; (f) the user's precision passes through when projecting.")
    chk.not_decided = "the pmf values, their product over axes, row-major walking of the target (numeric)"
    rs = ReadSite(chk)
    if rs.ok:
        c02a(chk, rs)
        c02b(chk, rs)
    affine_siblings(chk, "C02.c")
    c02d(chk)
    c02e(chk)
    c02f(chk)
    for r, n in (("C02.a", 7), ("C02.b", 10), ("C02.c", 3), ("C02.d", 2), ("C02.e", 1), ("C02.f", 1)):
        chk.floor(r, n)


def _param_root(g, op, depth=0):
    """which formal parameter (local index) an operand is a (re)borrow/copy of; None if unknown"""
    l = op_local(op)
    if l is None:
        p = op_place(op)
        if p and p[1] == (("deref",),) and 1 <= p[0] <= g.argc:
            return p[0]
        return None
    if 1 <= l <= g.argc:
        return l
    r = g.resolve_ptr(l)
    if r is not None:
        if r[1] == (("deref",),) and 1 <= r[0] <= g.argc:
            return r[0]
        return None
    l2 = g.copy_root(l)
    if l2 != l and 1 <= l2 <= g.argc:
        return l2
    return None


def c02a(chk, rs):
    f = rs.fn
    g = chk.fn(FOLD_CLOSURE)
    if g is None:
        return
    # the fold call in read_site
    folds = [(b, t) for b, t in f.calls() if callee_is(t["callee"], N.FOLD) and any((a.get("k") != "const") and op_local(a) is not None and "closure" in f.local_ty(op_local(a)) for a in t["args"])]
    folds = [(b, t) for b, t in folds if an.dominated_by_edge(f, rs.proj_sw, rs.proj_some, b)]
    if len(folds) != 1:
        chk.fail("C02.a", "read_site/fold", f.loc(), "expected exactly one fold in the projection branch, found %d" % len(folds))
        return
    fb, ft = folds[0]
    chk.saw_calls()
    # zip roles: receiver from self.totals, other from project_to()
    zl = op_local(ft["args"][0])
    zd = f.single_def(f.copy_root(zl)) if zl is not None else None
    roles_ok = False
    why = "zip not recognised"
    if zd and zd[0] == "call" and callee_is(zd[2]["callee"], N.ZIP):
        s0, i0 = f.slice_locals(zd[2]["args"][0])
        s1, i1 = f.slice_locals(zd[2]["args"][1])
        first_totals = ("sfs_core::input::site::reader::Reader", "totals") in i0["fields"] and ("sfs_core::input::site::reader::Reader", "counts") not in i0["fields"]
        second_to = any(callee_is(t["callee"], "sfs_core::spectrum::project::PartialProjection::project_to") for _, t in i1["calls"])
        roles_ok = first_totals and second_to
        why = "first=self.totals:%s second=project_to():%s" % (first_totals, second_to)
    chk.ob("C02.a", "read_site/fold/zip(totals, project_to)", roles_ok, f.loc(fb), "the fold must run over (total, to) pairs: " + why)
    # accumulator init (true, true)
    init = ft["args"][1]
    il = op_local(init)
    idf = f.single_def(il) if il is not None else None
    init_ok = bool(idf and idf[0] == "assign" and idf[3]["k"] == "aggregate" and [const_val(o) for o in idf[3]["ops"]] == [True, True])
    chk.ob("C02.a", "read_site/fold/init=(true,true)", init_ok, f.loc(fb), "fold accumulator must start as (exact=true, projectable=true)")
    # closure: comparison operators on (total, to)
    # params: _2 = acc (bool,bool), _3 = (&total, &to)
    def leaf_role(op):
        """'total' | 'to' | None for an operand inside the closure"""
        l = op_local(op)
        if l is None:
            return None
        sl, info = g.slice_locals(op, through_calls=False)
        roles = set()
        for x in sl:
            for d in g.defs.get(x, []):
                if d[0] == "assign" and d[3]["k"] == "use":
                    p = op_place(d[3]["op"])
                    if p and p[0] == 3 and p[1] and p[1][0][0] == "field":
                        roles.add("total" if p[1][0][1] == 0 else "to")
        return roles.pop() if len(roles) == 1 else None
    ret = [d for d in g.defs.get(0, []) if d[0] == "assign"]
    if len(ret) != 1 or ret[0][3]["k"] != "aggregate" or len(ret[0][3]["ops"]) != 2:
        chk.fail("C02.a", "fold-closure/return-shape", g.loc(), "closure must return one (bool, bool) tuple")
        return
    expect = {0: ("exact", {("Eq", "total", "to"), ("Eq", "to", "total")}),
              1: ("projectable", {("Ge", "total", "to"), ("Le", "to", "total")})}
    for idx in (0, 1):
        nm, allowed = expect[idx]
        sl, info = g.slice_locals(ret[0][3]["ops"][idx], through_calls=True)
        cmps = [(b["op"], leaf_role(b["l"]), leaf_role(b["r"])) for b in info["binops"]]
        ok = len(cmps) == 1 and cmps[0] in allowed and not info["calls"]
        chk.ob("C02.a", "fold-closure/%s-operator" % nm, ok, g.loc(),
               "%s must be decided by exactly %s (found %s)" % (nm, " or ".join("%s(%s,%s)" % a for a in sorted(allowed)), cmps))
        # conjunction with the same accumulator component
        acc_fields = set()
        for x in sl:
            for d in g.defs.get(x, []):
                if d[0] == "assign" and d[3]["k"] == "use":
                    p = op_place(d[3]["op"])
                    if p and p[0] == 2 and p[1] and p[1][0][0] == "field":
                        acc_fields.add(p[1][0][1])
        # control dependence: the switch guarding the comparison reads acc.idx
        for b, t in g.switches():
            s = an.switch_subject(g, b)
            if s["root"] is not None:
                for d in g.defs.get(s["root"], []):
                    if d[0] == "assign" and d[3]["k"] == "use":
                        p = op_place(d[3]["op"])
                        if p and p[0] == 2 and p[1] and p[1][0][0] == "field":
                            # does this switch decide our component? its arms assign the component's local
                            tgt_local = op_local(ret[0][3]["ops"][idx])
                            for sb in g.succ.get(b, []):
                                for bb2 in an.arm_region(g, b, sb):
                                    for st in g.stmts(bb2):
                                        if st["k"] == "assign" and P(st["place"]) == (tgt_local, ()):
                                            acc_fields.add(("guard", p[1][0][1]))
        guards = {x[1] for x in acc_fields if isinstance(x, tuple)}
        chk.ob("C02.a", "fold-closure/%s-accumulates-own-flag" % nm, guards == {idx}, g.loc(),
               "component %d must be and-ed with accumulator component %d only (guards read: %s)" % (idx, idx, sorted(guards)))
    # outcome wiring in read_site
    res = an.call_dest_local(ft)
    sw_exact = sw_proj = None
    for b, t in f.switches():
        s = an.switch_subject(f, b)
        if s["kind"] == "value" and s["root"] is not None:
            d = f.single_def(s["root"])
            if d and d[0] == "assign" and d[3]["k"] == "use":
                p = op_place(d[3]["op"])
                if p and p[0] == res and p[1] and p[1][0][0] == "field":
                    if p[1][0][1] == 0:
                        sw_exact = b
                    else:
                        sw_proj = b
    if sw_exact is None or sw_proj is None:
        chk.fail("C02.a", "read_site/outcome-switches", f.loc(fb), "switches on the fold result's components not recognised")
        return
    def true_t(b):
        t = f.term(b)
        return t["otherwise"]
    def false_t(b):
        return an.edge_target(f.term(b), 0)
    for b, variant, rv in rs.site_aggregates():
        if not an.dominated_by_edge(f, rs.proj_sw, rs.proj_some, b):
            continue
        if variant == "Standard":
            ok = an.dominated_by_edge(f, sw_exact, true_t(sw_exact), b)
            chk.ob("C02.a", "read_site/projection/Standard<=exact", ok, f.loc(b), "Site::Standard under projection requires exact (every total == target)")
        elif variant == "Projected":
            ok = an.dominated_by_edge(f, sw_exact, false_t(sw_exact), b) and an.dominated_by_edge(f, sw_proj, true_t(sw_proj), b)
            chk.ob("C02.a", "read_site/projection/Projected<=!exact&&projectable", ok, f.loc(b), "Site::Projected requires !exact and projectable")
        elif variant == "InsufficientData":
            ok = an.dominated_by_edge(f, sw_exact, false_t(sw_exact), b) and an.dominated_by_edge(f, sw_proj, false_t(sw_proj), b)
            chk.ob("C02.a", "read_site/projection/Insufficient<=!projectable", ok, f.loc(b), "InsufficientData requires !exact and !projectable")


def c02b(chk, rs):
    f = rs.fn
    pu = an.calls(f, PP_PROJECT_UNCHECKED)
    if len(pu) != 1:
        chk.fail("C02.b", "read_site/project_unchecked", f.loc(), "expected one project_unchecked call, found %d" % len(pu))
        return
    b, t = pu[0]
    chk.saw_calls()
    a1 = an.arg_pointee(f, t, 1)
    a2 = an.arg_pointee(f, t, 2)
    chk.ob("C02.b", "read_site/project_unchecked(project_from=totals)", a1 is not None and an.self_field(a1) == "totals", f.loc(b),
           "project_from (population size drawn from) must be &self.totals, found %s" % (pstr(a1) if a1 else "?"))
    chk.ob("C02.b", "read_site/project_unchecked(from=counts)", a2 is not None and an.self_field(a2) == "counts", f.loc(b),
           "from (successes) must be &self.counts, found %s" % (pstr(a2) if a2 else "?"))
    # PartialProjection::project_unchecked -> Projected::new_unchecked(project_from, &self.project_to, from, &mut self.to_buf)
    g = chk.fn(PP_PROJECT_UNCHECKED)
    if g is not None:
        cs = an.calls(g, PROJECTED_NEW)
        if len(cs) == 1:
            cb, ct = cs[0]
            roles = [_param_root(g, ct["args"][0]), an.self_field(an.arg_pointee(g, ct, 1) or (0, ())), _param_root(g, ct["args"][2]), an.self_field(an.arg_pointee(g, ct, 3) or (0, ()))]
            chk.ob("C02.b", "PartialProjection::project_unchecked/forwarding", roles == [2, "project_to", 3, "to_buf"], g.loc(cb),
                   "must forward (project_from, &self.project_to, from, &mut self.to_buf); found roles %s" % roles)
        else:
            chk.fail("C02.b", "PartialProjection::project_unchecked/forwarding", g.loc(), "Projected::new_unchecked call not found")
    g = chk.fn("sfs_core::spectrum::project::Projection::project_unchecked")
    if g is not None:
        cs = an.calls(g, PP_PROJECT_UNCHECKED)
        if len(cs) == 1:
            cb, ct = cs[0]
            r0 = an.arg_pointee(g, ct, 0)
            r1 = an.arg_pointee(g, ct, 1)
            ok = r0 is not None and an.self_field(r0) == "inner" and r1 is not None and an.self_field(r1) == "project_from" and _param_root(g, ct["args"][2]) == 2
            chk.ob("C02.b", "Projection::project_unchecked/forwarding", ok, g.loc(cb), "must call inner.project_unchecked(&self.project_from, from)")
        else:
            chk.fail("C02.b", "Projection::project_unchecked/forwarding", g.loc(), "inner project_unchecked call not found")
    g = chk.fn(PROJECTED_NEW)
    if g is not None:
        cs = an.calls(g, PITER_NEW)
        ok = len(cs) == 1 and [_param_root(g, a) for a in cs[0][1]["args"]] == [1, 2, 3, 4]
        chk.ob("C02.b", "Projected::new_unchecked/forwarding", ok, g.loc(), "must forward its four arguments in order")
        w = None
        for b2, i, p, rv, s in g.assigns():
            if rv["k"] == "aggregate" and rv["akind"] == "adt" and rv["adt"].endswith("project::Projected"):
                flds = rv["fields"]
                if "weight" in flds:
                    w = const_val(rv["ops"][flds.index("weight")])
        chk.ob("C02.b", "Projected::new_unchecked/weight=1", isinstance(w, dict) and w.get("f") == "1.0", g.loc(), "a site's projection has weight 1.0 (found %s)" % w)
    g = chk.fn(PITER_NEW)
    if g is not None:
        ok = False
        found = None
        for b2, i, p, rv, s in g.assigns():
            if rv["k"] == "aggregate" and rv["akind"] == "adt" and rv["adt"].endswith("project::ProjectIter"):
                flds = rv["fields"]
                roles = {}
                for fi, fname in enumerate(flds):
                    o = rv["ops"][fi]
                    roles[fname] = _param_root(g, o) if o["k"] != "const" else ("const", const_val(o))
                found = roles
                ok = roles == {"project_from": 1, "project_to": 2, "from": 3, "to": 4, "index": ("const", 0)}
        chk.ob("C02.b", "ProjectIter::new_unchecked/fields", ok, g.loc(), "fields must be (project_from, project_to, from, to, index=0) from arguments 1..4; found %s" % found)
    g = chk.fn(PROJECT_VALUE)
    if g is not None:
        # zip chain order: collect, in order, the self fields iterated
        order = []
        for b2 in g.nodes():
            for s in g.stmts(b2):
                if s["k"] == "assign" and s["rv"]["k"] == "use":
                    p = op_place(s["rv"]["op"])
                    if p:
                        fld = an.self_field(p)
                        if fld:
                            order.append((b2, fld, P(s["place"])[0]))
        # verify zip nesting by tracing: outermost zip = zip(zip(zip(A,B),C),D)
        def zip_tree(op):
            l = op_local(op)
            if l is None:
                return None
            d = g.single_def(g.copy_root(l))
            if d and d[0] == "call":
                c = d[2]["callee"]
                if callee_is(c, N.ZIP):
                    return (zip_tree(d[2]["args"][0]), zip_tree(d[2]["args"][1]))
                if callee_is(c, N.SLICE_ITER, N.DEREF) or callee_is(c, "<sfs_core::spectrum::count::Count as core::ops::deref::Deref>::deref"):
                    return zip_tree(d[2]["args"][0])
                return "call:" + callee_name(c)
            if d and d[0] == "assign":
                rv = d[3]
                if rv["k"] == "ref":
                    p = g.canon(P(rv["place"]))
                    # (*field_copy) -> field
                    if p[1] == (("deref",),):
                        d2 = g.single_def(p[0])
                        if d2 and d2[0] == "assign" and d2[3]["k"] == "use":
                            p2 = op_place(d2[3]["op"])
                            if p2 and an.self_field(p2):
                                return an.self_field(p2)
                        if d2 and d2[0] == "call":
                            return zip_tree({"k": "copy", "place": {"l": p[0], "p": []}})
                    if an.self_field(p):
                        return an.self_field(p)
                if rv["k"] == "use":
                    p2 = op_place(rv["op"])
                    if p2 and an.self_field(p2):
                        return an.self_field(p2)
            return None
        maps = [(b2, t2) for b2, t2 in g.calls() if callee_is(t2["callee"], N.MAP)]
        tree = zip_tree(maps[0][1]["args"][0]) if len(maps) == 1 else None
        chk.ob("C02.b", "project_value/zip-order", tree == ((("project_from", "from"), "project_to"), "to"), g.loc(),
               "zip nesting must be (((project_from, from), project_to), to); found %s" % (tree,))
        c0 = chk.fn(PROJECT_VALUE + "::{closure#0}")
        if c0 is not None:
            hs = an.calls(c0, HYPERGEOM)
            roles = None
            if len(hs) == 1:
                roles = []
                for a in hs[0][1]["args"]:
                    sl, info = c0.slice_locals(a, through_calls=False)
                    r = None
                    for x in sl:
                        for d in c0.defs.get(x, []):
                            if d[0] == "assign" and d[3]["k"] == "use":
                                p = op_place(d[3]["op"])
                                if p and p[0] == 2 and p[1]:
                                    r = tuple(e[1] for e in p[1] if e[0] == "field")
                    roles.append(r)
                nb = [len(c0.slice_locals(a, through_calls=False)[1]["binops"]) for a in hs[0][1]["args"]]
            ok = roles == [(0, 0, 0), (0, 0, 1), (0, 1), (1,)] and nb == [0, 0, 0, 0]
            chk.ob("C02.b", "project_value::closure/hypergeometric_pmf(size,successes,draws,observed)", ok, c0.loc(),
                   "arguments must be the zipped (project_from, from, project_to, to) components in that order, unmodified; found tuple paths %s" % (roles,))
        c1 = chk.fn(PROJECT_VALUE + "::{closure#1}")
        if c1 is not None:
            muls = [rv for _, _, _, rv, _ in c1.assigns() if rv["k"] == "binop"]
            ok = len(muls) == 1 and muls[0]["op"] == "Mul" and {op_local(muls[0]["l"]) and c1.copy_root(op_local(muls[0]["l"])), op_local(muls[0]["r"]) and c1.copy_root(op_local(muls[0]["r"]))} == {2, 3}
            folds = [(b2, t2) for b2, t2 in g.calls() if callee_is(t2["callee"], N.FOLD)]
            one = len(folds) == 1 and isinstance(const_val(folds[0][1]["args"][1]), dict) and const_val(folds[0][1]["args"][1]).get("f") == "1.0"
            chk.ob("C02.b", "project_value/product-of-axis-pmfs", ok and one, c1.loc(), "joint = fold(1.0, |joint, p| joint * p)")


def c02d(chk):
    f = chk.fn(SITE_BUILD)
    if f is None:
        return
    fs = an.calls(f, PP_FROM_SHAPE)
    if len(fs) != 1:
        chk.fail("C02.d", "Builder::build/from_shape", f.loc(), "expected one PartialProjection::from_shape call, found %d" % len(fs))
        return
    fb, ft = fs[0]
    chk.saw_calls()
    # (1) dimension test: Ne/Eq over two Shape::dimensions() results
    dim_ok = False
    for b, t in f.switches():
        s = an.switch_subject(f, b)
        if s["kind"] != "value" or s["root"] is None:
            continue
        d = f.single_def(s["root"])
        if d and d[0] == "assign" and d[3]["k"] == "binop" and d[3]["op"] in ("Ne", "Eq"):
            ls = [op_local(d[3]["l"]), op_local(d[3]["r"])]
            cs = [f.single_def(x) for x in ls if x is not None]
            if len(cs) == 2 and all(c and c[0] == "call" and callee_is(c[2]["callee"], "sfs_core::array::shape::Shape::dimensions") for c in cs):
                good = an.edge_target(t, 0) if d[3]["op"] == "Ne" else t["otherwise"]
                if an.dominated_by_edge(f, b, good, fb):
                    dim_ok = True
    chk.ob("C02.d", "Builder::build/from_shape<=dimensions-equal", dim_ok, f.loc(fb),
           "PartialProjection::from_shape must be dominated by the edge on which source and target dimensionality are equal")
    # (2) size test: find(|from < to|) returned None
    size_ok = False
    why = "no find(..) over zipped (from,to) with a `<` closure whose None edge dominates from_shape"
    for b, t in f.calls():
        if callee_is(t["callee"], "core::iter::traits::iterator::Iterator::find"):
            cl = None
            for a in t["args"]:
                l = op_local(a)
                if l is not None and "closure" in f.local_ty(l):
                    d = f.single_def(l)
                    if d and d[0] == "assign" and d[3]["k"] == "aggregate" and d[3]["akind"] == "closure":
                        cl = chk.prog.fn(d[3]["closure"])
            if cl is None:
                continue
            cmp_ok = False
            for _, ct in cl.calls():
                if callee_is(ct["callee"], "core::cmp::PartialOrd::lt"):
                    cmp_ok = True
            for _, _, _, rv, _ in cl.assigns():
                if rv["k"] == "binop" and rv["op"] == "Lt":
                    cmp_ok = True
            if not cmp_ok:
                continue
            for sb, s in an.switches_on_call_result(f, b):
                none_t = an.edge_target(f.term(sb), 0)
                if an.dominated_by_edge(f, sb, none_t, fb):
                    size_ok = True
                    why = "ok"
    chk.ob("C02.d", "Builder::build/from_shape<=no-axis-with-from<to", size_ok, f.loc(fb), why)


def c02e(chk):
    f = chk.fn(RUNNER_RUN)
    if f is None:
        return
    arms = runner_arms(chk, f)
    if arms is None:
        return
    region = an.arm_region(f, arms["site_sw"], arms["InsufficientData"])
    uses = []
    for b in region:
        t = f.term(b)
        if t["k"] == "call":
            for a in t["args"]:
                if _points_to_local(f, a, arms["scs"]):
                    uses.append(callee_name(t["callee"]))
        for s in f.stmts(b):
            if s["k"] == "assign":
                p = f.canon(P(s["place"]))
                if p[0] == arms["scs"]:
                    uses.append("write")
    chk.ob("C02.e", "Runner::run/InsufficientData-arm/no-spectrum-use", not uses, f.loc(arms["InsufficientData"]),
           "a record with insufficient data must add nothing to the spectrum (uses found: %s)" % uses)


def c02f(chk):
    f = chk.fn(CREATE_RUN)
    if f is None:
        return
    sp = an.calls(f, "sfs_core::spectrum::io::write::Builder::set_precision")
    ok = False
    why = "set_precision / map_or closure not recognised"
    if len(sp) == 1:
        l = op_local(sp[0][1]["args"][1])
        d = f.single_def(f.copy_root(l)) if l is not None else None
        if d and d[0] == "call" and callee_is(d[2]["callee"], N.OPT_MAP_OR):
            cl_l = op_local(d[2]["args"][2])
            cd = f.single_def(cl_l) if cl_l is not None else None
            if cd and cd[0] == "assign" and cd[3]["k"] == "aggregate" and cd[3]["akind"] == "closure":
                cap = [f.resolve_ptr(op_local(o)) if op_local(o) is not None else None for o in cd[3]["ops"]]
                cap_prec = any(c and an.owned_self_field(c) == "precision" for c in cap)
                cl = chk.prog.fn(cd[3]["closure"])
                # closure returns *capture with no arithmetic
                ret_plain = cl is not None and not any(rv["k"] in ("binop", "cast") for _, _, _, rv, _ in cl.assigns()) and not list(cl.calls())
                ok = cap_prec and ret_plain
                why = "closure captures self.precision=%s returns it unmodified=%s" % (cap_prec, ret_plain)
    chk.ob("C02.f", "Create::run/precision-passes-through-when-projecting", ok, f.loc(), why)
