"""One abstraction for "do this for every element": an iterator consumer taking a closure (`it.for_each(|x| ..)`,
`it.fold(init, |acc, x| ..)`, `it.map(|x| ..)`, `it.all(|x| ..)`, ...) and a `for x in it { .. }` loop are the same statement
written two ways.  Rules ask an Iteration for its body (function + blocks), for which part of the element an operand
carries, for the enclosing-function place a body operand refers to, and for the way the body can be left early.

Nothing is executed: element paths and outer places are read off single-definition copy / borrow chains of the MIR."""
from facts import P, op_place, op_local, callee_is, callee_name
import an

ITER = "core::iter::traits::iterator::Iterator::"
# consumer/adaptor name -> index of the closure parameter local that carries the element (closure locals: _1 = environment)
ELEM_PARAM = {
    "for_each": 2, "map": 2, "all": 2, "any": 2, "find": 2, "find_map": 2, "position": 2, "filter": 2, "filter_map": 2,
    "try_for_each": 2, "inspect": 2, "flat_map": 2, "take_while": 2, "skip_while": 2, "max_by_key": 2, "min_by_key": 2,
    "fold": 3, "try_fold": 3,
}
# consumers whose closure sees a reference to the element (one more deref, transparent to element paths)
BY_REF = {"find", "position", "filter", "inspect", "take_while", "skip_while"}
ACC_PARAM = {"fold": 2, "try_fold": 2}


def _fields(proj):
    return tuple(e[1] for e in proj if e[0] == "field")


class Iteration:
    def __init__(self, prog, parent, kind, consumer, bb, term):
        self.prog, self.parent, self.kind, self.consumer, self.bb, self.term = prog, parent, kind, consumer, bb, term
        self.body = None          # Fn holding the body
        self.blocks = set()       # its blocks
        self.iter_op = None       # operand (in parent) of the iterated value
        self.elem_local = None    # closure: parameter local; loop: destination of next()
        self.acc_local = None     # fold closures: accumulator parameter
        self.switch_bb = None     # loop: the switch on next()'s result
        self.some_t = self.none_t = None
        self.loop_blocks = set()
        self._caps = None
        self.through_casts = False  # set to follow value-preserving `as` casts in element paths

    # -- where ---------------------------------------------------------------------------
    def loc(self):
        return self.parent.loc(self.bb)

    def describe(self):
        return "%s over %s at %s" % ("closure of " + self.consumer if self.kind == "closure" else "for loop", self.adaptors(), self.loc())

    # -- the iterated value ----------------------------------------------------------------
    def iter_slice(self):
        """(adaptor names, slice info) of the iterated value, in the parent"""
        sl, info = self.parent.slice_locals(self.iter_op)
        calls = [x for x in info["calls"] if x[0] != self.bb]
        names = [callee_name(x[1]["callee"]).split("::")[-1] for x in calls]
        return names, info, calls

    def adaptors(self, drop=("into_iter", "deref", "deref_mut")):
        names, info, calls = self.iter_slice()
        return [n for n in names if n not in drop]

    def chain(self):
        """receiver chain of the iterated value, see receiver_chain"""
        return receiver_chain(self.parent, self.iter_op)

    # -- element -----------------------------------------------------------------------------
    def elem_path(self, op_or_place, depth=0):
        """tuple of tuple-field indices if the operand/place (in the body function) is (a copy, borrow or dereference of) the element or
        a part of it; () for the whole element; None otherwise"""
        fn = self.body
        p = op_or_place if isinstance(op_or_place, tuple) else op_place(op_or_place)
        if p is None or depth > 24:
            return None
        l, proj = p
        if l == self.elem_local:
            if self.kind == "loop":
                # ((dest as Some).0).rest
                if len(proj) >= 2 and proj[0][0] == "downcast" and proj[0][1] == "Some" and proj[1][0] == "field" and proj[1][1] == 0:
                    return _fields(proj[2:])
                return None
            return _fields(proj)
        ds = fn.defs.get(l, [])
        if len(ds) != 1 or ds[0][0] != "assign":
            return None
        rv = ds[0][3]
        src = None
        if rv["k"] == "use":
            src = op_place(rv["op"])
        elif rv["k"] in ("ref", "rawptr"):
            src = P(rv["place"])
        elif rv["k"] == "copyforderef":
            src = P(rv["place"])
        elif rv["k"] == "cast" and self.through_casts:
            src = op_place(rv["op"])
        if src is None:
            return None
        base = self.elem_path(src, depth + 1)
        if base is None:
            return None
        return base + _fields(proj)

    def indexed_by_element(self, op_or_place, depth=0):
        """(base place, element path of the index) if the operand (in the body function) is other[k] - a place with an index projection, or
        the dereferenced result of Index::index(&other, k) - where k is (a part of) this iteration's element; None otherwise.  `other` is
        given as the canonical place the indexed value lives in (loop form: a place of the enclosing function)."""
        fn = self.body
        p = op_or_place if isinstance(op_or_place, tuple) else op_place(op_or_place)
        if p is None or depth > 12:
            return None
        l, proj = p
        idx = [e for e in proj if e[0] == "index"]
        if idx:
            ip = self.elem_path((idx[0][1], ()))
            if ip is not None:
                base = fn.canon((l, tuple(e for e in proj[:proj.index(idx[0])])))
                return (base, ip)
            return None
        ds = fn.defs.get(l, [])
        if len(ds) != 1:
            return None
        d = ds[0]
        if d[0] == "call" and (d[2]["callee"].get("path") or "") in ("core::ops::index::Index::index", "core::ops::index::IndexMut::index_mut") and len(d[2]["args"]) == 2:
            ip = self.elem_path(d[2]["args"][1])
            if ip is None:
                return None
            bl = op_local(d[2]["args"][0])
            base = fn.resolve_ptr(bl) if bl is not None else None
            return ((base if base is not None else (bl, ())), ip)
        if d[0] == "assign" and d[3]["k"] in ("use", "ref", "copyforderef"):
            src = op_place(d[3]["op"]) if d[3]["k"] == "use" else P(d[3]["place"])
            if src is not None:
                return self.indexed_by_element(src, depth + 1)
        return None

    def acc_path(self, op_or_place, depth=0):
        """same for the accumulator parameter of a fold closure"""
        if self.acc_local is None:
            return None
        save = self.elem_local, self.kind
        self.elem_local, self.kind = self.acc_local, "closure"
        try:
            return self.elem_path(op_or_place, depth)
        finally:
            self.elem_local, self.kind = save

    # -- the enclosing function's places -----------------------------------------------------
    def captures(self):
        if self._caps is None:
            self._caps = an.closure_captures(self.parent, self.body.path) if self.kind == "closure" else []
        return self._caps or []

    def outer_place(self, op_or_place, depth=0):
        """the parent's canonical place a body operand/place refers to (closure: through a captured variable), else None"""
        fn = self.body
        p = op_or_place if isinstance(op_or_place, tuple) else op_place(op_or_place)
        if p is None or depth > 24:
            return None
        if self.kind == "loop":
            if not p[1]:
                r = fn.resolve_ptr(p[0])
                if r is not None:
                    return r
            return fn.canon(p)
        l, proj = p
        if l == 1:
            # _1.k / (*_1).k , then (deref)* rest
            pr = list(proj)
            if pr and pr[0] == ("deref",):
                pr = pr[1:]
            if pr and pr[0][0] == "field":
                k = pr[0][1]
                caps = self.captures()
                if k < len(caps) and caps[k] is not None:
                    rest = tuple(pr[1:])
                    # a by-reference capture is dereferenced once inside the body
                    if rest and rest[0] == ("deref",):
                        rest = rest[1:]
                    return (caps[k][0], tuple(caps[k][1]) + rest)
            return None
        ds = fn.defs.get(l, [])
        if len(ds) != 1 or ds[0][0] != "assign":
            return None
        rv = ds[0][3]
        src = None
        if rv["k"] == "use":
            src = op_place(rv["op"])
        elif rv["k"] in ("ref", "rawptr", "copyforderef"):
            src = P(rv["place"])
        if src is None:
            return None
        base = self.outer_place(src, depth + 1)
        if base is None:
            return None
        pr = tuple(proj)
        if rv["k"] in ("ref", "rawptr") and pr and pr[0] == ("deref",):
            pr = pr[1:]
        elif rv["k"] == "use" and pr and pr[0] == ("deref",) and l > fn.argc:
            # copy of a captured reference, then deref: the captured place itself
            pr = pr[1:]
        return (base[0], tuple(base[1]) + pr)

    def outer_root(self, op_or_place):
        """copy-root local in the parent of the value a body operand carries (through captures), else None"""
        pl = self.outer_place(op_or_place)
        if pl is None:
            return None
        if not [e for e in pl[1] if e[0] != "deref"]:
            return self.parent.copy_root(pl[0])
        return None

    # -- body contents -----------------------------------------------------------------------
    def calls(self, *names):
        out = []
        for b in sorted(self.blocks):
            t = self.body.term(b)
            if t["k"] == "call" and (not names or callee_is(t["callee"], *names)):
                out.append((b, t))
        return out

    def assigns(self):
        for b, i, p, rv, s in self.body.assigns():
            if b in self.blocks:
                yield b, i, p, rv, s

    def switches(self):
        """switches of the body other than the loop's own exhaustion test"""
        return [(b, t) for b, t in self.body.switches() if b in self.blocks and b != self.switch_bb]

    def early_exits(self):
        """blocks outside the body reached from inside it other than by finishing one element (loop: `break`, `return`, `?`;
        closure: none - leaving a closure early only ends that element, unless the consumer short-circuits)"""
        if self.kind == "closure":
            return []
        out = []
        for b in self.blocks:
            for s in self.body.succ.get(b, []):
                if s not in self.loop_blocks and self.body.term(s)["k"] not in ("unreachable", "resume", "abort"):
                    out.append((b, s))
        return out

    def runs_for_every_element(self):
        """no conditional skipping of the whole body and no early exit: the loop is left only when next() returns None"""
        if self.kind == "closure":
            return self.consumer in ("for_each", "fold", "map")
        return not self.early_exits()


def receiver_chain(fn, op, depth=0, recv_is_iter=True):
    """The method chain that produced an iterator value, outermost call first: list of (name, call term, [chains of the other
    arguments that are themselves iterator chains]); ends at the first value that is not the result of a call on a receiver.
    The last entry is ("<source>", place) with the canonical place the innermost receiver borrows or moves (None if unknown).
    A borrowed local (`&mut it`) is followed into the call that produced it only when it is an iterator (the receiver of an Iterator
    method) or a reference returned by a call (`&*x.shape()`); a borrowed container (`(&mut array).iter_mut()`) is the source."""
    out = []
    cur = op
    while depth < 32:
        depth += 1
        l = op_local(cur)
        if l is None:
            pl = op_place(cur)
            out.append(("<source>", fn.canon(pl) if pl else None, []))
            return out
        r = fn.copy_root(l)
        d = fn.single_def(r)
        if d and d[0] == "call" and d[2]["args"]:
            t = d[2]
            full = callee_name(t["callee"])
            nm = full.split("::")[-1]
            if (t["callee"].get("path") or "") == "core::clone::Clone::clone" and len(t["args"]) == 1:
                # `pairs.clone().all(..)`: a copy of the iterator delivers what the iterator would
                cur = t["args"][0]
                recv_is_iter = True
                continue
            side = [receiver_chain(fn, a, depth) for a in t["args"][1:] if op_local(a) is not None and "closure" not in fn.local_ty(op_local(a))]
            out.append((nm, t, side))
            cur = t["args"][0]
            recv_is_iter = (t["callee"].get("path") or "").startswith(ITER)
            continue
        tgt = fn.resolve_ptr(r)
        if tgt is not None and all(e == ("deref",) for e in tgt[1]) and (tgt[1] or recv_is_iter):
            d2 = fn.single_def(fn.copy_root(tgt[0]))
            if d2 and d2[0] == "call" and d2[2]["args"]:
                cur = {"k": "copy", "place": {"l": tgt[0], "p": []}}
                continue
        out.append(("<source>", tgt if tgt is not None else (r, ()), []))
        return out
    return out


def chain_names(ch, drop=("into_iter", "deref", "deref_mut", "as_ref", "borrow", "<source>")):
    return [x[0] for x in ch if x[0] not in drop]


def chain_get(ch, name):
    """call term of the chain entry with that method name"""
    for x in ch:
        if x[0] == name:
            return x[1]
    return None


def _affine_min(x, y):
    """min of two affine forms a*E + b in the same unknown E >= 0 (None when incomparable); None stands for 'no bound'"""
    if x is None:
        return y
    if y is None:
        return x
    if x[0] == y[0]:
        return x if x[1] <= y[1] else y
    return "?"


def value_window(fn, ch, is_values):
    """Which positions of a value sequence an iterator chain delivers, read off the adaptors: returns dict(first=int, count=(a, b) | None,
    exact=bool) meaning positions first .. first + a*E + b - 1 where E is the length of the value sequence (the one unknown: a call of
    elements() / len()), or None when an adaptor is not understood.  `is_values(place)` says whether a chain source is the value sequence.
    Understood: iter, into_iter, enumerate, map, copied, cloned, by_ref, peekable; take(k), skip(k); zip with a range a..b (b affine in E),
    with another view of known length, or with a side of unknown length (then exact=False: the side can only shorten the window);
    a source that is values[a..b]."""
    def affine(op):
        if op["k"] == "const":
            v = op.get("val")
            return (0, v) if isinstance(v, int) and not isinstance(v, bool) else None
        l = op_local(op)
        if l is None:
            return None
        r = an.affine_form_opaque(fn, l)
        if r is None:
            return None
        a, b, leaf = r
        if a != 0 and not (leaf and ("::elements" in leaf or "::len" in leaf)):
            return None
        return (a, b)

    def ev(chain):
        src = chain[-1]
        st = None
        pl = src[1] if src[0] == "<source>" else None
        if pl is not None:
            d = fn.single_def(fn.copy_root(pl[0])) if not pl[1] else None
            if d and d[0] == "assign" and d[3]["k"] == "aggregate" and (d[3].get("adt") or "").endswith("ops::range::Range") and len(d[3]["ops"]) == 2:
                a, b = affine(d[3]["ops"][0]), affine(d[3]["ops"][1])
                if a is None or b is None or a[0] != 0:
                    return None
                st = {"count": (b[0], b[1] - a[1]), "voff": None, "exact": True, "ioff": a[1], "ipath": (), "vpath": None}
            elif is_values(pl, [x[0] for x in chain]):
                st = {"count": (1, 0), "voff": 0, "exact": True, "ioff": None, "ipath": None, "vpath": ()}
        if st is None:
            # values[a..b] as the source: Index::index(values, Range)
            for x in reversed(chain):
                if x[0] == "index" and len(x[1]["args"]) == 2:
                    rl = op_local(x[1]["args"][1])
                    d = fn.single_def(fn.copy_root(rl)) if rl is not None else None
                    if d and d[0] == "assign" and d[3]["k"] == "aggregate" and (d[3].get("adt") or "").endswith("ops::range::Range"):
                        a, b = affine(d[3]["ops"][0]), affine(d[3]["ops"][1])
                        if a is not None and b is not None and a[0] == 0:
                            st = {"count": (b[0], b[1] - a[1]), "voff": a[1], "exact": True, "ioff": None, "ipath": None, "vpath": ()}
                break
        if st is None:
            return {"count": None, "voff": None, "exact": False, "ioff": None, "ipath": None, "vpath": None}      # a side of unknown length
        for name, t, sides in reversed(chain[:-1]):
            if name in ("iter", "iter_mut", "into_iter", "copied", "cloned", "by_ref", "peekable", "deref", "deref_mut", "as_ref", "as_slice", "as_mut_slice", "borrow", "inner", "index"):
                continue
            if name == "map":
                st["ipath"] = st["vpath"] = None       # the element is whatever the closure returns
                continue
            if name == "enumerate":
                # (k, element) with k counted from this point on
                st["vpath"] = (1,) + st["vpath"] if st["vpath"] is not None else None
                st["ipath"] = (0,)
                st["ioff"] = 0
                continue
            if name == "take":
                k = affine(t["args"][1])
                if k is None:
                    return None
                m = _affine_min(st["count"], k)
                if m == "?":
                    return None
                st["count"] = m
            elif name == "skip":
                k = affine(t["args"][1])
                if k is None or k[0] != 0:
                    return None
                if st["count"] is not None:
                    st["count"] = (st["count"][0], st["count"][1] - k[1])
                if st["voff"] is not None:
                    st["voff"] += k[1]
                if st["ioff"] is not None:
                    st["ioff"] += k[1]
            elif name == "zip":
                if len(sides) != 1:
                    return None
                o = ev(sides[0])
                if o is None:
                    return None
                m = _affine_min(st["count"], o["count"])
                if m == "?":
                    return None
                st["count"] = m
                st["exact"] = st["exact"] and o["exact"]
                st["vpath"] = (0,) + st["vpath"] if st["vpath"] is not None else None
                st["ipath"] = (0,) + st["ipath"] if st["ipath"] is not None else None
                if st["voff"] is None and o["voff"] is not None:
                    st["voff"] = o["voff"]
                    st["vpath"] = (1,) + o["vpath"] if o["vpath"] is not None else None
                if st["ioff"] is None and o["ioff"] is not None:
                    st["ioff"] = o["ioff"]
                    st["ipath"] = (1,) + o["ipath"] if o["ipath"] is not None else None
            else:
                return None
        return st
    r = ev(ch)
    if r is None or r["voff"] is None:
        return None
    return {"first": r["voff"], "count": r["count"], "exact": r["exact"], "index_first": r["ioff"], "index_path": r["ipath"], "value_path": r["vpath"]}


def _loop_of(fn, b):
    fwd = fn.reachable_from(b)
    return {x for x in fwd if b in fn.reachable_from(x)} if any(b in fn.reachable_from(s) for s in fn.succ.get(b, [])) else set()


def iterations(prog, f, include_nested=True):
    """every closure-taking iterator call and every `for` loop of f (and, optionally, of its closures)"""
    out = []
    fns = [f] + (prog.closures_of(f.path) if include_nested else [])
    for g in fns:
        for b, t in g.calls():
            p = t["callee"].get("path") or ""
            if not p.startswith(ITER):
                continue
            nm = p[len(ITER):]
            if nm in ELEM_PARAM and t["args"]:
                cp = None
                named = False
                for a in t["args"][1:]:
                    cp = an.closure_of_operand(g, a) or cp
                if cp is None:
                    # a workspace function named as the value (`lines.map(split_line)`): its parameters are the closure's, without the
                    # environment in front
                    for a in t["args"][1:]:
                        if a["k"] == "const" and a.get("fn") and prog.fn(a["fn"]) is not None and prog.fn(a["fn"]).kind != "Closure" and a["fn"].startswith(("sfs_core::", "sfs::")):
                            cp, named = a["fn"], True
                body = prog.fn(cp) if cp else None
                if body is None:
                    continue
                it = Iteration(prog, g, "closure", nm, b, t)
                it.body = body
                it.blocks = set(body.nodes())
                it.iter_op = t["args"][0]
                it.elem_local = ELEM_PARAM[nm] - (1 if named else 0)
                it.acc_local = (ACC_PARAM[nm] - (1 if named else 0)) if nm in ACC_PARAM else None
                it.named_fn = named
                out.append(it)
            elif nm == "next":
                loop = _loop_of(g, b)
                if not loop:
                    continue
                oc = an.option_outcomes(g, b)
                if oc is None:
                    continue
                sb, some_t, none_t = oc
                if some_t is None or none_t is None or sb not in loop:
                    continue
                it = Iteration(prog, g, "loop", "for", b, t)
                it.body = g
                it.switch_bb, it.some_t, it.none_t = sb, some_t, none_t
                it.loop_blocks = loop
                # body: loop blocks reached from the Some edge without passing the header again
                body = set()
                st = [some_t]
                while st:
                    x = st.pop()
                    if x in body or x not in loop or x == b:
                        continue
                    body.add(x)
                    st.extend(g.succ.get(x, []))
                body.discard(sb)
                it.blocks = body
                it.elem_local = an.call_dest_local(t)
                # the iterated value: next(&mut iter) with iter = into_iter(x)
                il = op_local(t["args"][0])
                tgt = g.resolve_ptr(il) if il is not None else None
                it.iter_op = {"k": "copy", "place": {"l": tgt[0], "p": []}} if tgt is not None and not tgt[1] else t["args"][0]
                out.append(it)
    return out


def find(prog, f, pred):
    return [it for it in iterations(prog, f) if pred(it)]


# ------------------------------------------------------------------------------------------
# a boolean that is the conjunction, over every element, of one comparison of element parts
# ------------------------------------------------------------------------------------------
CMP_OPS = ("Eq", "Ne", "Lt", "Le", "Gt", "Ge")
CMP_CALLS = {"core::cmp::PartialEq::eq": "Eq", "core::cmp::PartialEq::ne": "Ne", "core::cmp::PartialOrd::lt": "Lt", "core::cmp::PartialOrd::le": "Le",
             "core::cmp::PartialOrd::gt": "Gt", "core::cmp::PartialOrd::ge": "Ge"}


def slice_comparisons(it, info):
    """(comparisons, other calls) of a backward slice: MIR comparison operators and the PartialEq / PartialOrd methods (comparing through
    references) alike, each as (op, left element path, right element path)"""
    cmps = [(b["op"], it.elem_path(b["l"]), it.elem_path(b["r"])) for b in info["binops"] if b["op"] in CMP_OPS]
    other = 0
    for b, t in info["calls"]:
        nm = t["callee"].get("path") or ""
        if nm in CMP_CALLS and len(t["args"]) == 2:
            cmps.append((CMP_CALLS[nm], it.elem_path(t["args"][0]), it.elem_path(t["args"][1])))
        else:
            other += 1
    return cmps, other


def body_comparisons(it):
    """every comparison in the body of an iteration, same encoding"""
    out = []
    for _, _, _, rv, _ in it.assigns():
        if rv["k"] == "binop" and rv["op"] in CMP_OPS:
            out.append((rv["op"], it.elem_path(rv["l"]), it.elem_path(rv["r"])))
    for _, t in it.calls():
        nm = t["callee"].get("path") or ""
        if nm in CMP_CALLS and len(t["args"]) == 2:
            out.append((CMP_CALLS[nm], it.elem_path(t["args"][0]), it.elem_path(t["args"][1])))
        elif nm.startswith("core::cmp::"):
            out.append(("call:" + nm.split("::")[-1], None, None))
    return out


def conj_flag(prog, f, its, root):
    """`root` is a copy-root local of f tested by a switch.  Recognises
         fold:  (.., root, ..) = it.fold((true, ..), |acc, x| (.., acc.k && cmp(x), ..))
         loop:  let mut root = true; for x in it { root = root && cmp(x) }      (also `root &= cmp(x)`)
         all:   root = it.all(|x| cmp(x))
       and returns dict(form, it, init (True/False/None), cmps=[(op, left element path, right element path)], own (bool: the flag is
       and-ed with itself only), calls (number of calls in the value's slice)); None when root is none of these."""
    d = f.single_def(root)
    # ---- all ----
    if d and d[0] == "call":
        for it in its:
            if it.kind == "closure" and it.parent is f and it.bb == d[1] and it.consumer == "all":
                g = it.body
                sl, info = g.slice_locals(0, through_calls=True)
                cmps, other = slice_comparisons(it, info)
                return {"form": "all", "it": it, "init": True, "cmps": cmps, "own": not list(g.switches()), "calls": other, "where": g.loc()}
        return None
    # ---- fold ----
    if d and d[0] == "assign" and d[3]["k"] == "use":
        p = op_place(d[3]["op"])
        if p and len(p[1]) == 1 and p[1][0][0] == "field":
            k = p[1][0][1]
            res = f.copy_root(p[0])
            rd = f.single_def(res)
            for it in its:
                if it.kind == "closure" and it.parent is f and it.consumer == "fold" and rd and rd[0] == "call" and it.bb == rd[1]:
                    g = it.body
                    ret = [x for x in g.defs.get(0, []) if x[0] == "assign"]
                    if len(ret) != 1 or ret[0][3]["k"] != "aggregate" or k >= len(ret[0][3]["ops"]):
                        return None
                    comp = ret[0][3]["ops"][k]
                    sl, info = g.slice_locals(comp, through_calls=True)
                    cmps, other = slice_comparisons(it, info)
                    deps = set()
                    for x in sl:
                        for dd in g.defs.get(x, []):
                            if dd[0] == "assign" and dd[3]["k"] == "use":
                                ap = it.acc_path(dd[3]["op"])
                                if ap:
                                    deps.add(ap[0])
                    tgt_local = op_local(comp)
                    and_shape = True
                    from facts import const_val as _cv
                    for b, t in g.switches():
                        ap = it.acc_path(t["discr"])
                        if not ap:
                            continue
                        false_t = an.edge_target(t, 0)
                        for sb in g.succ.get(b, []):
                            for bb2 in an.arm_region(g, b, sb):
                                for st in g.stmts(bb2):
                                    if st["k"] == "assign" and P(st["place"]) == (tgt_local, ()):
                                        deps.add(ap[0])
                                        # `acc && cmp`: once the flag is false it stays false (the false arm stores false, no arm stores
                                        # true); `acc || cmp` stores true on the true arm and is no conjunction
                                        if ap[0] == k and st["rv"]["k"] == "use":
                                            v_ = _cv(st["rv"]["op"])
                                            if v_ is True or (sb == false_t and v_ is not False):
                                                and_shape = False
                                        elif ap[0] == k and sb == false_t:
                                            and_shape = False
                    # init component
                    init = None
                    il = op_local(it.term["args"][1])
                    idf = f.single_def(il) if il is not None else None
                    if idf and idf[0] == "assign" and idf[3]["k"] == "aggregate" and k < len(idf[3]["ops"]):
                        from facts import const_val
                        init = const_val(idf[3]["ops"][k])
                    return {"form": "fold", "it": it, "init": init, "cmps": cmps, "own": deps == {k} and and_shape, "calls": other, "where": g.loc()}
        return None
    # ---- loop ----
    ds = f.defs.get(root, [])
    if len(ds) >= 2:
        from facts import const_val
        for it in its:
            if it.kind != "loop" or it.parent is not f:
                continue
            ins = [x for x in ds if x[1] in it.blocks]
            outs = [x for x in ds if x[1] not in it.loop_blocks]
            if not ins or len(outs) != 1 or len(ins) + len(outs) != len(ds) or not f.dominates(outs[0][1], it.bb):
                continue
            init = const_val(outs[0][3]["op"]) if outs[0][0] == "assign" and outs[0][3]["k"] == "use" else None
            cmps = []
            calls = 0
            deps = set()
            stop = lambda l, it=it: l == it.elem_local
            for x in ins:
                if x[0] != "assign":
                    calls += 1
                    continue
                rv = x[3]
                ops = [rv["op"]] if rv["k"] == "use" else ([rv["l"], rv["r"]] if rv["k"] == "binop" else [])
                if rv["k"] == "binop" and rv["op"] in CMP_OPS:
                    cmps.append((rv["op"], it.elem_path(rv["l"]), it.elem_path(rv["r"])))
                    ops = []
                if rv["k"] == "binop" and rv["op"] == "BitAnd":
                    for o in (rv["l"], rv["r"]):
                        l = op_local(o)
                        if l is not None and f.copy_root(l) == root:
                            deps.add(root)
                def_blocks = {x[1]}
                for o in ops:
                    l = op_local(o)
                    if l is not None and f.copy_root(l) == root:
                        continue
                    sl, info = f.slice_locals(o, through_calls=True, stop=stop)
                    c_, o_ = slice_comparisons(it, info)
                    cmps += c_
                    calls += o_
                    for y in sl:
                        if y == it.elem_local:
                            continue
                        for dd in f.defs.get(y, []):
                            if dd[1] in it.blocks:
                                def_blocks.add(dd[1])
                # control dependence on a flag: the `&&` short-circuit tests the flag and assigns in its arms
                for b, t in it.switches():
                    sl_ = op_local(t["discr"])
                    if sl_ is None:
                        continue
                    r2 = f.copy_root(sl_)
                    if len(f.defs.get(r2, [])) < 2:
                        continue
                    for sb in set(f.succ.get(b, [])):
                        reg = an.arm_region(f, b, sb)
                        if any(db in reg for db in def_blocks):
                            deps.add(r2)
            # a conjunction never sets the flag: no store of `true` inside the loop (`flag = flag || cmp` would)
            sets_true = any(x[0] == "assign" and x[3]["k"] == "use" and const_val(x[3]["op"]) is True for x in ins)
            or_op = any(x[0] == "assign" and x[3]["k"] == "binop" and x[3]["op"] == "BitOr" for x in ins)
            return {"form": "loop", "it": it, "init": init, "cmps": cmps, "own": deps == {root} and not sets_true and not or_op, "calls": calls, "where": it.loc()}
    return None


def accumulation(prog, f, its, root):
    """how the parent's local `root` is accumulated: dict(init=<operand>, it=<Iteration>, result=<operand in the body carrying the new value>,
    is_acc=<predicate on body operands>) for `root = it.fold(init, |acc, x| new)` and for `let mut root = init; for x in it { root = new }`"""
    d = f.single_def(root)
    if d and d[0] == "call":
        for it in its:
            if it.kind == "closure" and it.consumer == "fold" and it.parent is f and it.bb == d[1]:
                r0 = it.body.defs.get(0, [])
                if len(r0) != 1:
                    return None
                res = None
                if r0[0][0] == "assign" and r0[0][3]["k"] == "use":
                    res = r0[0][3]["op"]
                elif r0[0][0] == "assign":
                    res = ("rv", r0[0][3])
                elif r0[0][0] == "call":
                    res = ("call", r0[0][2])
                return {"init": it.term["args"][1], "it": it, "result": res, "is_acc": lambda op, it=it: it.acc_path(op) == ()}
        return None
    ds = f.defs.get(root, [])
    if len(ds) == 2:
        for it in its:
            if it.kind != "loop" or it.parent is not f:
                continue
            ins = [x for x in ds if x[1] in it.blocks]
            outs = [x for x in ds if x[1] not in it.loop_blocks]
            if len(ins) == 1 and len(outs) == 1 and f.dominates(outs[0][1], it.bb) and outs[0][0] == "assign" and outs[0][3]["k"] == "use":
                x = ins[0]
                res = x[3]["op"] if x[0] == "assign" and x[3]["k"] == "use" else (("rv", x[3]) if x[0] == "assign" else ("call", x[2]))
                def is_acc(op, root=root):
                    l = op_local(op)
                    return l is not None and f.copy_root(l) == root
                return {"init": outs[0][3]["op"], "it": it, "result": res, "is_acc": is_acc}
    return None




# ------------------------------------------------------------------------------------------
# "for every element, cmp(element parts) holds" established at a block
# ------------------------------------------------------------------------------------------
NEG = {"Eq": "Ne", "Ne": "Eq", "Lt": "Ge", "Ge": "Lt", "Le": "Gt", "Gt": "Le"}
FLIP = {"Eq": "Eq", "Ne": "Ne", "Lt": "Gt", "Gt": "Lt", "Le": "Ge", "Ge": "Le"}


def _side(it, op):
    """a comparison operand as an element path, or as ("at", base place, index path) when it is other[k] with k a part of the element"""
    ep = it.elem_path(op)
    if ep is not None:
        return ep
    ix = it.indexed_by_element(op)
    if ix is not None:
        return ("at", ix[0], ix[1])
    return None


def norm_cmp(c):
    """(op, left path, right path) with the lexicographically smaller path on the left; a side that is `other[k]` with k a part of the
    element is written ("at", base place, path of k) and always goes to the right"""
    op, l, r = c
    lat, rat = (l is not None and l[:1] == ("at",)), (r is not None and r[:1] == ("at",))
    if lat and not rat and r is not None:
        return (FLIP[op], r, l)
    if lat or rat:
        return c
    if l is not None and r is not None and r < l:
        return (FLIP[op], r, l)
    return c


def _closure_single_cmp(it):
    """the single comparison a predicate closure returns (possibly negated): (op, l, r) or None"""
    g = it.body
    if list(g.switches()):
        return None
    sl, info = g.slice_locals(0, through_calls=True)
    cmps, other = slice_comparisons(it, info)
    if len(cmps) != 1 or other:
        return None
    c = cmps[0]
    nots = sum(1 for x in sl for d in g.defs.get(x, []) if d[0] == "assign" and d[3]["k"] == "unop" and d[3]["op"] == "Not")
    d0 = g.defs.get(0, [])
    if len(d0) == 1 and d0[0][0] == "assign" and d0[0][3]["k"] == "unop" and d0[0][3]["op"] == "Not":
        nots += 1
    if nots % 2 == 1:
        c = (NEG[c[0]], c[1], c[2])
    return c


def forall_guards(prog, f, its, B):
    """Ways in which `for every element of an iteration, a comparison of element parts holds` is established at block B of f:
         it.all(|x| cmp) on the true edge;  it.any(|x| !cmp) / it.find(..) / it.position(..) on the false / None edge;
         `it.all(..).then(|| ..)` is handled by the caller passing the block of the then() call;
         for x in it { if !cmp { return / break-to-exit } } with B reached only after exhaustion;
         a conjunction flag (conj_flag) tested on its true edge.
       Returns [dict(it, cmp=(op, left path, right path) normalised, how)]"""
    out = []
    for it in its:
        if it.parent is not f:
            continue
        if it.kind == "closure" and it.consumer in ("all", "any", "find", "position"):
            c = _closure_single_cmp(it)
            if c is None:
                continue
            for sb, s in an.switches_on_call_result(f, it.bb):
                st = f.term(sb)
                if it.consumer == "all":
                    edge, holds = st["otherwise"], c
                elif it.consumer == "any":
                    edge, holds = an.edge_target(st, 0), (NEG[c[0]], c[1], c[2])
                else:
                    edge, holds = an.variant_target(f, sb, "None"), (NEG[c[0]], c[1], c[2])
                if edge is not None and an.dominated_by_edge(f, sb, edge, B):
                    out.append({"it": it, "cmp": norm_cmp(holds), "how": "%s(..) %s" % (it.consumer, "is true" if it.consumer == "all" else "finds nothing")})
        elif it.kind == "loop":
            if B in it.loop_blocks:
                continue
            if not an.dominated_by_edge(f, it.switch_bb, it.none_t, B):
                # B may still be reached only after exhaustion: no early exit of the loop leads to it on a feasible path (an inlined helper's
                # `return Kind::TooFew` merges with its normal result in front of the caller's `match`)
                if it.none_t is None or B not in f.reachable_from(it.none_t) or not flag_read_after_full_run(f, it, B):
                    continue
            for sb, st in it.switches():
                s = an.switch_subject(f, sb)
                if s["kind"] != "value" or s["root"] is None:
                    continue
                d = f.single_def(s["root"])
                c = None
                if d and d[0] == "assign" and d[3]["k"] == "binop" and d[3]["op"] in CMP_OPS:
                    c = (d[3]["op"], _side(it, d[3]["l"]), _side(it, d[3]["r"]))
                elif d and d[0] == "call" and (d[2]["callee"].get("path") or "") in CMP_CALLS and len(d[2]["args"]) == 2:
                    c = (CMP_CALLS[d[2]["callee"]["path"]], it.elem_path(d[2]["args"][0]), it.elem_path(d[2]["args"][1]))
                elif d and d[0] == "assign" and d[3]["k"] == "unop" and d[3]["op"] == "Not":
                    l2 = op_local(d[3]["operand"])
                    d2 = f.single_def(f.copy_root(l2)) if l2 is not None else None
                    if d2 and d2[0] == "assign" and d2[3]["k"] == "binop" and d2[3]["op"] in CMP_OPS:
                        c = (NEG[d2[3]["op"]], _side(it, d2[3]["l"]), _side(it, d2[3]["r"]))
                    elif d2 and d2[0] == "call" and (d2[2]["callee"].get("path") or "") in CMP_CALLS and len(d2[2]["args"]) == 2:
                        c = (NEG[CMP_CALLS[d2[2]["callee"]["path"]]], it.elem_path(d2[2]["args"][0]), it.elem_path(d2[2]["args"][1]))
                if c is None:
                    continue
                t_true, t_false = st["otherwise"], an.edge_target(st, 0)
                for bad, holds in ((t_true, (NEG[c[0]], c[1], c[2])), (t_false, c)):
                    # (edges that cannot be taken once the violating arm has set its result - `return Some(err)` followed by the
                    # caller's `match .. { None => B }` - are not paths)
                    dead = an.infeasible_edges_from(f, bad, None)
                    reach = an.reachable_with_edges_removed(f, bad, set(), dead)
                    if B not in reach and it.bb not in reach:
                        out.append({"it": it, "cmp": norm_cmp(holds), "how": "the loop leaves as soon as an element violates it and B is not reached from there"})
                    elif B not in reach and bad in it.loop_blocks:
                        # the loop goes on, but what the violating arm stored (a flag, an enum value: `fit = Fit::Projectable`) decides a later
                        # test against B, and nothing on the way stores the value B needs
                        out.append({"it": it, "cmp": norm_cmp(holds), "how": "an element that violates it stores a value with which B is not reached"})
    # flags (all(..) results are handled above; conjunction and violation flags here) tested on their true edge
    flags = forall_flags(prog, f, its)
    for sb, st in f.switches():
        s = an.switch_subject(f, sb)
        if s["kind"] != "value" or s["root"] is None or not an.dominated_by_edge(f, sb, st["otherwise"], B):
            continue
        fl = flags.get(s["root"]) or flags.get(f.copy_root(s["root"]))
        if fl is not None and fl["how"] != "all(..)":
            if fl["how"].startswith("conjunction flag") and not flag_read_after_full_run(f, fl["it"], sb):
                continue
            out.append({"it": fl["it"], "cmp": fl["cmp"], "how": fl["how"] + " is true"})
    return out


def flag_read_after_full_run(f, it, sb):
    """a flag accumulated in loop `it` and tested at sb speaks for every element only if no early exit of the loop reaches sb"""
    if it.kind != "loop":
        return True
    for (b, s_) in it.early_exits():
        dead = an.infeasible_edges_from(f, s_, None)
        if sb in an.reachable_with_edges_removed(f, s_, set(), dead):
            return False
    return True


def exists_guards(prog, f, its, B):
    """Ways in which `some element of an iteration makes a comparison of element parts true` is established at block B of f:
         it.all(|x| cmp) on the false edge (NEG cmp);  it.any(|x| cmp) on the true edge;  find / position on the Some edge;
         a loop left early on an edge of a per-element comparison, B reached only through that edge (value provenance included:
         `return Kind::TooFew` in an (inlined) helper followed by `match kind { TooFew => B }`);
         a conjunction or violation flag tested on its false edge.
       Returns [dict(it, cmp normalised, how)]"""
    out = []
    for it in its:
        if it.parent is not f:
            continue
        if it.kind == "closure" and it.consumer in ("all", "any", "find", "position"):
            c = _closure_single_cmp(it)
            if c is None:
                continue
            for sb, s in an.switches_on_call_result(f, it.bb):
                st = f.term(sb)
                if it.consumer == "all":
                    edge, holds = an.edge_target(st, 0), (NEG[c[0]], c[1], c[2])
                elif it.consumer == "any":
                    edge, holds = st["otherwise"], c
                else:
                    edge, holds = an.variant_target(f, sb, "Some"), c
                if edge is not None and an.dominated_by_edge(f, sb, edge, B):
                    out.append({"it": it, "cmp": norm_cmp(holds), "how": "%s(..) %s" % (it.consumer, "is false" if it.consumer == "all" else "finds one")})
        elif it.kind == "loop":
            if B in it.loop_blocks:
                continue
            for sb, st in it.switches():
                r = _cmp_of_switch(f, it, sb, st)
                if r is None:
                    continue
                c, t_true, t_false = r
                for tgt, holds in ((t_true, c), (t_false, (NEG[c[0]], c[1], c[2]))):
                    if tgt is None:
                        continue
                    # the edge leaves the loop for good
                    if it.bb in f.reachable_from(tgt) or it.switch_bb in f.reachable_from(tgt):
                        continue
                    if an.dominated_by_edge(f, sb, tgt, B):
                        out.append({"it": it, "cmp": norm_cmp(holds), "how": "the loop is left at the first element for which it is true, and B is reached only from there"})
    # B lies behind a test of a stored value (`match fit { Projectable => B }`) all of whose sources sit under one edge of a per-element
    # comparison inside a loop: some element took that edge
    for sw, stw in f.switches():
        for e in set(f.succ.get(sw, [])):
            if not an.dominated_by_edge(f, sw, e, B):
                continue
            D = an.edge_provenance(f, sw, e)
            if not D:
                continue
            for it in its:
                if it.parent is not f or it.kind != "loop" or sw in it.loop_blocks or not all(d in it.loop_blocks for d in D):
                    continue
                for sb, st in it.switches():
                    r = _cmp_of_switch(f, it, sb, st)
                    if r is None:
                        continue
                    c, t_true, t_false = r
                    for tgt, holds in ((t_true, c), (t_false, (NEG[c[0]], c[1], c[2]))):
                        if tgt is not None and all(d == tgt or an.dominated_by_edge(f, sb, tgt, d) for d in D):
                            out.append({"it": it, "cmp": norm_cmp(holds), "how": "B needs a value that is stored only where it is true for some element"})
    flags = forall_flags(prog, f, its)
    for sb, st in f.switches():
        s = an.switch_subject(f, sb)
        if s["kind"] != "value" or s["root"] is None or not an.dominated_by_edge(f, sb, an.edge_target(st, 0), B):
            continue
        fl = flags.get(s["root"]) or flags.get(f.copy_root(s["root"]))
        if fl is not None and fl["how"] != "all(..)":
            c = fl["cmp"]
            out.append({"it": fl["it"], "cmp": norm_cmp((NEG[c[0]], c[1], c[2])), "how": fl["how"] + " is false"})
    return out


def _cmp_of_switch(f, it, sb, st):
    """(comparison, true target, false target) decided by the switch at sb inside the body of loop `it`, else None"""
    s = an.switch_subject(f, sb)
    if s["kind"] != "value" or s["root"] is None:
        return None
    d = f.single_def(s["root"])
    c = None
    if d and d[0] == "assign" and d[3]["k"] == "binop" and d[3]["op"] in CMP_OPS:
        c = (d[3]["op"], _side(it, d[3]["l"]), _side(it, d[3]["r"]))
    elif d and d[0] == "call" and (d[2]["callee"].get("path") or "") in CMP_CALLS and len(d[2]["args"]) == 2:
        c = (CMP_CALLS[d[2]["callee"]["path"]], it.elem_path(d[2]["args"][0]), it.elem_path(d[2]["args"][1]))
    elif d and d[0] == "assign" and d[3]["k"] == "unop" and d[3]["op"] == "Not":
        l2 = op_local(d[3]["operand"])
        d2 = f.single_def(f.copy_root(l2)) if l2 is not None else None
        if d2 and d2[0] == "assign" and d2[3]["k"] == "binop" and d2[3]["op"] in CMP_OPS:
            c = (NEG[d2[3]["op"]], _side(it, d2[3]["l"]), _side(it, d2[3]["r"]))
        elif d2 and d2[0] == "call" and (d2[2]["callee"].get("path") or "") in CMP_CALLS and len(d2[2]["args"]) == 2:
            c = (NEG[CMP_CALLS[d2[2]["callee"]["path"]]], it.elem_path(d2[2]["args"][0]), it.elem_path(d2[2]["args"][1]))
    if c is None:
        return None
    return c, st["otherwise"], an.edge_target(st, 0)


def forall_flags(prog, f, its):
    """{local: dict(it, cmp, how)}: boolean locals of f that are true only if `cmp` holds for every element of an iteration:
    the result of all(..), a conjunction flag, and a violation flag (`let mut ok = true; for x in it { if !cmp(x) { ok = false; break } }`)"""
    from facts import const_val
    out = {}
    for it in its:
        if it.parent is not f:
            continue
        if it.kind == "closure" and it.consumer == "all":
            c = _closure_single_cmp(it)
            d = an.call_dest_local(it.term)
            if c is not None and d is not None:
                out[d] = {"it": it, "cmp": norm_cmp(c), "how": "all(..)"}
        if it.kind != "loop":
            continue
        # violation flags: cleared inside the body, or on the way out of the loop (`ok = false; break`)
        after = f.reachable_from(it.none_t)
        exits = it.early_exits()
        exit_regions = {}
        for (b, s_) in exits:
            exit_regions[(b, s_)] = {x for x in f.reachable_from(s_) if x not in after and x not in it.loop_blocks}
        region_all = set(it.blocks)
        for r_ in exit_regions.values():
            region_all |= r_
        cands = {}
        for b, i, p, rv, s_ in f.assigns():
            if b in region_all and not p[1] and rv["k"] == "use" and const_val(rv["op"]) is False:
                cands.setdefault(p[0], []).append(b)
        for fl, blocks in cands.items():
            ds = f.defs.get(fl, [])
            outs = [x for x in ds if x[1] not in region_all]
            ins = [x for x in ds if x[1] in region_all]
            if len(outs) != 1 or len(ins) + 1 != len(ds) or not f.dominates(outs[0][1], it.bb):
                continue
            if not (outs[0][0] == "assign" and outs[0][3]["k"] == "use" and const_val(outs[0][3]["op"]) is True):
                continue
            if not all(x[0] == "assign" and x[3]["k"] == "use" and const_val(x[3]["op"]) is False for x in ins):
                continue
            holds = set()
            ok = True
            for b in blocks:
                found = None
                for sb, st in it.switches():
                    r = _cmp_of_switch(f, it, sb, st)
                    if r is None:
                        continue
                    c, t_true, t_false = r
                    if an.dominated_by_edge(f, sb, t_true, b):
                        found = (NEG[c[0]], c[1], c[2])
                    elif an.dominated_by_edge(f, sb, t_false, b):
                        found = c
                if found is None:
                    ok = False
                else:
                    holds.add(norm_cmp(found))
            # leaving the loop early is only possible through a path that clears the flag
            for (b, s_), reg in exit_regions.items():
                joins = [x for x in after if any(p_ in reg or p_ == b for p_ in f.pred.get(x, []))]
                reach_without = f.reachable_from(s_, avoid=set(blocks))
                if any(j in reach_without for j in joins) and not any(f.dominates(fb, b) for fb in blocks if fb in it.blocks):
                    ok = False
            if ok and len(holds) == 1:
                out[fl] = {"it": it, "cmp": next(iter(holds)), "how": "violation flag cleared at the first element that breaks it"}
    # conjunction flags
    for sb, st in f.switches():
        s = an.switch_subject(f, sb)
        if s["kind"] != "value" or s["root"] is None or s["root"] in out:
            continue
        cf = conj_flag(prog, f, its, s["root"])
        if cf is not None and cf["form"] in ("fold", "loop") and cf["own"] and cf["init"] is True and len(cf["cmps"]) == 1 and not cf["calls"]:
            out[s["root"]] = {"it": cf["it"], "cmp": norm_cmp(cf["cmps"][0]), "how": "conjunction flag (%s form)" % cf["form"]}
    return out
