#!/usr/bin/env python3
"""debugging aid: `python3 -i engine/dbg.py <repo-dir>` gives prog, an, IT, facts in an interactive session (or import and call load())"""
import os, sys
sys.path.insert(0, os.path.join(os.path.dirname(os.path.abspath(__file__)), "sfsverif"))
import facts, an, iters as IT
from facts import *

def load(repo):
    prog, info = facts.get_facts(repo, verbose=False)
    return prog

def dump(f, blocks=None):
    for b in sorted(f.nodes()):
        if blocks is not None and b not in blocks:
            continue
        print("bb%d:" % b)
        for s in f.stmts(b):
            if s["k"] == "assign":
                print("   ", pstr(P(s["place"])), "=", rvstr(s["rv"]))
        t = f.term(b)
        if t["k"] == "call":
            print("   ", pstr(P(t["dest"])), "= call", callee_name(t["callee"]), [ostr(a) for a in t["args"]], "->", t.get("target"))
        elif t["k"] == "switch":
            print("    switch", ostr(t["discr"]), t["arms"], "otherwise", t["otherwise"])
        else:
            print("   ", t["k"], f.succ.get(b))

if __name__ == "__main__" and len(sys.argv) > 1:
    prog = load(sys.argv[1])
