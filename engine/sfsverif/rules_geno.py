"""C08 (genotype classification), C09 (sample / population maps), C12 (determinism)."""
import re
from facts import P, pstr, op_place, op_local, op_const, const_val, ostr, rvstr, callee_is, callee_name, rv_operands
import an
import names as N
import rules_panic as RP
import rules_create as RC

GENO_FROM = ("sfs_core::input::genotype::reader::vcf::<impl core::convert::From<core::option::Option<"
             "noodles_vcf::record::genotypes::sample::value::genotype::Genotype>> for sfs_core::input::genotype::Result>::from")
TRY_FROM_RAW = "sfs_core::input::genotype::Genotype::try_from_raw"
ALLELE_POSITION = "noodles_vcf::record::genotypes::sample::value::genotype::allele::Allele::position"
GENO_RESULT = RC.GENO_RESULT
VCF_READER_RG = "<sfs_core::input::genotype::reader::vcf::Reader<R> as sfs_core::input::genotype::reader::Reader>::read_genotypes"
BCF_READER_RG = "<sfs_core::input::genotype::reader::bcf::Reader<R> as sfs_core::input::genotype::reader::Reader>::read_genotypes"

CMP = {
    "Eq": lambda a, b: a == b, "Ne": lambda a, b: a != b, "Lt": lambda a, b: a < b,
    "Le": lambda a, b: a <= b, "Gt": lambda a, b: a > b, "Ge": lambda a, b: a >= b,
}


class GenoFrom:
    def __init__(self, chk):
        self.ok = False
        self.fn = f = chk.fn(GENO_FROM)
        if f is None:
            return
        pos = an.calls(f, ALLELE_POSITION)
        if len(pos) != 2:
            chk.fail("SHAPE", "genotype::From/position-calls", f.loc(), "expected two Allele::position() calls (diploid pattern), found %d" % len(pos))
            return
        # order by the slice-pattern element they read: (*slice)[0 of 2] / [1 of 2]
        ordered = {}
        for b, t in pos:
            tgt = an.arg_pointee(f, t, 0)
            idx = None
            if tgt:
                for e in tgt[1]:
                    if e[0] == "constindex":
                        idx = e[1]
            if idx is None:
                # follow one more reborrow
                l = op_local(t["args"][0])
                r = f.resolve_ptr(l) if l is not None else None
                if r:
                    for e in r[1]:
                        if e[0] == "constindex":
                            idx = e[1]
            ordered[idx] = (b, t)
        if set(ordered) != {0, 1}:
            chk.fail("SHAPE", "genotype::From/allele-pattern", f.loc(), "the two position() receivers are not elements 0 and 1 of a two-element slice pattern (found %s)" % sorted(map(str, ordered)))
            return
        self.pos = [ordered[0], ordered[1]]
        self.pos_dest = [an.call_dest_local(ordered[0][1]), an.call_dest_local(ordered[1][1])]
        self.ok = True

    def depends(self, op_or_local):
        """which of the two allele positions an operand depends on: subset of {0,1}"""
        f = self.fn
        sl, info = f.slice_locals(op_or_local)
        return {i for i in (0, 1) if self.pos_dest[i] in sl}, info

    def aggregates(self, variant=None):
        f = self.fn
        out = []
        for b, i, p, rv, s in f.assigns():
            if rv["k"] == "aggregate" and rv["akind"] == "adt" and rv["adt"] == GENO_RESULT:
                if variant is None or rv["variant"] == variant:
                    out.append((b, rv))
        # a tuple variant used as a function: `opt.map_or(default, Result::Genotype)` / `opt.map(Result::Genotype)` constructs the
        # variant (inside the std combinator) from the Option's payload, at the block of that call
        for b, t in f.calls():
            for a in t["args"][1:]:
                if a["k"] == "const" and (a.get("fn") or "").startswith(GENO_RESULT + "::"):
                    v = a["fn"].rsplit("::", 1)[-1]
                    if (variant is None or v == variant) and (t["callee"].get("path") or "").startswith("core::option::Option::<T>::"):
                        out.append((b, {"k": "aggregate", "akind": "adt", "adt": GENO_RESULT, "variant": v, "ops": [t["args"][0]], "via": callee_name(t["callee"])}))
        return out

    def bounds_for(self, b):
        """for block b: per allele i, the set of values v in 0..7 (7 stands for 'anything >= 2 ... large') for which
        all dominating single-allele branches admit v.  A branch counts only if its discriminant depends on allele i alone."""
        f = self.fn
        dom_vals = {0: set(range(0, 8)), 1: set(range(0, 8))}
        used = {0: [], 1: []}
        for sb, st in f.switches():
            s = an.switch_subject(f, sb)
            if s["root"] is None:
                continue
            # which edge(s) of this switch dominate b?
            for tgt in set(f.succ.get(sb, [])):
                if not an.dominated_by_edge(f, sb, tgt, b):
                    continue
                vals_for_edge = lambda v: None
                dep = None
                if s["kind"] == "value":
                    d = f.single_def(s["root"])
                    if d and d[0] == "assign" and d[3]["k"] == "binop" and d[3]["op"] in CMP:
                        rv = d[3]
                        dl, _ = self.depends(rv["l"]) if rv["l"]["k"] != "const" else (set(), None)
                        dr, _ = self.depends(rv["r"]) if rv["r"]["k"] != "const" else (set(), None)
                        cl, cr = const_val(rv["l"]), const_val(rv["r"])
                        arith_l = rv["l"]["k"] != "const" and f.slice_locals(rv["l"], through_calls=False)[1]["binops"]
                        arith_r = rv["r"]["k"] != "const" and f.slice_locals(rv["r"], through_calls=False)[1]["binops"]
                        if arith_l or arith_r:
                            continue
                        truth = None
                        # edge truth value: switch on bool: arm 0 = false, otherwise = true
                        arms0 = an.edge_target(st, 0)
                        if tgt == arms0 and tgt != st["otherwise"]:
                            truth = False
                        elif tgt == st["otherwise"] and tgt != arms0:
                            truth = True
                        if truth is None:
                            continue
                        if len(dl) == 1 and not dr and isinstance(cr, int):
                            dep = next(iter(dl))
                            ok_vals = {v for v in range(8) if CMP[rv["op"]](v, cr) == truth}
                        elif len(dr) == 1 and not dl and isinstance(cl, int):
                            dep = next(iter(dr))
                            ok_vals = {v for v in range(8) if CMP[rv["op"]](cl, v) == truth}
                        else:
                            continue
                        dom_vals[dep] &= ok_vals
                        used[dep].append(f.loc(sb))
                    else:
                        # direct switch on the allele value (a local copy, or the payload place `(_t.i as Some).0` itself)
                        dd, _ = self.depends(st["discr"])
                        # between the position() result and the switched value: copies / payload projections only
                        _, info = f.slice_locals(st["discr"], stop=lambda l: l in self.pos_dest)
                        if len(dd) == 1 and not info["binops"] and not [c for c in info["calls"] if not callee_is(c[1]["callee"], ALLELE_POSITION)]:
                            dep = next(iter(dd))
                            arm_vals = {a[0] for a in st["arms"] if a[1] == tgt}
                            if tgt == st["otherwise"]:
                                ok_vals = set(range(8)) - {a[0] for a in st["arms"]}
                            else:
                                ok_vals = {v for v in arm_vals if v < 8}
                            # only meaningful if the switched value is the usize payload, not a bool / discriminant
                            dp = op_place(st["discr"])
                            is_payload = ("usize" in f.local_ty(s["root"])) if (dp is None or not dp[1]) else any(e[0] == "downcast" and e[1] == "Some" for e in dp[1])
                            if is_payload:
                                dom_vals[dep] &= ok_vals
                                used[dep].append(f.loc(sb))
        return dom_vals, used


def check_C08(chk):
    chk.explanation = (
        "Structural clauses of C08 on `impl From<Option<VcfGenotype>> for genotype::Result`, Genotype::try_from_raw, the two reader impls, "
        "read_site and Runner::run: (a) information flow: every construction of Result::Genotype is dominated, for each allele separately, by a "
        "branch that depends on that allele alone and bounds it to {0,1} (a classifier that only sees a+b cannot separate 0/2 from 1/1); "
        "(b) Genotype / Multiallelic are reached only when both positions are Some, every other case yields Missing; (c) PloidyError exactly on "
        "the false edge of the slice-length == 2 test; (d) both VCF and BCF readers map every item through this one impl and nothing else "
        "constructs a genotype::Result; (e) the classifier has no undischarged panic site; (f) a ploidy error in a selected sample becomes "
        "ReadStatus::Error, then an Err naming contig:position, and no spectrum is written.")
    chk.not_decided = "noodles' own parsing of GT strings (VCF text, BCF binary) into allele positions"
    g = GenoFrom(chk)
    if g.ok:
        c08a(chk, g)
        c08b(chk, g)
        c08c(chk, g)
        c08e(chk, g)
    c08d(chk)
    RC.record_accessors(chk, "C08.d")
    c08f(chk)
    # shared clause: the counts of one record start from zero (`exactly its ALT alleles`): the per-record reset decided for C11
    chk.borrow(lambda: (RC.c11a(chk), RC.c11b(chk)), "C08.g", 4)
    # the classifier sees every decoded call: the readers hand on the sample columns as decoded, for both formats (C10.e)
    import rules_io as RIO8_
    chk.borrow(lambda: RIO8_.reader_outcomes(chk, "C10.e"), "C08.h", 6)
    for r, n in (("C08.a", 3), ("C08.b", 3), ("C08.c", 2), ("C08.d", 7), ("C08.e", 1), ("C08.f", 3)):
        chk.floor(r, n)


def c08a(chk, g):
    f = g.fn
    aggs = g.aggregates("Genotype")
    if not aggs:
        chk.fail("C08.a", "genotype::From/no-Genotype-construction", f.loc(), "Result::Genotype is never constructed")
    for b, rv in aggs:
        dom_vals, used = g.bounds_for(b)
        for i in (0, 1):
            ok = dom_vals[i] <= {0, 1} and bool(used[i])
            chk.ob("C08.a", "genotype::From/Genotype/allele%d-bounded-to-{0,1}" % i, ok, f.loc(b),
                   "Result::Genotype must be dominated by a branch on allele %d alone admitting only {0,1}; admitted values here: %s "
                   "(7 = any larger index; per-allele branches found at %s). A decision that only depends on the alleles through their "
                   "sum counts GT 0/2 as 1/1." % (i, sorted(dom_vals[i]), used[i] or "none"))
    # the allele indices reach the tests and the sum as they came out of position(): no conversion, no closure in between
    # (`position().map(|a| a as u8)` makes allele 256 look like REF)
    touched = []
    for i in (0, 1):
        src = g.pos_dest[i]
        for b2, t2 in f.calls():
            if callee_is(t2["callee"], TRY_FROM_RAW) or callee_name(t2["callee"]).startswith(("core::panicking", "core::fmt::")):
                continue
            for a_ in t2["args"]:
                sl_, info_ = f.slice_locals(a_, through_calls=False)
                if src in sl_:
                    touched.append("allele %d handed to %s" % (i, callee_name(t2["callee"]).split("::")[-1]))
        for b2, i2, p2, rv2, s2 in f.assigns():
            if rv2["k"] == "cast":
                sl_, info_ = f.slice_locals(rv2["op"], through_calls=False)
                if src in sl_:
                    touched.append("allele %d cast (%s) to %s" % (i, rv2.get("kind"), f.local_ty(p2[0])))
    chk.ob("C08.a", "genotype::From/alleles-used-as-returned-by-position()", not touched, f.loc(),
           "the two allele indices are compared and added exactly as returned by Allele::position() (conversions / calls on the way: %s)" % (touched or "none"))
    # the count handed on is a function of both alleles through Add only
    for b, rv in aggs:
        dd, info = g.depends(rv["ops"][0])
        ops = sorted({x["op"].replace("WithOverflow", "") for x in info["binops"]})
        chk.ob("C08.a", "genotype::From/Genotype/count-is-a0+a1", dd == {0, 1} and ops == ["Add"], f.loc(b),
               "the ALT count is the sum of the two allele indices (depends on alleles %s via %s)" % (sorted(dd), ops))


def _position_some_switches(g):
    """for each allele i: list of (switch bb, some target) of discriminant tests on position()'s Option"""
    f = g.fn
    out = {0: [], 1: []}
    for sb, st in f.switches():
        s = an.switch_subject(f, sb)
        if s["kind"] != "discr" or "Option" not in (s.get("ty") or ""):
            continue
        dd, info = g.depends({"k": "copy", "place": {"l": s["place"][0], "p": [list(e) for e in s["place"][1]]}})
        if len(dd) == 1:
            out[next(iter(dd))].append((sb, an.edge_target(st, 1)))
    return out


def c08b(chk, g):
    f = g.fn
    sw = _position_some_switches(g)
    if not sw[0] or not sw[1]:
        chk.fail("C08.b", "genotype::From/position-discriminants", f.loc(), "discriminant tests of the two position() Options not recognised")
        return

    def present(i, b):
        return any(an.dominated_by_edge(f, sb, t, b) for sb, t in sw[i])
    for b, rv in g.aggregates():
        v = rv["variant"]
        sub = None
        if v == "Skipped":
            l = op_local(rv["ops"][0])
            d = f.single_def(f.copy_root(l)) if l is not None else None
            if d and d[0] == "assign" and d[3]["k"] == "aggregate":
                sub = d[3]["variant"]
        both = present(0, b) and present(1, b)
        if v == "Genotype" or (v == "Skipped" and sub == "Multiallelic"):
            chk.ob("C08.b", "genotype::From/%s/requires-both-alleles-present" % (sub or v), both, f.loc(b),
                   "%s may only be produced when both allele positions are Some" % (sub or v))
        elif v == "Skipped" and sub == "Missing":
            chk.ob("C08.b", "genotype::From/Missing/not-under-both-present", not both, f.loc(b),
                   "Skipped(Missing) is the outcome when an allele (or the whole call) is missing, not when both are present")
    # totality of the missing case: every non-Some edge of every such switch leads only to Missing (or to another presence test)
    for i in (0, 1):
        ok = True
        for sb, some_t in sw[i]:
            for o in [t for t in f.succ.get(sb, []) if t != some_t]:
                r = an.arm_region(f, sb, o)
                for b, rv in g.aggregates():
                    if b in r and rv["variant"] != "Skipped":
                        ok = False
                    if b in r and rv["variant"] == "Skipped":
                        l = op_local(rv["ops"][0])
                        d = f.single_def(f.copy_root(l)) if l is not None else None
                        if not (d and d[0] == "assign" and d[3]["k"] == "aggregate" and d[3]["variant"] == "Missing"):
                            ok = False
        chk.ob("C08.b", "genotype::From/allele%d-missing->Missing" % i, ok, f.loc(), "when allele %d is `.` the only outcome is Skipped(Missing)" % i)


def c08c(chk, g):
    f = g.fn
    # the diploid edge: Eq(len, 2) true edge, or arm 2 of a switch on the slice length (PtrMetadata)
    dip = []
    for sb, st in f.switches():
        s = an.switch_subject(f, sb)
        if s["kind"] != "value" or s["root"] is None:
            continue

        def is_len(op_or_local):
            sl, info = f.slice_locals(op_or_local, through_calls=False)
            return any(dd[0] == "assign" and dd[3]["k"] == "unop" and dd[3]["op"] == "PtrMetadata" for l in sl for dd in f.defs.get(l, []))
        d = f.single_def(s["root"])
        if d and d[0] == "assign" and d[3]["k"] == "binop" and d[3]["op"] == "Eq":
            cs = [const_val(f_const(f, d[3]["l"])), const_val(f_const(f, d[3]["r"]))]
            if 2 in cs and is_len(d[3]["l"] if cs[0] is None else d[3]["r"]):
                dip.append((sb, st["otherwise"]))
        elif is_len(s["root"]) and "usize" in f.local_ty(s["root"]):
            t2 = [a[1] for a in st["arms"] if a[0] == 2]
            if t2 and t2[0] != st["otherwise"]:
                dip.append((sb, t2[0]))
    if len(dip) != 1:
        chk.fail("C08.c", "genotype::From/ploidy-test", f.loc(), "expected exactly one test of the allele-slice length against 2, found %d" % len(dip))
        return
    sb, t_dip = dip[0]
    errs = g.aggregates("Error")
    chk.ob("C08.c", "genotype::From/PloidyError-exists-off-the-diploid-edge", len(errs) >= 1 and not any(an.dominated_by_edge(f, sb, t_dip, b) for b, _ in errs), f.loc(sb),
           "Result::Error(PloidyError) must be constructed, and only off the `len == 2` edge")
    # every outcome produced once a call is present (outer `Some` edge of the Option argument), wherever it sits relative to the ploidy test
    outer = None
    for ob, ot in f.switches():
        os_ = an.switch_subject(f, ob)
        if os_["kind"] == "discr" and os_["place"] == (1, ()):
            outer = (ob, an.edge_target(ot, 1))
    if outer is None:
        chk.fail("C08.c", "genotype::From/outer-option-match", f.loc(), "match on the Option<VcfGenotype> argument not recognised")
        return
    # a sample without any call (the Option argument is None) is a missing genotype: skipped, never an error and never counted
    ot_ = f.term(outer[0])
    none_t = an.edge_target(ot_, 0)
    if none_t is not None and none_t != outer[1]:
        absent = an.arm_region(f, outer[0], none_t) | {none_t}
        outs = []
        for b, rv in g.aggregates():
            if b in absent and b not in an.arm_region(f, outer[0], outer[1]):
                sub = None
                if rv["variant"] == "Skipped":
                    l_ = op_local(rv["ops"][0])
                    d_ = f.single_def(f.copy_root(l_)) if l_ is not None else None
                    sub = d_[3]["variant"] if d_ and d_[0] == "assign" and d_[3]["k"] == "aggregate" else None
                outs.append("%s%s" % (rv["variant"], "(%s)" % sub if sub else ""))
        # (an outcome returned as a named constant - `const MISSING: genotype::Result = ..; return MISSING;` - is not evaluated by the
        # extractor: nothing is concluded then)
        unknown = [b for b, i_, p_, rv_, s_ in f.assigns() if b in absent and b not in an.arm_region(f, outer[0], outer[1]) and p_[0] == 0 and not p_[1]
                   and rv_["k"] == "use" and rv_["op"]["k"] == "const" and "genotype::Result" in (rv_["op"].get("ty") or "")]
        ok_abs = outs == ["Skipped(Missing)"] or (not outs and bool(unknown))
        chk.ob("C08.b", "genotype::From/absent-call->Missing", ok_abs, f.loc(outer[0]),
               "when the sample has no call at all the only outcome is Skipped(Missing) (outcomes built on the None edge: %s%s)"
               % (outs or "none", "; returned as an unevaluated constant: not concluded" if (not outs and unknown) else ""))
    below = an.arm_region(f, outer[0], outer[1])
    other = [(rv["variant"], f.loc(b)) for b, rv in g.aggregates() if b in below and rv["variant"] != "Error" and not an.dominated_by_edge(f, sb, t_dip, b)]
    chk.ob("C08.c", "genotype::From/non-diploid-yields-only-Error", not other, f.loc(sb),
           "once a call is present, any outcome other than Error requires exactly two alleles (found off the diploid edge: %s)" % other)
    for b, t in g.pos:
        chk.ob("C08.c", "genotype::From/position()-under-len==2", an.dominated_by_edge(f, sb, t_dip, b), f.loc(b), "allele access must be dominated by the diploid test")
    # no closure of this function inspects alleles on its own (e.g. `alleles.iter().any(|a| a.position().is_none())` before the ploidy test)
    extra = [c.path for c in chk.prog.closures_of(f.path) if an.calls(c, ALLELE_POSITION)]
    chk.ob("C08.c", "genotype::From/no-allele-inspection-outside-the-diploid-arm", not extra, f.loc(), "closures inspecting allele positions: %s" % extra)


def f_const(f, op):
    c = an.const_of(f, op)
    return c if c is not None else op


def c08d(chk):
    prog = chk.prog
    # who constructs genotype::Result
    ctors = []
    for f in prog.fn_list:
        if f.derived:
            continue
        for b, i, p, rv, s in f.assigns():
            if rv["k"] == "aggregate" and rv["akind"] == "adt" and rv["adt"] == GENO_RESULT:
                ctors.append((f, b, rv["variant"]))
    where = sorted({f.path for f, b, v in ctors})
    chk.ob("C08.d", "genotype::Result/constructed-only-in-From", where == [GENO_FROM], "", "genotype::Result variants may only be constructed by the single From impl (found in %s)" % where)
    for path, what in ((VCF_READER_RG, "vcf"), (BCF_READER_RG, "bcf")):
        f = chk.fn(path)
        if f is None:
            continue
        # the closure passed to ReadStatus::map maps every item through From::from
        ok = False
        why = "closure not recognised"
        # (the mapping may sit in the closure handed to ReadStatus::map, or in the method itself when the status is matched by hand)
        for c in prog.closures_of(path) + [f]:
            chk.fns_analysed.add(c.path)
            maps = an.calls(c, N.MAP)
            for b, t in maps:
                fa = t["args"][1]
                if fa["k"] == "const" and fa.get("fn") == "core::convert::From::from" and fa.get("fn_args", [None])[0] == GENO_RESULT:
                    # receiver is into_iter() of the whole vector, result is collected
                    sl, info = c.slice_locals(t["args"][0])
                    nm = [x[1]["callee"].get("path") or "" for x in info["calls"]]
                    whole = any(n == N.INTO_ITER for n in nm) and not any(x in n for n in nm for x in ("skip", "take", "filter", "step_by"))
                    coll = any(callee_is(t2["callee"], N.COLLECT) for _, t2 in c.calls())
                    ok = whole and coll
                    why = "into_iter over the whole vector=%s, collected=%s" % (whole, coll)
        if not ok:
            # the same written as a loop: `for g in genotypes { out.push(genotype::Result::from(g)) }` over the whole vector, never left early
            import iters as IT_
            for it in IT_.iterations(prog, f):
                if it.kind != "loop" or it.parent is not f:
                    continue
                names = [n for n in IT_.chain_names(it.chain()) if n not in ("into_iter", "iter", "deref", "as_slice")]
                froms = [(b, t) for b, t in it.calls("core::convert::From::from") if GENO_RESULT in " ".join(t["callee"].get("args", []) + [t.get("dest_ty") or ""])]
                if names or len(froms) != 1:
                    continue
                fb, ft = froms[0]
                whole_elem = it.elem_path(ft["args"][0]) == ()
                dest = an.call_dest_local(ft)
                pushes = [(b, t) for b, t in it.calls() if callee_name(t["callee"]).split("::")[-1] == "push" and len(t["args"]) == 2 and op_local(t["args"][1]) is not None and f.copy_root(op_local(t["args"][1])) == dest]
                if whole_elem and len(pushes) == 1 and it.runs_for_every_element() and not [sw for sw in it.switches()]:
                    ok = True
                    why = "%s: every element converted with From::from and pushed, no early exit" % it.describe()
        chk.ob("C08.d", "%s::Reader::read_genotypes/maps-through-From" % what, ok, f.loc(), "every genotype of the record goes through genotype::Result::from (%s)" % why)
    # trait impls of genotype::Reader: exactly these two
    impls = [i for i in prog.impls if i.get("trait") and i["trait"]["path"] == "sfs_core::input::genotype::reader::Reader"]
    chk.ob("C08.d", "genotype::Reader/impls", sorted(i["self_adt"] or "" for i in impls) == ["sfs_core::input::genotype::reader::bcf::Reader", "sfs_core::input::genotype::reader::vcf::Reader"], "",
           "the genotype::Reader trait is implemented by the vcf and bcf readers only (found %s)" % sorted(i["self_ty"] for i in impls))


def c08e(chk, g):
    f = g.fn
    bad = []
    n = 0
    for b, t in f.asserts():
        n += 1
        m = t["msg"]
        if m["kind"] == "Overflow" and m.get("op") == "Add":
            dom_vals, used = g.bounds_for(b)
            if dom_vals[0] <= {0, 1} and dom_vals[1] <= {0, 1}:
                continue
            bad.append("%s: allele sum can overflow (alleles not bounded: %s / %s)" % (f.loc(b), sorted(dom_vals[0]), sorted(dom_vals[1])))
        else:
            bad.append("%s: %s" % (f.loc(b), m["kind"]))
    for b, t in f.calls():
        nm = callee_name(t["callee"])
        if nm in (N.OPT_UNWRAP, N.OPT_EXPECT, N.RES_UNWRAP, N.RES_EXPECT) or nm.startswith("core::panicking"):
            bad.append("%s: %s" % (f.loc(b), nm))
        if callee_is(t["callee"], N.INDEX):
            ty = " ".join(t["callee"].get("args", []))
            if "RangeFull" not in ty:
                bad.append("%s: indexing %s" % (f.loc(b), ty))
    r = chk.fn(TRY_FROM_RAW)
    if r is not None:
        if list(r.asserts()) or any(callee_name(t["callee"]).startswith("core::panicking") for _, t in r.calls()):
            bad.append("try_from_raw has a panic site")
    chk.ob("C08.e", "genotype::From/total(no-panic-site)", not bad, f.loc(), "the classifier must be total: %s (%d assert terminators examined)" % (bad or "no undischarged site", n))


def c08f(chk):
    rs = RC.ReadSite(chk)
    if rs.ok:
        f = rs.fn
        e = rs.arm.get("Error")
        # (the arm may hand the error back as a value first - `Error(e) => return Err(e)` in a helper, `Err(e) => return ReadStatus::Error(..)`
        # in read_site: edges of the second match that need another variant than this arm built are not paths of this arm)
        r = an.reachable_with_edges_removed(f, e, set(), an.infeasible_edges_from(f, e, None))
        constructs = any(s["k"] == "assign" and s["rv"]["k"] == "aggregate" and s["rv"].get("adt") == RC.READSTATUS and s["rv"]["variant"] == "Error" for b in r for s in f.stmts(b))
        back = rs.header in r
        reaches_read = any(s["k"] == "assign" and s["rv"]["k"] == "aggregate" and s["rv"].get("adt") == RC.READSTATUS and s["rv"]["variant"] == "Read" for b in r for s in f.stmts(b))
        chk.ob("C08.f", "read_site/Error-arm-returns-ReadStatus::Error", constructs and not back and not reaches_read, f.loc(e),
               "a ploidy error in a selected sample must end read_site with ReadStatus::Error (constructs=%s, continues loop=%s, reaches Read=%s)" % (constructs, back, reaches_read))
        chk.ob("C08.f", "read_site/Error-arm-under-selection", rs.selected(e), f.loc(e), "only selected samples can raise the error")
        RC.sample_loop_exits(chk, rs, "C08.f")
    f = chk.fn(RC.RUNNER_RUN)
    if f is None:
        return
    arms = RC.runner_arms(chk, f)
    if arms is None:
        return
    region = f.reachable_from(arms["Error"])
    ok = False
    srcs = set()
    for b, pieces, phs, t in an.format_calls(f):
        if b in region:
            srcs |= RC.fmt_arg_sources(f, t)
    ok = "sfs_core::input::site::reader::Reader::current_contig" in srcs and "sfs_core::input::site::reader::Reader::current_position" in srcs
    # .. on every path: the arm cannot leave the function without passing a message that shows both (an error handed on bare for some
    # kinds of failure would lose the site)
    fmt_bbs = set()
    for b, pieces, phs, t in an.format_calls(f):
        if b in region:
            s1 = RC.fmt_arg_sources(f, t)
            if "sfs_core::input::site::reader::Reader::current_contig" in s1 and "sfs_core::input::site::reader::Reader::current_position" in s1:
                fmt_bbs.add(b)
    bare = [b for b in f.reachable_from(arms["Error"], avoid=fmt_bbs) if f.term(b)["k"] == "return"] if fmt_bbs else ["?"]
    ok = ok and not bare
    for b, pieces, phs, t in an.format_calls(f):
        if b in fmt_bbs:
            r_ = an.contig_then_position(f, t, phs)
            if r_ is not None:
                chk.ob("C08.f", "Runner::run/Error-arm-shows-position-next-to-contig", r_[0], f.loc(b),
                       "the site is named as contig followed by its position, nothing displayed in between (%s)" % r_[1])
    chk.ob("C08.f", "Runner::run/Error-arm-names-contig-and-position", ok, f.loc(arms["Error"]),
           "the error must display current_contig() and current_position() on every path out of the arm (sources %s; returns reachable without such a message: %s)" % (sorted(srcs), [f.loc(b) if b != "?" else b for b in bare]))
    RC.no_partial_output(chk, "C08.f", RC.CREATE_RUN, RC.RUNNER_RUN, [RC.WRITE_STDOUT])


# ====================================================================================
# C09
# ====================================================================================
SAMPLE_MAP = "sfs_core::input::sample::Map"
POP_MAP = "sfs_core::input::sample::population::Map"
POP_ID = "sfs_core::input::sample::population::Id"
MAP_FROM_ITER = "<sfs_core::input::sample::Map as core::iter::traits::collect::FromIterator<(S, P)>>::from_iter"
ORDER_PRESERVING = {"new", "with_capacity", "default", "insert", "get_full", "get_mut", "first", "last", "entry", "from_iter", "get", "get_index", "get_index_of", "insert_full", "is_empty", "len", "keys", "values", "iter", "contains_key", "contains"}
ORDER_ADAPTORS_BAD = ("rev", "skip", "step_by", "filter", "take", "sort", "chain", "cycle", "flat_map", "peekable", "zip")


def check_C09(chk):
    chk.explanation = (
        "Structural clauses of C09: (a) the sample map is an IndexMap and the population map an IndexSet (insertion-ordered); (b) only "
        "order-preserving methods are ever called on them; (c) a population id is the insertion index (insert_full().0 / get_index_of) and "
        "get_or_insert = get().unwrap_or_else(insert); (d) sample::Map is constructed only in FromIterator::from_iter, which assigns "
        "population ids by calling get_or_insert once per entry in iteration order, and every sample-list source funnels into it; (e) per-record "
        "lookups index counts/totals by the population id looked up by sample *name* (no column counter); (f) Map::shape walks ids 0..len; "
        "(g) empty-map and unknown-sample errors dominate the construction of the site reader; (i) a population label / sample name is stored "
        "verbatim (only identity conversions between the given string and the stored one), so two labels are one population iff they are equal.")
    chk.not_decided = "end-to-end invariance under permutations of columns/list entries (a relation between runs); clap's splitting of the --samples value"
    c09ab(chk)
    c09c(chk)
    c09d(chk)
    c09e(chk)
    c09f(chk)
    c09g(chk)
    c09h(chk)
    c09i(chk)
    # shared clause: the outcome for a record does not depend on the order of the sample columns only if every selected sample is looked at
    rs_ = RC.ReadSite(chk)
    if rs_.ok:
        RC.sample_loop_exits(chk, rs_, "C09.j")
    import rules_io as RIO_
    RIO_.readers_do_not_judge(chk, "C09.j")
    # `only listed samples count`: nothing about an unlisted column has an effect, not even an unusable genotype (C01.a, C08.f)
    if rs_.ok:
        chk.borrow(lambda: (RC.c01a(chk, rs_), c08f(chk)), "C09.k", 6)
    for r, n in (("C09.i", 2), ("C09.h", 4), ("C09.a", 2), ("C09.b", 7), ("C09.c", 3), ("C09.d", 10), ("C09.e", 3), ("C09.f", 2), ("C09.g", 2)):
        chk.floor(r, n)


def c09ab(chk):
    prog = chk.prog
    for adt, want in ((SAMPLE_MAP, "indexmap::map::IndexMap<sfs_core::input::sample::Sample, sfs_core::input::sample::population::Id>"),
                      (POP_MAP, "indexmap::set::IndexSet<sfs_core::input::sample::population::Population>")):
        a = prog.adts.get(adt)
        if a is None:
            chk.fail("C09.a", "%s/ANCHOR-MISSING" % adt, "", "ADT not found")
            continue
        tys = [f["ty"] for f in a["variants"][0]["fields"]]
        chk.ob("C09.a", "%s/container" % adt.split("input::")[-1], tys == [want], "%s:%d" % (a["span"]["file"], a["span"]["line"]),
               "the map must be the insertion-ordered container %s (found %s); a HashMap/BTreeMap changes axis order silently" % (want, tys))
    # every call that touches an IndexMap / IndexSet value
    for f in prog.fn_list:
        if f.derived:
            continue
        for b, t in f.calls():
            c = t["callee"]
            p = c.get("path") or ""
            st_ = (c.get("self_ty") or "").lstrip("&").replace("mut ", "")
            a0 = (c.get("args") or [""])[0].lstrip("&").replace("mut ", "")
            recv = st_ if st_.startswith("indexmap::") else (a0 if a0.startswith("indexmap::") else "")
            if p.startswith("indexmap::map::IndexMap::") or p.startswith("indexmap::set::IndexSet::"):
                recv = c.get("full") or ""
            elif not (recv.startswith("indexmap::map::IndexMap<") or recv.startswith("indexmap::set::IndexSet<")):
                continue
            # calls on noodles' own IndexSet (header sample names) are not our maps
            ours = ("sfs_core::input::sample::Sample, sfs_core::input::sample::population::Id" in recv) or ("sfs_core::input::sample::population::Population" in recv)
            if not ours:
                continue
            chk.saw_calls()
            name = p.split("::")[-1]
            chk.ob("C09.b", "%s/%s" % (f.path.split("sfs_core::input::")[-1], name), name in ORDER_PRESERVING, f.loc(b),
                   "method `%s` on the sample/population map is%s on the reviewed order-preserving list %s" % (name, "" if name in ORDER_PRESERVING else " NOT", sorted(ORDER_PRESERVING)))


def _c09c_merged(chk, f):
    """get / insert merged into get_or_insert: `match self.0.get_index_of(&name) { Some(i) => i, None => self.0.insert_full(name).0 }` -> Id"""
    GI, IF = "indexmap::set::IndexSet::<T, S>::get_index_of", "indexmap::set::IndexSet::<T, S>::insert_full"
    gi, ins = an.calls(f, GI), an.calls(f, IF)
    ok_get = ok_ins = ok_comb = False
    why = "expected one get_index_of and one insert_full on self.0"
    if len(gi) == 0 and len(ins) == 1:
        # insert_full alone: indexmap's contract is that an equivalent value already in the set is left where it is and its
        # index returned (with false), a new one is appended and len-1 returned; so Id(insert_full(name).0) is both branches
        on_self = an.self_field(an.arg_pointee(f, ins[0][1], 0) or (0, ())) == "0"
        same_name = _param_root_owned(f, ins[0][1]["args"][1]) == 2
        idst = an.call_dest_local(ins[0][1])
        srcs = set()
        n_id = 0
        for b, i, p, rv, s_ in f.assigns():
            if rv["k"] == "aggregate" and rv.get("adt") == POP_ID:
                n_id += 1
                sl, info = f.slice_locals(rv["ops"][0], through_calls=False)
                for l in sl:
                    for d in f.defs.get(l, []):
                        if d[0] == "assign" and d[3]["k"] == "use":
                            pl = op_place(d[3]["op"])
                            if pl and pl[0] == idst and [e[1] for e in pl[1] if e[0] == "field"] == [0]:
                                srcs.add("inserted")
                            elif pl and pl[0] == idst:
                                srcs.add("other-part-of-insert_full")
                        if d[0] == "assign" and d[3]["k"] == "binop":
                            srcs.add("arithmetic")
                        if d[0] == "call" and d[2] is not ins[0][1]:
                            srcs.add("call")
        other_mut = [t for b, t in f.calls() if t is not ins[0][1] and "indexmap" in (t["callee"].get("path") or "")]
        ok_get = ok_ins = ok_comb = on_self and same_name and n_id >= 1 and srcs == {"inserted"} and not other_mut
        why = "insert_full-only form: Id built from %s, other indexmap calls %d" % (sorted(srcs), len(other_mut))
    if len(gi) == 1 and len(ins) == 1:
        on_self = all(an.self_field(an.arg_pointee(f, t, 0) or (0, ())) == "0" for b, t in gi + ins)
        same_name = _param_root_owned(f, gi[0][1]["args"][1]) == 2 and _param_root_owned(f, ins[0][1]["args"][1]) == 2
        oc = an.option_outcomes(f, gi[0][0])
        gd, idst = an.call_dest_local(gi[0][1]), an.call_dest_local(ins[0][1])
        # every Id(..) is built from the found index or from insert_full(..).0
        srcs = set()
        n_id = 0
        for b, i, p, rv, s_ in f.assigns():
            if rv["k"] == "aggregate" and rv.get("adt") == POP_ID:
                n_id += 1
                sl, info = f.slice_locals(rv["ops"][0], through_calls=False)
                for l in sl:
                    for d in f.defs.get(l, []):
                        if d[0] == "assign" and d[3]["k"] == "use":
                            pl = op_place(d[3]["op"])
                            if pl and pl[0] == gd and any(e[0] == "downcast" and e[1] == "Some" for e in pl[1]):
                                srcs.add("found")
                            elif pl and pl[0] == idst and [e[1] for e in pl[1] if e[0] == "field"] == [0]:
                                srcs.add("inserted")
                            elif pl and pl[0] == idst:
                                srcs.add("other-part-of-insert_full")
                        if d[0] == "assign" and d[3]["k"] == "binop":
                            srcs.add("arithmetic")
        ok_get = on_self and same_name and "found" in srcs
        ok_ins = on_self and same_name and "inserted" in srcs and srcs <= {"found", "inserted"}
        ok_comb = oc is not None and an.dominated_by_edge(f, oc[0], oc[2], ins[0][0]) and n_id >= 1 and srcs == {"found", "inserted"}
        why = "merged form: Id built from %s; insert_full only on the None edge of get_index_of=%s" % (sorted(srcs), oc is not None and an.dominated_by_edge(f, oc[0], oc[2], ins[0][0]))
    chk.ob("C09.c", "population::Map::insert/id=insertion-index", ok_ins, f.loc(), why)
    chk.ob("C09.c", "population::Map::get/id=get_index_of", ok_get, f.loc(), why)
    chk.ob("C09.c", "population::Map::get_or_insert=get.unwrap_or_else(insert)", ok_comb, f.loc(),
           "an existing label keeps its id, a new label gets the next insertion index (%s)" % why)


def c09c(chk):
    if chk.prog.fns.get(POP_MAP + "::insert") is None and chk.prog.fns.get(POP_MAP + "::get") is None and chk.prog.fns.get(POP_MAP + "::get_or_insert") is not None:
        _c09c_merged(chk, chk.prog.fns[POP_MAP + "::get_or_insert"])
        return
    f = chk.fn(POP_MAP + "::insert")
    if f is not None:
        ok = False
        why = "Id(..) not built from insert_full(..).0"
        for b, i, p, rv, s in f.assigns():
            if p[0] == 0 and rv["k"] == "aggregate" and rv.get("adt") == POP_ID:
                o = rv["ops"][0]
                l = op_local(o)
                d = f.single_def(f.copy_root(l)) if l is not None else None
                if d and d[0] == "assign" and d[3]["k"] == "use":
                    pl = op_place(d[3]["op"])
                    if pl and pl[1] == (("field", 0, "0", None),) or (pl and len(pl[1]) == 1 and pl[1][0][0] == "field" and pl[1][0][1] == 0):
                        dd = f.single_def(pl[0])
                        if dd and dd[0] == "call" and callee_is(dd[2]["callee"], "indexmap::set::IndexSet::<T, S>::insert_full"):
                            tgt = an.arg_pointee(f, dd[2], 0)
                            ok = tgt is not None and an.self_field(tgt) == "0"
                            why = "Id(insert_full(self.0, name).0)"
        chk.ob("C09.c", "population::Map::insert/id=insertion-index", ok, f.loc(), why)
    f = chk.fn(POP_MAP + "::get")
    if f is not None:
        ok = False
        for b, t in f.calls():
            if callee_is(t["callee"], N.OPT_MAP):
                fa = t["args"][1]
                l = op_local(t["args"][0])
                d = f.single_def(f.copy_root(l)) if l is not None else None
                if fa["k"] == "const" and fa.get("fn") == POP_ID and d and d[0] == "call" and callee_is(d[2]["callee"], "indexmap::set::IndexSet::<T, S>::get_index_of"):
                    ok = True
        chk.ob("C09.c", "population::Map::get/id=get_index_of", ok, f.loc(), "get must be get_index_of(name).map(Id)")
    f = chk.fn(POP_MAP + "::get_or_insert")
    if f is not None:
        gets = an.calls(f, POP_MAP + "::get")
        uoe = an.calls(f, "core::option::Option::<T>::unwrap_or_else")
        ok = False
        why = "neither get(..).unwrap_or_else(|| insert(..)) nor match get(..) { Some(id) => id, None => insert(..) }"
        if len(gets) == 1 and len(uoe) == 1:
            recv = op_local(uoe[0][1]["args"][0])
            cl = None
            l = op_local(uoe[0][1]["args"][1])
            d = f.single_def(l) if l is not None else None
            if d and d[0] == "assign" and d[3]["k"] == "aggregate" and d[3]["akind"] == "closure":
                cl = chk.prog.fn(d[3]["closure"])
            ins = cl is not None and len(an.calls(cl, POP_MAP + "::insert")) == 1 and len(list(cl.calls())) == 1
            same_name = _param_root_owned(f, gets[0][1]["args"][1]) == 2
            ok = recv is not None and f.copy_root(recv) == an.call_dest_local(gets[0][1]) and ins and same_name
            why = "unwrap_or_else form"
        elif len(gets) == 1:
            # match form: on the Some edge the payload is returned, on the None edge insert(name) is
            ins = an.calls(f, POP_MAP + "::insert")
            sws = an.switches_on_call_result(f, gets[0][0])
            if len(ins) == 1 and len(sws) == 1:
                sb = sws[0][0]
                st = f.term(sb)
                some_t, none_t = an.edge_target(st, 1), an.edge_target(st, 0)
                ins_on_none = an.dominated_by_edge(f, sb, none_t, ins[0][0]) and P(ins[0][1]["dest"])[0] == 0
                ret_payload = False
                for b2 in an.arm_region(f, sb, some_t):
                    for s2 in f.stmts(b2):
                        if s2["k"] == "assign" and P(s2["place"])[0] == 0 and s2["rv"]["k"] == "use":
                            q = op_place(s2["rv"]["op"])
                            chain = pure_move_chain(f, s2["rv"]["op"]) if q else None
                            if chain and any(pl[0] == an.call_dest_local(gets[0][1]) and any(e[0] == "downcast" and e[1] == "Some" for e in pl[1]) for pl in chain):
                                ret_payload = True
                same_name = _param_root_owned(f, gets[0][1]["args"][1]) == 2
                ok = ins_on_none and ret_payload and same_name
                why = "match form: insert only on the None edge=%s, Some edge returns the found id=%s" % (ins_on_none, ret_payload)
        chk.ob("C09.c", "population::Map::get_or_insert=get.unwrap_or_else(insert)", ok, f.loc(),
               "an existing label keeps its id, a new label gets the next insertion index (%s)" % why)


def _param_root_owned(f, op):
    l = op_local(op)
    if l is None:
        return None
    r = f.resolve_ptr(l)
    if r is not None and not r[1]:
        return r[0]
    if r is not None and r[1] == (("deref",),):
        return r[0]
    return f.copy_root(l)


def c09d(chk):
    prog = chk.prog
    ctors = []
    for f in prog.fn_list:
        if f.derived:
            continue
        for b, i, p, rv, s in f.assigns():
            if rv["k"] == "aggregate" and rv["akind"] == "adt" and rv["adt"] == SAMPLE_MAP:
                ctors.append(f.path)
    chk.ob("C09.d", "sample::Map/constructed-only-in-from_iter", sorted(set(ctors)) == [MAP_FROM_ITER], "",
           "sample::Map must only be built by FromIterator::from_iter (found %s)" % sorted(set(ctors)))
    f = chk.fn(MAP_FROM_ITER)
    if f is not None:
        # every (sample, label) entry of the input, in input order, is paired with get_or_insert(label) and put into the IndexMap:
        # IndexMap::from_iter(iter.into_iter().map(closure)), or a loop that inserts each entry
        import iters as IT
        its = IT.iterations(prog, f)
        unit = [f] + prog.closures_of(f.path)
        gcalls = [(g_, b, t) for g_ in unit for b, t in an.calls(g_, POP_MAP + "::get_or_insert")]
        it = None
        if len(gcalls) == 1:
            g_, gb, gt = gcalls[0]
            inside = [x for x in its if x.body is g_ and gb in x.blocks]
            it = min(inside, key=lambda x: len(x.blocks)) if inside else None
        ok = False
        why = "iteration over the input entries calling get_or_insert not recognised"
        ok2 = False
        if it is not None:
            g_, gb, gt = gcalls[0]
            chk.fns_analysed.add(g_.path)
            ch = it.chain()
            names = IT.chain_names(ch)
            src = ch[-1][1]
            from_input = src is not None and src[0] == 1 and not [n for n in names if n not in ("map",)]
            it.through_casts = False
            label_ok = False
            sl, info = g_.slice_locals(gt["args"][1])
            for l in sl:
                for d in g_.defs.get(l, []):
                    if d[0] == "assign" and d[3]["k"] == "use" and it.elem_path(d[3]["op"]) == (1,):
                        label_ok = True
            idl = an.call_dest_local(gt)
            if it.kind == "closure" and it.consumer == "map":
                fi = [(b, t) for b, t in f.calls() if callee_is(t["callee"], N.FROM_ITER) or callee_is(t["callee"], N.COLLECT)]
                into_map = len(fi) == 1 and IT.chain_get(IT.receiver_chain(f, fi[0][1]["args"][0]), "map") is it.term
                ret = [d for d in g_.defs.get(0, []) if d[0] == "assign" and d[3]["k"] == "aggregate"]
                paired = len(ret) == 1 and op_local(ret[0][3]["ops"][1]) is not None and g_.copy_root(op_local(ret[0][3]["ops"][1])) == idl
                sample_ok = len(ret) == 1 and any(d[0] == "assign" and d[3]["k"] == "use" and it.elem_path(d[3]["op"]) == (0,) for l in g_.slice_locals(ret[0][3]["ops"][0])[0] for d in g_.defs.get(l, []))
                uncond = not it.switches()
                ok = from_input and into_map
                ok2 = label_ok and paired and sample_ok and uncond
                why = "IndexMap::from_iter(input.map(..)): adaptors %s, from the input=%s" % (names, from_input)
            elif it.kind == "loop":
                insc = [(b, t) for b, t in it.calls() if callee_name(t["callee"]).split("::")[-1] == "insert" and "indexmap::map::IndexMap" in callee_name(t["callee"])]
                paired = len(insc) == 1 and op_local(insc[0][1]["args"][2]) is not None and f.copy_root(op_local(insc[0][1]["args"][2])) == idl
                sample_ok = len(insc) == 1 and any(d[0] == "assign" and d[3]["k"] == "use" and it.elem_path(d[3]["op"]) == (0,) for l in f.slice_locals(insc[0][1]["args"][1])[0] for d in f.defs.get(l, []))
                # the map that is filled is the one returned
                mp = an.arg_pointee(f, insc[0][1], 0) if len(insc) == 1 else None
                agg = [rv for b, i, p, rv, s_ in f.assigns() if rv["k"] == "aggregate" and rv.get("adt") == SAMPLE_MAP]
                returned = mp is not None and len(agg) == 1 and op_local(agg[0]["ops"][0]) is not None and f.copy_root(op_local(agg[0]["ops"][0])) == mp[0]
                uncond = it.runs_for_every_element() and not it.switches()
                ok = from_input and returned
                ok2 = label_ok and paired and sample_ok and uncond
                why = "for entry in input { map.insert(sample, id) }: from the input=%s, the filled map is returned=%s" % (from_input, returned)
        chk.ob("C09.d", "Map::from_iter/input-order-preserved", ok, f.loc(), why)
        chk.ob("C09.d", "Map::from_iter::closure/one-get_or_insert-per-entry", ok2, f.loc(), "each (sample, label) entry calls get_or_insert(label) exactly once, unconditionally, and pairs the sample with that id")
    # funnels
    for path, how in ((SAMPLE_MAP + "::from_all", "from_iter"), (SAMPLE_MAP + "::from_str", "collect"), (SAMPLE_MAP + "::from_reader", "from_str"), (SAMPLE_MAP + "::from_path", "from_reader")):
        f = prog.fn(path)
        if f is None:
            chk.fail("C09.d", "funnel/%s/ANCHOR-MISSING" % path, "", "not found")
            continue
        chk.fns_analysed.add(path)
        ok = False
        for b, t in f.calls():
            c = t["callee"]
            if how == "from_iter" and callee_is(c, MAP_FROM_ITER):
                ok = True
            if how == "collect" and callee_is(c, N.COLLECT) and any(a == SAMPLE_MAP for a in c.get("args", [])):
                ok = True
            if how == "from_str" and callee_is(c, SAMPLE_MAP + "::from_str"):
                ok = True
            for a in t["args"]:
                if how == "from_reader" and a["k"] == "const" and a.get("fn") == SAMPLE_MAP + "::from_reader":
                    ok = True
        chk.ob("C09.d", "funnel/%s->%s" % (path.split("::")[-1], how), ok, f.loc(), "%s must build the map through %s" % (path.split("::")[-1], how))
    b = chk.fn(RC.SITE_BUILD)
    if b is not None:
        ok = len(an.calls(b, MAP_FROM_ITER)) == 1 and len(an.calls(b, SAMPLE_MAP + "::from_path")) == 1 and len(an.calls(b, SAMPLE_MAP + "::from_all")) == 1
        chk.ob("C09.d", "Builder::build/three-sources-one-funnel", ok, b.loc(), "--samples -> from_iter, --samples-file -> from_path, default -> from_all")
    # from_str: line order preserved, label = text after the first tab
    f = prog.fn(SAMPLE_MAP + "::from_str")
    if f is not None:
        coll = [(b2, t) for b2, t in f.calls() if callee_is(t["callee"], N.COLLECT)]
        ok = False
        if len(coll) == 1:
            sl, info = f.slice_locals(coll[0][1]["args"][0])
            adapt = [(x[1]["callee"].get("path") or "").split("::")[-1] for x in info["calls"]]
            ok = sorted(adapt) == ["lines", "map"]
        chk.ob("C09.d", "Map::from_str/lines-in-file-order", ok, f.loc(), "samples file is read line by line in order (adaptors: %s)" % (adapt if len(coll) == 1 else "?"))
        # each line is split at the first TAB into (sample, Some(label)); a line without TAB is (line, None)
        sep_ok = False
        why = "closure not recognised"
        # the per-line mapper: a closure of from_str (the line is its local 2), or a named workspace function handed to `map` (local 1)
        mappers = [(c_, 2) for c_ in prog.closures_of(f.path)]
        for b2, t in f.calls():
            if callee_is(t["callee"], N.MAP):
                for a in t["args"][1:]:
                    if a["k"] == "const" and a.get("fn") and prog.fn(a["fn"]) is not None:
                        mappers.append((prog.fn(a["fn"]), 1))
        for c, line_local in mappers:
            chk.fns_analysed.add(c.path)
            so = [t for b2, t in c.calls() if callee_is(t["callee"], "core::str::<impl str>::split_once")]
            # nothing else touches the line or its parts: in the closure and the closures nested in it only Option plumbing is allowed
            others = [callee_name(t["callee"]) for g_ in [c] + prog.closures_of(c.path) for b2, t in g_.calls()
                      if not callee_is(t["callee"], "core::str::<impl str>::split_once") and not (t["callee"].get("path") or "").startswith("core::option::Option::<T>::")]
            if len(so) == 1:
                sep = an.const_of(c, so[0]["args"][1])
                sepv = sep.get("val") if sep else None
                recv = op_local(so[0]["args"][0])
                rp = c.resolve_ptr(recv) if recv is not None else None
                whole_line = recv is not None and (c.copy_root(recv) == line_local or (rp is not None and rp[0] == line_local and rp[1] in ((), (("deref",),))))
                sep_ok = sepv == "\t" and whole_line and not others
                why = "split_once(%r) on the whole line=%s, other calls=%s" % (sepv, whole_line, others)
        chk.ob("C09.d", "Map::from_str/split-at-first-TAB", sep_ok, f.loc(), "the samples file is `sample<TAB>label`: names may contain spaces (%s)" % why)


def pure_move_chain(f, op):
    """places visited when following an operand backwards through moves/copies, payload projections and tuple fields only
    (stops at calls, arguments, arithmetic); None if something else than a move is met first"""
    visited = []
    cur = op_place(op)
    n = 0
    while cur is not None and n < 16:
        n += 1
        visited.append(cur)
        l, proj = cur
        if 1 <= l <= f.argc:
            return visited
        d = f.single_def(l)
        if d is None or d[0] == "call":
            return visited
        rv = d[3]
        if rv["k"] == "use":
            nxt = op_place(rv["op"])
            if nxt is None:
                return visited
            cur = (nxt[0], nxt[1] + proj)
        elif rv["k"] == "aggregate" and rv["akind"] == "tuple" and proj and proj[0][0] == "field" and proj[0][1] < len(rv["ops"]):
            nxt = op_place(rv["ops"][proj[0][1]])
            if nxt is None:
                return visited
            cur = (nxt[0], nxt[1] + proj[1:])
        else:
            return None
    return visited


def c09h(chk):
    """the inline --samples list reaches sample::Map::from_iter in the order clap delivered it"""
    prog = chk.prog
    f = chk.fn("sfs::create::<impl core::convert::From<sfs::create::Samples> for sfs_core::input::site::reader::builder::Samples>::from")
    if f is not None:
        calls = [callee_name(t["callee"]) for b, t in f.calls() if not callee_name(t["callee"]).startswith(("core::panicking", "core::fmt::Arguments"))]
        ok = False
        for b, i, p, rv, s in f.assigns():
            if p[0] == 0 and rv["k"] == "aggregate" and rv.get("variant") == "List":
                chain = pure_move_chain(f, rv["ops"][0])
                ok = chain is not None and any(pl[0] == 1 and any(e[0] == "field" and e[2] == "list" for e in pl[1]) for pl in chain)
        chk.ob("C09.h", "cli::From<Samples>/list-passed-through-untouched", ok and not calls, f.loc(),
               "Samples::List must carry the parsed --samples entries as they are (no sort/dedup/reverse): calls in the conversion: %s" % calls)
    b_ = chk.fn(RC.SITE_BUILD)
    if b_ is not None:
        fi = an.calls(b_, MAP_FROM_ITER)
        ok = False
        if len(fi) == 1:
            chain = pure_move_chain(b_, fi[0][1]["args"][0])
            ok = chain is not None and any(any(e[0] == "downcast" and e[1] == "List" for e in pl[1]) for pl in chain)
        chk.ob("C09.h", "Builder::build/List-payload->from_iter", ok, b_.loc(), "sample::Map::from_iter receives the List payload itself")
    g_ = chk.fn("sfs::create::parse_sample_population")
    if g_ is not None:
        so = [t for b, t in g_.calls() if callee_is(t["callee"], "core::str::<impl str>::split_once")]
        sep = an.const_of(g_, so[0]["args"][1]).get("val") if len(so) == 1 and an.const_of(g_, so[0]["args"][1]) else None
        how_ = "split_once(%r)" % sep
        if not so:
            # `s.splitn(2, '=')` read with two next() calls is the same split: the first piece is the sample, the rest (with any further
            # '=' in it) the label
            sn = [t for b, t in g_.calls() if callee_is(t["callee"], "core::str::<impl str>::splitn")]
            if len(sn) == 1 and len(sn[0]["args"]) == 3:
                n_ = an.const_of(g_, sn[0]["args"][1])
                c_ = an.const_of(g_, sn[0]["args"][2])
                nexts = [t for b, t in g_.calls() if callee_name(t["callee"]).endswith("Iterator>::next") or (t["callee"].get("path") or "") == "core::iter::traits::iterator::Iterator::next"]
                if n_ and n_.get("val") == 2 and c_ and len(nexts) == 2:
                    sep = c_.get("val")
                    how_ = "splitn(2, %r) read with two next()" % sep
        chk.ob("C09.h", "parse_sample_population/split-at-first-'='", sep == "=", g_.loc(), "an entry is `sample=label`, split at the first '=' (found %s)" % how_)
    c_ = chk.fn(RC.CREATE_RUN)
    if c_ is not None:
        ss = an.calls(c_, "sfs_core::input::site::reader::builder::Builder::set_samples")
        ok = False
        if len(ss) == 1:
            sl, info = c_.slice_locals(ss[0][1]["args"][1])
            names = sorted({callee_name(t["callee"]).split("::")[-1] for _, t in info["calls"]})
            ok = ("sfs::create::Create", "samples") in info["fields"] and names == ["map"]
        chk.ob("C09.h", "Create::run/samples-option->set_samples", ok, c_.loc(), "self.samples.map(Into::into) goes straight to set_samples")


def c09e(chk):
    rs = RC.ReadSite(chk)
    if not rs.ok:
        return
    f = rs.fn
    Ld = an.call_dest_local(f.term(rs.L_bb))
    for b, fld, t in rs.index_mut_sites():
        if fld not in ("counts", "totals"):
            continue
        sl, info = f.slice_locals(t["args"][1])
        from_L = Ld in sl
        names = [x[1]["callee"].get("path") or "" for x in info["calls"]]
        counters = [n for n in names if n.endswith("::enumerate") or n.endswith("::position")]
        chk.ob("C09.e", "read_site/index(%s)=population-id-by-name" % fld, from_L and not counters and not info["binops"], f.loc(b),
               "the axis index must be the id returned by get_population_id(sample) (from lookup=%s, counters=%s, arithmetic=%d)" % (from_L, counters, len(info["binops"])))
    # the sample handed to the lookup is the column's name from reader.samples(), zipped with the genotypes
    Lt = f.term(rs.L_bb)
    sl, info = f.slice_locals(Lt["args"][1])
    names = [x[1]["callee"].get("path") or "" for x in info["calls"]]
    ok = "sfs_core::input::genotype::reader::Reader::samples" in names and N.ZIP in names and not any(n.endswith("::enumerate") for n in names)
    chk.ob("C09.e", "read_site/lookup-key=column-sample-name", ok, f.loc(rs.L_bb), "get_population_id receives the zipped item of reader.samples() (calls in slice: %s)" % sorted({n.split('::')[-1] for n in names}))
    g = chk.fn(RC.GET_POP)
    if g is not None:
        ok = len(an.calls(g, "indexmap::map::IndexMap::<K, V, S>::get")) == 1
        chk.ob("C09.e", "get_population_id=IndexMap::get(sample)", ok, g.loc(), "lookup by key (sample name), not by position")


def c09f(chk):
    import iters as IT
    prog = chk.prog
    f = chk.fn(RC.MAP_SHAPE)
    if f is None:
        return
    its = IT.iterations(prog, f)
    unit = [f] + prog.closures_of(f.path)
    GET = "std::collections::hash::map::HashMap::<K, V, S, A>::get"
    gets = [(g, b, t) for g in unit for b, t in g.calls() if (t["callee"].get("path") or "") == GET]
    it = None
    if len(gets) == 1:
        g, gb, gt = gets[0]
        inside = [x for x in its if x.body is g and gb in x.blocks]
        it = min(inside, key=lambda x: len(x.blocks)) if inside else None
    ok = False
    why = "iteration over a range of population ids (containing the HashMap::get lookup) not recognised"
    if it is not None:
        chk.fns_analysed.add(it.body.path)
        ch = it.chain()
        src = ch[-1][1]
        d = f.single_def(f.copy_root(src[0])) if src is not None and not src[1] else None
        plain = [n for n in IT.chain_names(ch) if n not in ("map",)] == []
        if d and d[0] == "assign" and d[3]["k"] == "aggregate" and d[3].get("adt") == "core::ops::range::Range":
            lo = const_val(d[3]["ops"][0])
            hl = op_local(d[3]["ops"][1])
            hd = f.single_def(f.copy_root(hl)) if hl is not None else None
            ok = lo == 0 and hd is not None and hd[0] == "call" and (hd[2]["callee"].get("path") or "").endswith("::len") and plain and (it.runs_for_every_element() and not it.switches())
            why = "%s: Range(%s, %s), no reordering adaptor=%s, every id=%s" % (it.describe(), lo, callee_name(hd[2]["callee"]) if hd and hd[0] == "call" else "?", plain, it.runs_for_every_element() and not it.switches())
    chk.ob("C09.f", "Map::shape/ids-0..len-in-order", ok, f.loc(), "axes are produced for population ids 0..len in increasing order: " + why)
    ok = False
    if it is not None:
        g = it.body
        for b, i, p, rv, s in it.assigns():
            if rv["k"] == "aggregate" and rv.get("adt") == POP_ID:
                ok = it.elem_path(rv["ops"][0]) == ()
    chk.ob("C09.f", "Map::shape::closure/looks-up-Id(param)", ok and len(gets) == 1, it.loc() if it else f.loc(), "axis j is the size of population id j (HashMap read by key Id(j) with j the iteration's element, never iterated)")


def c09g(chk):
    f = chk.fn(RC.SITE_BUILD)
    if f is None:
        return
    nu = an.calls(f, "sfs_core::input::site::reader::Reader::new_unchecked")
    if len(nu) != 1:
        chk.fail("C09.g", "Builder::build/new_unchecked", f.loc(), "expected one Reader::new_unchecked call")
        return
    nb = nu[0][0]
    # empty map
    ie = an.calls(f, SAMPLE_MAP + "::is_empty")
    ok = False
    for b, t in ie:
        for sb, s in an.switches_on_call_result(f, b):
            st = f.term(sb)
            ok = ok or an.dominated_by_edge(f, sb, an.edge_target(st, 0), nb)
    chk.ob("C09.g", "Builder::build/empty-map-rejected", ok, f.loc(nb), "Reader::new_unchecked must be dominated by sample_map.is_empty() == false")
    import iters as IT
    prog = chk.prog
    its = IT.iterations(prog, f)
    CONTAINS = "std::collections::hash::set::HashSet::<T, S, A>::contains"
    unit = [f] + prog.closures_of(f.path)
    cs = [(g, b, t) for g in unit for b, t in g.calls() if (t["callee"].get("path") or "") == CONTAINS]
    ok = False
    why = "expected exactly one HashSet::contains test inside an iteration over the listed samples"
    if len(cs) == 1:
        g, cb, ct = cs[0]
        inside = [it for it in its if it.body is g and cb in it.blocks]
        it = min(inside, key=lambda x: len(x.blocks)) if inside else None
        if it is not None:
            chk.fns_analysed.add(g.path)
            # the iteration walks sample_map.samples(), the tested value is its element, the set is built from the input's samples
            over_listed = IT.chain_names(it.chain()) == ["samples"] and callee_is(IT.chain_get(it.chain(), "samples")["callee"], SAMPLE_MAP + "::samples")
            elem_tested = it.elem_path(ct["args"][1]) == ()
            set_root = it.outer_root(ct["args"][0])
            sd = f.single_def(set_root) if set_root is not None else None
            set_ok = bool(sd and sd[0] == "call" and callee_is(sd[2]["callee"], "core::iter::traits::collect::FromIterator::from_iter") and
                          any(callee_name(x[1]["callee"]).endswith("Reader::samples") for x in f.slice_locals(sd[2]["args"][0])[1]["calls"]))
            route = False
            how = "?"
            if it.kind == "closure":
                # the closure returns !contains(..) (find / any / position) or contains(..) (all)
                d0 = [d for d in g.defs.get(0, [])]
                neg = len(d0) == 1 and d0[0][0] == "assign" and d0[0][3]["k"] == "unop" and d0[0][3]["op"] == "Not" and op_local(d0[0][3]["operand"]) is not None and g.copy_root(op_local(d0[0][3]["operand"])) == an.call_dest_local(ct)
                pos = len(d0) == 1 and d0[0][0] == "call" and d0[0][2] is ct
                plain = len(list(g.calls())) == 1 and not list(g.switches())
                for sb, s_ in an.switches_on_call_result(f, it.bb):
                    st = f.term(sb)
                    if it.consumer in ("find", "position", "find_map") and neg and plain:
                        route = route or an.dominated_by_edge(f, sb, an.edge_target(st, 0), nb)
                        how = "%s(|s| !set.contains(s)) == None" % it.consumer
                    if it.consumer == "any" and neg and plain:
                        route = route or an.dominated_by_edge(f, sb, an.edge_target(st, 0), nb)
                        how = "!any(|s| !set.contains(s))"
                    if it.consumer == "all" and pos and plain:
                        route = route or an.dominated_by_edge(f, sb, st["otherwise"], nb)
                        how = "all(|s| set.contains(s))"
            else:
                # for s in samples { if !set.contains(s) { return Err(..) } } : the `false` edge never reaches the construction,
                # which itself is reached only once the loop is exhausted
                for sb, s_ in an.switches_on_call_result(f, cb):
                    st = f.term(sb)
                    t_false = an.edge_target(st, 0)
                    # through a negation the roles swap
                    subj = op_local(st["discr"])
                    dd = f.single_def(f.copy_root(subj)) if subj is not None else None
                    if dd and dd[0] == "assign" and dd[3]["k"] == "unop" and dd[3]["op"] == "Not":
                        t_false = st["otherwise"]
                    # (a miss reported as a value by an inlined helper - `return Some(sample)`, matched by the caller as
                    # `Some(unknown) => Err(..)`: the caller's None edge is not a path from the miss)
                    after_miss = an.reachable_with_edges_removed(f, t_false, set(), an.infeasible_edges_from(f, t_false, None))
                    route = nb not in after_miss and an.dominated_by_edge(f, it.switch_bb, it.none_t, nb)
                    # a miss must not continue the loop
                    route = route and it.bb not in after_miss
                    how = "for s in samples { if !set.contains(s) { return Err } }"
            ok = over_listed and elem_tested and set_ok and route
            why = "%s: over sample_map.samples()=%s, tests the element=%s, against the set of the input's samples=%s, a miss never reaches Reader::new_unchecked (%s)=%s" % (it.describe(), over_listed, elem_tested, set_ok, how, route)
    cl_ok = True
    chk.ob("C09.g", "Builder::build/unknown-sample-rejected", ok and cl_ok, f.loc(nb),
           "Reader::new_unchecked must be dominated by `no listed sample is missing from the input` (%s)" % why)


# ====================================================================================
# C12
# ====================================================================================
PASSIVE_OK = {"fold", "try_fold", "collect", "map", "and_then", "unwrap_or_default", "default", "clone", "sum", "product", "unzip", "partition", "then", "then_some", "get_or_insert_with", "get_or_init"}
HASH_ALLOWED = {"new", "with_capacity", "from_iter", "entry", "or_insert", "or_insert_with", "or_default", "and_modify", "get", "get_mut", "get_key_value", "remove", "contains", "contains_key", "insert", "len", "is_empty", "default"}
AMBIENT_PREFIXES = ("std::env::", "std::time::", "std::thread::", "std::process::id", "std::hash::random::", "std::collections::hash::map::RandomState", "std::io::stdio::IsTerminal", "std::net::", "std::os::")
GENO_BUILDER = "sfs_core::input::genotype::reader::builder::Builder"


def bcf_magic_tested_for_both_containers(chk, rule):
    """Format::detect decides VCF or BCF for compressed and for uncompressed input alike: from each arm of its switch on the compression
    method a comparison of byte sequences (array / slice equality, starts_with) is reachable.  With the test of one arm gone, the same
    records give a spectrum in one container and a parse error (BCF bytes read as VCF text) in the other."""
    f = chk.fn("sfs_core::input::genotype::reader::builder::Format::detect")
    if f is None:
        return
    def is_cmp(t):
        n = callee_name(t["callee"])
        return "core::array::equality::" in n or n.endswith("::starts_with") or n.endswith("::ends_with") or "core::slice::cmp::" in n or \
            ("PartialEq<[" in n and n.endswith("::eq")) or n.endswith("<impl [T]>::eq") or "bcmp" in n or "memcmp" in n or \
            (n.startswith("core::cmp::impls::<impl core::cmp::PartialEq<&") and n.endswith("::eq"))
    cmp_bbs = {b for b, t in f.calls() if is_cmp(t)}
    def compares(g_):
        unit_ = [g_] + list(chk.prog.closures_of(g_.path))
        return any(is_cmp(t2) for u_ in unit_ for b2, t2 in u_.calls())
    # helpers of the same module that compare (themselves or in a closure: `get(..n).map_or(false, |buf| buf == magic)`), and closures
    # handed to a combinator here
    for b, t in f.calls():
        h = chk.prog.fn(t["callee"].get("resolved") or t["callee"].get("path") or "")
        if h is not None and h is not f and "::reader::builder::" in h.path and compares(h):
            cmp_bbs.add(b)
        for a in t["args"]:
            cf = chk.prog.fn(a.get("fn") or "") if a.get("k") == "const" else None
            if cf is not None and compares(cf):
                cmp_bbs.add(b)
    for c_ in chk.prog.closures_of(f.path):
        if compares(c_):
            # the closure's construction site is not tracked: count the blocks that hand any closure of this function to a call
            for b, t in f.calls():
                for a in t["args"]:
                    l_ = op_local(a)
                    if l_ is not None and "closure" in (f.local_ty(l_) or ""):
                        cmp_bbs.add(b)
    arms = None
    for sb, st in f.switches():
        s_ = an.switch_subject(f, sb)
        if s_["kind"] == "discr" and s_.get("root") == 2:
            arms = (sb, sorted(set(f.succ.get(sb, []))))
            break
    if arms is None:
        # no switch on the compression method itself: a comparison must be passed on the way to every result all the same
        chk.ob(rule, "Format::detect/magic-tested-for-both-containers", bool(cmp_bbs), f.loc(), "switch on the compression method not found; byte comparisons in the function: %d" % len(cmp_bbs))
        return
    sb, tg = arms
    missing = [f.loc(t_) for t_ in tg if f.term(t_)["k"] != "unreachable" and not (({t_} | f.reachable_from(t_)) & cmp_bbs)]
    chk.ob(rule, "Format::detect/magic-tested-for-both-containers", len(tg) >= 2 and not missing, f.loc(sb),
           "from every arm of the switch on the compression method a byte-sequence comparison is reachable (arms: %d, comparisons: %d, arms without one: %s)" % (len(tg), len(cmp_bbs), missing or "none"))


def check_C12(chk):
    chk.explanation = (
        "Structural clauses of C12: (a) hash iteration order is never observed: only keyed/size methods are called on HashMap/HashSet values; "
        "(b) ambient inputs (env, time, threads, pid, random state, is_terminal) are used only at the reviewed sites that decide whether to "
        "refuse the run; (c) `--threads` flows only into the BGZF reader's worker count and decides no branch; (d) file and stdin, and the four "
        "(compression x format) combinations, share one construction funnel ending in the vcf/bcf readers, which share one classifier (C08.d).")
    chk.not_decided = ("noodles' multithreaded BGZF reader delivering blocks in order; byte identity across containers; the dependence of format "
                       "sniffing on the first stdin chunk is reported under C18.c")
    c12a(chk)
    c12b(chk)
    c12c(chk)
    c12d(chk)
    import rules_io
    rules_io.buffered_input_capacity(chk, "C12.d")
    bcf_magic_tested_for_both_containers(chk, "C12.d")
    # shared clause: the sniffers and readers see the same bytes whatever the block layout only if no short read is taken for a full one (C18.a)
    chk.borrow(lambda: rules_io.c18a(chk), "C12.e", 5)
    # the VCF and the BCF reader are siblings: both hand on the decoded sample columns and nothing else, and end / fail alike (C10.e);
    # per-record state is reset for both alike (C11.d)
    chk.borrow(lambda: (rules_io.reader_outcomes(chk, "C10.e"), RC.c11b(chk), RC.c11d(chk)), "C12.f", 8)  # (c11d reads what c11b established about reset())
    for r, n in (("C12.a", 7), ("C12.b", 3), ("C12.c", 3), ("C12.d", 9)):
        chk.floor(r, n)


def c12a(chk):
    prog = chk.prog
    n = 0
    for f in prog.fn_list:
        if f.derived:
            continue
        for b, t in f.calls():
            c = t["callee"]
            p = c.get("path") or ""
            name = p.split("::")[-1]
            HASH = "std::collections::hash::"
            self_ty = c.get("self_ty") or ""
            gen = c.get("args", [])
            own = p.startswith(HASH) or HASH in self_ty or (bool(gen) and HASH in gen[0] and "::" in p and not p.startswith(("core::iter::traits::iterator::Iterator::", "core::option::", "core::result::")))
            # a hash container named only as a type parameter: harmless where it is the result or the accumulator (collect::<HashMap>, fold::<HashMap, _>,
            # Option<HashMap>::unwrap), order-observing where it is the thing iterated (Vec::from_iter(map), v.extend(map), a.zip(map))
            passive = not own and any(HASH in a for a in gen)
            if not own and not passive:
                continue
            if passive and (name in PASSIVE_OK or p.startswith(("core::option::", "core::result::", "core::mem::", "core::ops::try_trait::", "core::ptr::", "core::ops::function::"))):
                continue
            n += 1
            chk.saw_calls()
            chk.ob("C12.a", "%s/%s" % (RP.norm_fn(f.path).split("sfs_core::")[-1], name), name in HASH_ALLOWED and not passive, f.loc(b),
                   "`%s` %s a HashMap/HashSet: only keyed and size methods %s keep the result independent of the hash seed (iteration, Debug, extend-from, drain, retain are order-observing)" % (name, "iterating over" if passive else "on", sorted(HASH_ALLOWED)))
        # hash containers handed to formatting
        for b, i, p, rv, s in f.assigns():
            pass
    # positive control: the matcher sees the keyed uses (floor) and would see iteration: IndexMap::values is matched by the same blob logic in C09.b
    # locals of hash type that are moved into a `for` loop show up as IntoIterator::into_iter with the hash type in generic args (covered above)


def c12b(chk):
    prog = chk.prog
    reviewed = {
        ("sfs_core::input::Input::new", "std::env::var"): "reads SFS_ALLOW_STDIN only to decide whether to refuse the run",
        ("sfs_core::input::Input::new", "std::io::stdio::IsTerminal::is_terminal"): "decides only whether the run is refused (file+stdin / nothing)",
    }
    seen = {}
    for f in prog.fn_list:
        if f.derived:
            continue
        for b, t in f.calls():
            p = t["callee"].get("path") or ""
            if p.startswith(AMBIENT_PREFIXES):
                key = (f.path, p)
                seen[key] = seen.get(key, 0) + 1
                chk.saw_calls()
                chk.ob("C12.b", "ambient/%s@%s" % (p, f.path.split("::", 1)[-1]), key in reviewed, f.loc(b),
                       reviewed.get(key, "UNREVIEWED ambient input: output could depend on the environment / time / scheduling"))
    # the env key is the documented constant and its value is only tested with is_err
    f = chk.fn("sfs_core::input::Input::new")
    if f is not None:
        ev = an.calls(f, "std::env::var")
        ok = False
        if len(ev) == 1:
            k = an.const_of(f, ev[0][1]["args"][0])
            d = an.call_dest_local(ev[0][1])
            uses = [callee_name(t["callee"]) for b, t in f.calls() if any(op_local(a) is not None and (f.resolve_ptr(op_local(a)) or (None,))[0] == d or op_local(a) == d for a in t["args"])]
            ok = bool(k) and (k.get("item") == "sfs_core::input::Input::ENV_KEY_DISABLE_CHECK" or (k.get("val") or {}).get("str") == "SFS_ALLOW_STDIN") and uses == ["core::result::Result::<T, E>::is_err"]
        chk.ob("C12.b", "Input::new/env-var-only-tested-for-presence", ok, f.loc(), "env::var(ENV_KEY_DISABLE_CHECK) may only flow into is_err()")
        # both outcomes besides refusal construct the same Input: new_unchecked(input)
        nu = an.calls(f, "sfs_core::input::Input::new_unchecked")
        chk.ob("C12.b", "Input::new/accepts-via-new_unchecked", len(nu) == 1, f.loc(), "the accepted case is Input::new_unchecked(input), independent of the environment")


def c12c(chk):
    prog = chk.prog
    # Create.threads: read once, passed to set_threads
    reads = RC.field_reads(prog, "sfs::create::Create", "threads")
    reads = [(f, b) for f, b, w in reads if not f.derived and "clap_builder" not in f.path]
    ok = len(reads) == 1 and reads[0][0].path == RC.CREATE_RUN
    chk.ob("C12.c", "Create.threads/read-once-in-Create::run", ok, "", "reads: %s" % [(f.path, f.loc(b)) for f, b in reads])
    f = chk.fn(RC.CREATE_RUN)
    if f is not None:
        st = an.calls(f, GENO_BUILDER + "::set_threads")
        ok = False
        if len(st) == 1:
            sl, info = f.slice_locals(st[0][1]["args"][1], through_calls=False)
            ok = ("sfs::create::Create", "threads") in info["fields"]
        chk.ob("C12.c", "Create::run/threads->set_threads", ok, f.loc(), "self.threads is handed to genotype::reader::Builder::set_threads")
    # Builder.threads: written by set_threads/default, read once as the argument of set_worker_count; never switched on
    breads = [(f, b) for f, b, w in RC.field_reads(prog, GENO_BUILDER, "threads") if not f.derived]
    where = sorted({f.path for f, b in breads})
    chk.ob("C12.c", "Builder.threads/read-only-in-build_from_reader", where == [GENO_BUILDER + "::build_from_reader"], "", "reads of Builder.threads: %s" % where)
    g = chk.fn(GENO_BUILDER + "::build_from_reader")
    if g is not None:
        wc = an.calls(g, "noodles_bgzf::reader::builder::Builder::set_worker_count")
        ok = False
        if len(wc) == 1:
            sl, info = g.slice_locals(wc[0][1]["args"][1], through_calls=False)
            ok = (GENO_BUILDER, "threads") in info["fields"]
        chk.ob("C12.c", "build_from_reader/threads->set_worker_count", ok, g.loc(), "the only sink of `threads` is bgzf::reader::Builder::set_worker_count")
        sw_dep = []
        for sb, st in g.switches():
            prim = lambda l: not (g.local_ty(l) in ("bool", "usize", "u64", "u32", "isize", "i32") or "NonZero" in g.local_ty(l) or g.local_ty(l).startswith("(usize"))
            sl, info = g.slice_locals(st["discr"], through_calls=True, stop=prim)
            if (GENO_BUILDER, "threads") in info["fields"]:
                sw_dep.append(g.loc(sb))
        chk.ob("C12.c", "build_from_reader/no-branch-on-threads", not sw_dep, g.loc(), "no control decision may depend on the thread count (switches: %s)" % sw_dep)


def c12d(chk):
    prog = chk.prog
    f = chk.fn(GENO_BUILDER + "::build")
    if f is not None:
        cs = an.calls(f, GENO_BUILDER + "::build_from_reader")
        tys = sorted(" ".join(t["callee"].get("args", [])) for b, t in cs)
        ok = len(cs) == 2 and any("BufReader<std::fs::File>" in x for x in tys) and any("StdinLock" in x for x in tys)
        chk.ob("C12.d", "Builder::build/file-and-stdin-share-build_from_reader", ok, f.loc(), "both input::Reader variants call the same generic build_from_reader (instantiations: %s)" % tys)
        others = [callee_name(t["callee"]) for b, t in f.calls() if t["callee"].get("local") and not callee_is(t["callee"], GENO_BUILDER + "::build_from_reader", "sfs_core::input::Input::open")]
        chk.ob("C12.d", "Builder::build/no-transport-specific-work", not others, f.loc(), "other workspace calls in build: %s" % others)
    g = chk.fn(GENO_BUILDER + "::build_from_reader")
    if g is not None:
        news = [(b, callee_name(t["callee"])) for b, t in g.calls() if (t["callee"].get("path") or "").endswith("Reader::<R>::new") and t["callee"].get("local")]
        kinds = sorted(n.split("::reader::")[-1].split("::")[0] for b, n in news)
        chk.ob("C12.d", "build_from_reader/four-arms-two-readers", kinds == ["bcf", "bcf", "vcf", "vcf"], g.loc(),
               "the (compression x format) arms construct only bcf::Reader::new / vcf::Reader::new (found %s)" % kinds)
        # every Reader::new result is boxed and `?`-propagated; detect() results `?`-propagated
        det = an.calls(g, "sfs_core::input::genotype::reader::builder::CompressionMethod::detect") + an.calls(g, "sfs_core::input::genotype::reader::builder::Format::detect")
        # (a detector that cannot fail any more - it is handed the buffered bytes and returns a plain value - has nothing to propagate;
        # the fallible step is then the fill_buf() in this function, which must go through `?`)
        def fallible(t_):
            return (t_.get("dest_ty") or "").startswith("core::result::Result<")
        fb = an.calls(g, "std::io::BufRead::fill_buf")
        ok = len(det) == 2 and all(an.try_branch_of(g, b) is not None for b, t in det if fallible(t)) and all(an.try_branch_of(g, b) is not None for b, t in fb)
        chk.ob("C12.d", "build_from_reader/detection-errors-propagate", ok, g.loc(), "compression/format detection results (and the reads feeding them) go through `?`")
        # explicit settings bypass detection symmetrically: detect is called only on the None edge of the corresponding option
        for b, t in det:
            nm = callee_name(t["callee"]).split("::")[-2]
            fld = "compression_method" if nm == "CompressionMethod" else "format"
            ok = False
            for sb, st in g.switches():
                s = an.switch_subject(g, sb)
                if s["kind"] == "discr" and s["place"] and an.owned_self_field(s["place"]) == fld:
                    ok = ok or an.dominated_by_edge(g, sb, an.edge_target(st, 0), b)
            chk.ob("C12.d", "build_from_reader/%s::detect-only-when-unset" % nm, ok, g.loc(b), "detection runs only when the builder field `%s` is None" % fld)
    # BGZF is a series of gzip members: wherever compressed content is peeked or read with flate2, the multi-member decoder is used
    # (a single-member GzDecoder stops at the end of the first block, so the result would depend on the block layout)
    n = 0
    for h in prog.fn_list:
        if h.derived:
            continue
        for b, t in h.calls():
            pth = callee_name(t["callee"])
            if pth.startswith("flate2::") and pth.endswith("::new") and ("Decoder" in pth):
                n += 1
                chk.saw_calls()
                multi = "MultiGzDecoder" in pth
                chk.ob("C12.d", "gzip-decoder@%s/multi-member" % RP.norm_fn(h.path).split("sfs_core::")[-1], multi, h.loc(b),
                       "%s: BGZF input must be decoded across gzip member boundaries (block layout must not matter)" % pth)
    chk.ob("C12.d", "gzip-decoders/found", n >= 1, "", "%d flate2 decoder construction(s) in the workspace" % n, nontrivial=False)
    # a window of k bytes compared with an n-byte magic number can only be equal when k == n (otherwise that container is never recognised)
    import rules_io as RIO
    wc = RIO.window_constant_compares(prog, lambda h_: h_.path.startswith("sfs_core::input::"))
    for h, b, w, n_ in wc:
        chk.ob("C12.d", "magic-compare@%s/window-length=constant-length" % RP.norm_fn(h.path).split("sfs_core::")[-1], w == n_, h.loc(b),
               "a %d-byte window of the input is compared with a %d-byte constant" % (w, n_))
    chk.ob("C12.d", "magic-compares/found", True, "", "%d constant-range window comparison(s) with a fixed-size constant in the input layer" % len(wc), nontrivial=False)
    # container and compression are always decided from the content: the explicit setters have no caller in the workspace
    for nm in ("set_format", "set_compression_method"):
        cs = prog.callers_of(GENO_BUILDER + "::" + nm)
        chk.ob("C12.d", "genotype::reader::Builder::%s/never-called" % nm, not cs, "",
               "a caller that pins the input format from anything but the bytes (file name, option) makes path/stdin or raw/BGZF runs differ: callers %s" % [(f_.path, f_.loc(b_)) for f_, b_, t_ in cs])
    # classification funnel shared (C08.d)
    c08 = [i for i in prog.impls if i.get("trait") and i["trait"]["path"] == "sfs_core::input::genotype::reader::Reader"]
    chk.ob("C12.d", "genotype::Reader/two-impls-one-classifier", len(c08) == 2, "", "vcf and bcf readers are the only implementations; both map through genotype::Result::from (checked by C08.d)")


IDENTITY_CONVERSIONS = ("alloc::string::ToString::to_string", "core::convert::Into::into", "core::convert::From::from", "alloc::borrow::ToOwned::to_owned",
                        "core::clone::Clone::clone", "core::convert::AsRef::as_ref", "alloc::string::String::as_str", "core::ops::Deref::deref",
                        "core::borrow::Borrow::borrow", "alloc::str::<impl str>::to_owned", "alloc::string::String::from_str", "core::str::FromStr::from_str")


def verbatim_chain(f, op):
    """calls other than identity conversions between an operand and the parameter / payload it derives from"""
    bad = []
    l = op_local(op)
    if l is None:
        p = op_place(op)
        l = p[0] if p else None
    n = 0
    while l is not None and n < 24:
        n += 1
        d = f.single_def(f.copy_root(l))
        if d is None:
            break
        if d[0] == "assign" and d[3]["k"] in ("use", "ref", "cast"):
            src = d[3].get("op")
            p = op_place(src) if src is not None else P(d[3]["place"])
            if p is None:
                break
            l = p[0]
            continue
        if d[0] == "call":
            nm = d[2]["callee"].get("path") or ""
            if nm not in IDENTITY_CONVERSIONS and not (nm.startswith("<sfs_core::input::sample::") and "From" in nm):
                bad.append(callee_name(d[2]["callee"]))
            if not d[2]["args"]:
                break
            l = op_local(d[2]["args"][0])
            if l is None:
                p = op_place(d[2]["args"][0])
                l = p[0] if p else None
            continue
        break
    return bad


def c09i(chk):
    prog = chk.prog
    for adt, variant, what in (("sfs_core::input::sample::population::Population", "Named", "population label"), ("sfs_core::input::sample::Sample", "Sample", "sample name")):
        n = 0
        for f in prog.fn_list:
            if f.derived:
                continue
            for b, i, p, rv, s_ in f.assigns():
                if rv["k"] == "aggregate" and rv.get("adt") == adt and rv.get("variant") == variant and rv["ops"]:
                    n += 1
                    bad = verbatim_chain(f, rv["ops"][0])
                    chk.ob("C09.i", "%s@%s/stored-verbatim" % (adt.split("::")[-1] + "::" + variant, RP.norm_fn(f.path).split("sfs_core::")[-1]), not bad, f.loc(b),
                           "the %s is stored as given: only identity conversions may lie between the argument and the stored string (found %s); "
                           "anything else (trimming, case folding) merges or splits populations" % (what, bad))
        chk.ob("C09.i", "%s::%s/constructed-somewhere" % (adt.split("::")[-1], variant), n >= 1, "", "%d construction site(s)" % n, nontrivial=False)
