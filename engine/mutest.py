#!/usr/bin/env python3
"""Checker self-test on one-instance-broken variants.

  mutest.py make <Cxx> <name> <expect-substring> <file> <old> <new> [<file> <old> <new> ...]
      create selftest/mutants/<Cxx>/<name>.patch from textual replacements in a scratch copy,
      run the check on it and require a VIOLATION whose obligation id contains <expect-substring>.
  mutest.py run [<Cxx> ...]     re-run every stored mutant of the given properties (default: all)
Patches that no longer apply (because /repo was edited) are reported as SKIPPED, never as failures.
"""
import os, sys, subprocess, shutil, tempfile, json, re

VERIF = os.path.dirname(os.path.dirname(os.path.abspath(__file__)))
REPO = os.environ.get("SFS_REPO", "/repo")
MUT = os.path.join(VERIF, "selftest", os.environ.get("MUTEST_KIND", "mutants"))


def scratch_copy():
    d = tempfile.mkdtemp(prefix="sfsmut.")
    dst = os.path.join(d, "repo")
    shutil.copytree(REPO, dst, ignore=shutil.ignore_patterns("target", ".git"))
    return d, dst


def run_check(pid, repo, tmp):
    env = dict(os.environ)
    env["VERIF_EVIDENCE_DIR"] = os.path.join(tmp, "evidence")
    env["VERIF_OUT_DIR"] = os.path.join(tmp, "out")
    r = subprocess.run([sys.executable, os.path.join(VERIF, "engine", "sfsverif", "main.py"), pid, "--repo", repo, "--tier", "quick"],
                       stdout=subprocess.PIPE, stderr=subprocess.STDOUT, text=True, env=env)
    return r.returncode, r.stdout


def judge(pid, out, rc, expect):
    viol = [l for l in out.splitlines() if "rule=" in l and "instance=" in l]
    hit = [l for l in viol if expect in l]
    nonfloor = [l for l in viol if "instance=FLOOR" not in l and "ANCHOR-MISSING" not in l and "RULE-CRASH" not in l]
    if rc == 1 and hit:
        return "CAUGHT", hit[0].strip()
    if rc == 1:
        return "CAUGHT-OTHER", (viol[0].strip() if viol else out[-300:])
    return "MISSED", out.strip().splitlines()[-1] if out.strip() else ""


def cmd_make(argv):
    pid, name, expect = argv[0], argv[1], argv[2]
    reps = argv[3:]
    tmp, repo = scratch_copy()
    try:
        subprocess.run(["git", "init", "-q"], cwd=repo, check=True)
        subprocess.run(["git", "add", "-A"], cwd=repo, check=True)
        subprocess.run(["git", "-c", "user.email=a@b", "-c", "user.name=a", "commit", "-qm", "base"], cwd=repo, check=True)
        for i in range(0, len(reps), 3):
            fpath = os.path.join(repo, reps[i])
            s = open(fpath).read()
            if s.count(reps[i + 1]) != 1:
                print("replacement text occurs %d times in %s (need exactly 1)" % (s.count(reps[i + 1]), reps[i]))
                return 2
            open(fpath, "w").write(s.replace(reps[i + 1], reps[i + 2]))
        diff = subprocess.run(["git", "diff"], cwd=repo, stdout=subprocess.PIPE, text=True).stdout
        rc, out = run_check(pid, repo, tmp)
        verdict, line = judge(pid, out, rc, expect)
        if os.environ.get("MUTEST_KIND") == "equivalents":
            # behaviour-preserving variant: the check must stay silent
            silent = rc == 0 and "VIOLATION" not in out
            verdict = "SILENT" if silent else "FALSE-ALARM"
            line = out.strip().splitlines()[-1] if silent else "\n".join(l for l in out.splitlines() if "rule=" in l or l.startswith("    "))[:1500]
        print("%s %s/%s: %s" % (verdict, pid, name, line))
        if verdict not in ("CAUGHT", "SILENT"):
            print(out[-2500:])
        os.makedirs(os.path.join(MUT, pid), exist_ok=True)
        open(os.path.join(MUT, pid, name + ".patch"), "w").write(diff)
        open(os.path.join(MUT, pid, name + ".expect"), "w").write(expect + "\n")
        return 0 if verdict in ("CAUGHT", "SILENT") else 1
    finally:
        shutil.rmtree(tmp, ignore_errors=True)


def run_one(pid, name):
    patch = os.path.join(MUT, pid, name + ".patch")
    expect = open(os.path.join(MUT, pid, name + ".expect")).read().strip()
    tmp, repo = scratch_copy()
    try:
        r = subprocess.run(["git", "apply", "--unsafe-paths", "--directory=" + repo, patch], cwd="/", stdout=subprocess.PIPE, stderr=subprocess.STDOUT, text=True)
        if r.returncode != 0:
            r = subprocess.run(["patch", "-p1", "-s", "-i", patch], cwd=repo, stdout=subprocess.PIPE, stderr=subprocess.STDOUT, text=True)
            if r.returncode != 0:
                return "SKIPPED", "patch does not apply to the current tree"
        rc, out = run_check(pid, repo, tmp)
        if os.environ.get("MUTEST_KIND") == "equivalents":
            silent = rc == 0 and "VIOLATION" not in out
            return ("SILENT" if silent else "FALSE-ALARM"), (out.strip().splitlines()[-1] if silent else " | ".join(l.strip() for l in out.splitlines() if "rule=" in l)[:300])
        return judge(pid, out, rc, expect)
    finally:
        shutil.rmtree(tmp, ignore_errors=True)


def cmd_run(argv):
    pids = argv or sorted(os.listdir(MUT)) if os.path.isdir(MUT) else []
    bad = 0
    res = []
    for pid in pids:
        d = os.path.join(MUT, pid)
        if not os.path.isdir(d):
            continue
        for f in sorted(os.listdir(d)):
            if f.endswith(".patch"):
                name = f[:-6]
                v, line = run_one(pid, name)
                res.append((pid, name, v, line))
                print("%-13s %s/%s  %s" % (v, pid, name, line[:160]))
                if v in ("MISSED", "FALSE-ALARM"):
                    bad += 1
    return 1 if bad else 0, res


if __name__ == "__main__":
    if sys.argv[1] == "make":
        sys.exit(cmd_make(sys.argv[2:]))
    rc, _ = cmd_run(sys.argv[2:])
    sys.exit(rc)
