#!/usr/bin/env python3
"""Behaviour-preserving variants (refactorings that keep every property): no check may raise an alarm on them.

  eqall.py make <name> <file> <old> <new> [...]   create selftest/equivalents/ALL/<name>.patch and evaluate it
  eqall.py run [name ...]                           re-evaluate stored variants against every claimed check
"""
import os, sys, subprocess, shutil, json
from concurrent.futures import ThreadPoolExecutor
VERIF = os.path.dirname(os.path.dirname(os.path.abspath(__file__)))
sys.path.insert(0, os.path.join(VERIF, "engine"))
import mutest
EQ = os.path.join(VERIF, "selftest", "equivalents", "ALL")


def evaluate(repo, tmp):
    claimed = json.load(open(os.path.join(VERIF, "engine", "claimed.json")))
    alarms = {}
    def one(pid):
        t2 = os.path.join(tmp, pid)
        os.makedirs(t2, exist_ok=True)
        rc, out = mutest.run_check(pid, repo, t2)
        if rc != 0 or "VIOLATION" in out:
            return pid, [l.strip() for l in out.splitlines() if "rule=" in l][:3]
        return pid, None
    # first call extracts facts once (lock), then parallel
    p0, a0 = one(claimed[0])
    if a0:
        alarms[p0] = a0
    with ThreadPoolExecutor(max_workers=8) as ex:
        for pid, a in ex.map(one, claimed[1:]):
            if a:
                alarms[pid] = a
    return alarms


def make(argv):
    name, reps = argv[0], argv[1:]
    tmp, repo = mutest.scratch_copy()
    try:
        subprocess.run(["git", "init", "-q"], cwd=repo, check=True)
        subprocess.run(["git", "add", "-A"], cwd=repo, check=True)
        subprocess.run(["git", "-c", "user.email=a@b", "-c", "user.name=a", "commit", "-qm", "base"], cwd=repo, check=True)
        for i in range(0, len(reps), 3):
            fp = os.path.join(repo, reps[i])
            s = open(fp).read()
            if s.count(reps[i + 1]) != 1:
                print("replacement text occurs %d times in %s" % (s.count(reps[i + 1]), reps[i]))
                return 2
            open(fp, "w").write(s.replace(reps[i + 1], reps[i + 2]))
        diff = subprocess.run(["git", "diff"], cwd=repo, stdout=subprocess.PIPE, text=True).stdout
        alarms = evaluate(repo, tmp)
        os.makedirs(EQ, exist_ok=True)
        open(os.path.join(EQ, name + ".patch"), "w").write(diff)
        print("%s %s %s" % ("SILENT" if not alarms else "FALSE-ALARM", name, json.dumps(alarms)[:1500] if alarms else ""))
        return 0 if not alarms else 1
    finally:
        shutil.rmtree(tmp, ignore_errors=True)


def run(argv):
    bad = 0
    for f in sorted(os.listdir(EQ)) if os.path.isdir(EQ) else []:
        if not f.endswith(".patch") or (argv and f[:-6] not in argv):
            continue
        tmp, repo = mutest.scratch_copy()
        try:
            r = subprocess.run(["patch", "-p1", "-s", "-i", os.path.join(EQ, f)], cwd=repo, stdout=subprocess.PIPE, stderr=subprocess.STDOUT, text=True)
            if r.returncode != 0:
                print("SKIPPED     %s (patch does not apply)" % f[:-6])
                continue
            alarms = evaluate(repo, tmp)
            print("%-11s %s %s" % ("SILENT" if not alarms else "FALSE-ALARM", f[:-6], json.dumps(alarms)[:600] if alarms else ""))
            bad += 1 if alarms else 0
        finally:
            shutil.rmtree(tmp, ignore_errors=True)
    return 1 if bad else 0


if __name__ == "__main__":
    sys.exit(make(sys.argv[2:]) if sys.argv[1] == "make" else run(sys.argv[2:]))
