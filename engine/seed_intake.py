#!/usr/bin/env python3
"""Intake of an independently written breaking change (sub-agent output).

  seed_intake.py <src_dir> <seed_id> <property>
      <src_dir> contains patch.diff, demo.sh (or demo.rs + instructions), notes.md
Confirms in a fresh scratch worktree of /repo (outside /repo and /verif) that
  1. the patch applies and the workspace builds,
  2. the pinned test suite passes with the patch,
  3. the demonstration fails with the patch and passes without it,
then copies it to /verif/seeded/<seed_id>/ with meta.json, runs every claimed check against the patched tree
(scratch copy) and records which checks report it.  The worktree and its build output are removed afterwards."""
import os, sys, subprocess, shutil, json, tempfile, time

VERIF = os.path.dirname(os.path.dirname(os.path.abspath(__file__)))
REPO = "/repo"


def sh(cmd, cwd=None, env=None, timeout=1800):
    r = subprocess.run(cmd, shell=True, cwd=cwd, env=env, stdout=subprocess.PIPE, stderr=subprocess.STDOUT, text=True, timeout=timeout)
    return r.returncode, r.stdout


def main():
    src, sid, prop = sys.argv[1], sys.argv[2], sys.argv[3]
    patch = os.path.join(src, "patch.diff")
    demo = os.path.join(src, "demo.sh")
    if not os.path.exists(patch) or not os.path.exists(demo):
        print("missing patch.diff or demo.sh in", src)
        return 2
    wt = tempfile.mkdtemp(prefix="sfsconfirm.")
    os.rmdir(wt)
    ran = []
    env = dict(os.environ, CARGO_NET_OFFLINE="true", SFS_ALLOW_STDIN="1")
    try:
        rc, out = sh("git -C %s worktree add -q --detach %s HEAD" % (REPO, wt))
        if rc != 0:
            print(out)
            return 2
        if os.path.isdir(os.path.join(REPO, "target")):
            shutil.copytree(os.path.join(REPO, "target"), os.path.join(wt, "target"), symlinks=True)
        # baseline: demo passes without the patch
        rc, out = sh("cargo build --offline 2>&1 | tail -3", cwd=wt, env=env)
        rc0, out0 = sh("bash %s %s" % (demo, wt), cwd=wt, env=env)
        ran.append("unpatched: cargo build --offline; demo.sh -> exit %d" % rc0)
        rc, out = sh("git apply %s" % patch, cwd=wt)
        if rc != 0:
            print("patch does not apply:", out)
            return 3
        rcb, outb = sh("cargo build --offline 2>&1 | tail -5", cwd=wt, env=env)
        built = "error" not in outb.lower() or "warning" in outb.lower() and "error[" not in outb and "could not compile" not in outb
        rct, outt = sh("cargo test --workspace --no-fail-fast --offline 2>&1 | grep -E '^test result|FAILED|failed|could not compile'", cwd=wt, env=env)
        passed = sum(int(l.split("ok. ")[1].split(" passed")[0]) for l in outt.splitlines() if l.startswith("test result: ok."))
        tests_ok = "FAILED" not in outt and "failed;" not in outt.replace("0 failed;", "") and "could not compile" not in outt and passed >= 90
        ran.append("patched: cargo build --offline -> %s; cargo test --workspace --offline -> %d passed, ok=%s" % ("ok" if built else "FAILED", passed, tests_ok))
        rc1, out1 = sh("bash %s %s" % (demo, wt), cwd=wt, env=env)
        ran.append("patched: demo.sh -> exit %d" % rc1)
        confirmed = built and tests_ok and rc0 == 0 and rc1 != 0
        print("%s: build=%s tests_ok=%s (%d passed) demo unpatched=%d patched=%d -> %s" % (sid, built, tests_ok, passed, rc0, rc1, "CONFIRMED" if confirmed else "REJECTED"))
        if not confirmed:
            print(outb[-600:])
            print(outt[-600:])
            print("demo (unpatched):", out0[-400:])
            print("demo (patched):", out1[-400:])
            return 1
        # run every claimed check against the patched tree
        sys.path.insert(0, os.path.join(VERIF, "engine"))
        import mutest
        claimed = json.load(open(os.path.join(VERIF, "engine", "claimed.json")))
        tmp = tempfile.mkdtemp(prefix="sfsseedchk.")
        scratch = os.path.join(tmp, "repo")
        shutil.copytree(wt, scratch, ignore=shutil.ignore_patterns("target", ".git", "_seeded"))
        caught = {}
        for pid in claimed:
            rc, out = mutest.run_check(pid, scratch, tmp)
            viol = [l.strip() for l in out.splitlines() if "rule=" in l and "instance=" in l]
            if rc != 0 and viol:
                caught[pid] = viol[:3]
        shutil.rmtree(tmp, ignore_errors=True)
        dst = os.path.join(VERIF, "seeded", sid)
        os.makedirs(dst, exist_ok=True)
        for f in os.listdir(src):
            p = os.path.join(src, f)
            if os.path.isfile(p):
                shutil.copy(p, os.path.join(dst, f))
        notes = open(os.path.join(src, "notes.md")).read() if os.path.exists(os.path.join(src, "notes.md")) else ""
        meta = {
            "id": sid,
            "property": prop,
            "origin": "written by an independent sub-agent that saw only the property text and a scratch worktree of /repo",
            "repo_commit": subprocess.run(["git", "-C", REPO, "rev-parse", "--short", "HEAD"], stdout=subprocess.PIPE, text=True).stdout.strip(),
            "needs_to_manifest": notes[:1500],
            "confirmed": {"compiles": built, "tests_passed": passed, "demo_exit_unpatched": rc0, "demo_exit_patched": rc1, "commands": ran},
            "caught_by": caught,
            "detected_by_expected": sorted(caught) if caught else [prop],
            "expect": {pid: "rule=" for pid in caught},
        }
        json.dump(meta, open(os.path.join(dst, "meta.json"), "w"), indent=1)
        print("   caught by: %s" % (", ".join("%s (%s)" % (k, v[0].split("rule=")[1][:90]) for k, v in caught.items()) or "NONE - MISSED"))
        return 0
    finally:
        sh("git -C %s worktree remove --force %s" % (REPO, wt))
        shutil.rmtree(wt, ignore_errors=True)


if __name__ == "__main__":
    sys.exit(main())
