#!/usr/bin/env python3
"""Re-run every claimed check against every kept seeded change (scratch copies) and refresh meta.json:
`caught_by` is the current result; `first_result` keeps what the checks reported when the change was first taken in."""
import os, sys, json, shutil, subprocess
from concurrent.futures import ThreadPoolExecutor
VERIF = os.path.dirname(os.path.dirname(os.path.abspath(__file__)))
sys.path.insert(0, os.path.join(VERIF, "engine"))
import mutest


def one(sid, claimed):
    d = os.path.join(VERIF, "seeded", sid)
    tmp, repo = mutest.scratch_copy()
    try:
        r = subprocess.run(["patch", "-p1", "-s", "-i", os.path.join(d, "patch.diff")], cwd=repo, stdout=subprocess.PIPE, stderr=subprocess.STDOUT, text=True)
        if r.returncode != 0:
            return sid, None
        caught = {}
        for pid in claimed:
            rc, out = mutest.run_check(pid, repo, tmp)
            viol = [l.strip() for l in out.splitlines() if "rule=" in l and "instance=" in l]
            if rc != 0 and viol:
                caught[pid] = viol[:3]
        return sid, caught
    finally:
        shutil.rmtree(tmp, ignore_errors=True)


def first_of(meta):
    fr = meta.get("first_result")
    if isinstance(fr, dict):
        return fr.get("caught_by")
    if fr == "missed":
        return []
    return fr


def main():
    claimed = json.load(open(os.path.join(VERIF, "engine", "claimed.json")))
    only = sys.argv[1:]
    sids = [s for s in sorted(os.listdir(os.path.join(VERIF, "seeded"))) if os.path.exists(os.path.join(VERIF, "seeded", s, "meta.json")) and (not only or s in only)]
    with ThreadPoolExecutor(max_workers=6) as ex:
        for sid, caught in ex.map(lambda s: one(s, claimed), sids):
            mp = os.path.join(VERIF, "seeded", sid, "meta.json")
            meta = json.load(open(mp))
            if caught is None:
                print("%-10s SKIPPED (patch does not apply to the current tree)" % sid)
                continue
            meta.setdefault("first_result", {"caught_by": sorted(meta.get("caught_by", {}))})
            meta["caught_by"] = caught
            meta["detected_by_expected"] = sorted(caught) if caught else [meta["property"]]
            meta["expect"] = {pid: "rule=" for pid in caught}
            json.dump(meta, open(mp, "w"), indent=1)
            print("%-10s %s%s" % (sid, ", ".join("%s[%s]" % (k, v[0].split("rule=")[1].split("  ")[0]) for k, v in caught.items()) or "MISSED",
                                  "   (first: %s)" % (first_of(meta) or "missed")))

main()
