"""C03, C04, C05: the numeric core of these properties is NOT decided (DESIGN section 6).  What is decided are the
clauses whose truth is in the shape of the code: input validation and its dominance, the wiring and pairing of the
operands, decision tables, and that the per-element loops are unconditional and run over every element."""
from facts import P, pstr, op_place, op_local, op_const, const_val, ostr, rvstr, callee_is, callee_name, rv_operands
import an
import names as N
import rules_create as RC
import rules_geno as RG
import iters as IT

SP = "sfs_core::spectrum::Spectrum::<S>::"
SCS = "sfs_core::spectrum::Spectrum::<sfs_core::spectrum::Counts>::"
PROJ = "sfs_core::spectrum::project::"
A = "sfs_core::array::"
FOLDED = "sfs_core::spectrum::folded::Folded::<S>::"
COUNT = "sfs_core::spectrum::count::Count"


def adaptors_of(f, op, skip_bb=None):
    sl, info = f.slice_locals(op)
    return [(x[1]["callee"].get("path") or "").split("::")[-1] for x in info["calls"] if x[0] != skip_bb], info


def closure_of_arg(prog, f, t, idx):
    l = op_local(t["args"][idx])
    d = f.single_def(l) if l is not None else None
    if d and d[0] == "assign" and d[3]["k"] == "aggregate" and d[3]["akind"] == "closure":
        return prog.fn(d[3]["closure"])
    return None


def only_structural_switches(f, allowed_bbs):
    """switch blocks of f other than the given ones (iterator `next`, `?`)"""
    return [b for b, t in f.switches() if b not in allowed_bbs]


# ====================================================================================
# C03
# ====================================================================================
def check_C03(chk):
    chk.explanation = (
        "NARROW claim.  Decided (structure of Projection::{from_shapes,new}, Count::try_from_shape, Spectrum::project, Projected::{add_unchecked,"
        "into_weighted}): (a) rejection: a target that is zero on any axis, of different dimensionality, or larger than the source on any axis "
        "(element-wise comparison over zipped axes) never reaches Projection::new_unchecked; (b) Spectrum::project validates before anything "
        "else, walks every (value, index) pair of the source in the same order, unconditionally, and for each one calls project_unchecked(index)"
        ".into_weighted(value).add_unchecked(result) on a zero-initialised result of the target shape; (c) add_unchecked adds projected * weight "
        "to every cell; (d) shared with C02: argument roles down to hypergeometric_pmf, factorial table bound, ln_gamma(x + 1), 2i+1.")
    chk.not_decided = ("the numerical identity sum_k x[k] prod_j Hypergeom(..) itself, finiteness at large sizes beyond the table bound, mass preservation, "
                       "identity/composition/commutation laws: values, not structure")
    c03a(chk)
    c03b(chk)
    c03c(chk)
    # shared clause: `sfs view --project-*` is how a spectrum is projected from the command line: the project step runs whenever its option is
    # given, whatever the shapes are (no `same size => skip` shortcut), and its result is what is written (C13.a/b on View::run)
    import rules_view as RV3_
    chk.borrow_check(RV3_.check_C13, {"C13.a", "C13.b"}, "C03.e", 4, keys=lambda k: "project" in k)
    before = len(chk.obs)
    RC.c02g(chk)
    rs = None
    # roles down to the pmf (C02.b without the read_site part)
    class _RS:
        pass
    for o in chk.obs[before:]:
        o["rule"] = "C03.d"
        o["id"] = "C03.d/" + o["key"]
    chk.rule_counts["C03.d"] = chk.rule_counts.pop("C02.g", 0)
    RC.affine_siblings(chk, "C03.d")
    for r, n in (("C03.a", 6), ("C03.b", 8), ("C03.c", 3), ("C03.d", 9)):
        chk.floor(r, n)


def _equal_dimensions_dominate(f, nb):
    """block nb is reached only over the `equal` edge of a comparison `a.dimensions() == / != b.dimensions()` of two different counts"""
    ok = False
    for sb, st in f.switches():
        s_ = an.switch_subject(f, sb)
        if s_["kind"] == "value" and s_["root"] is not None:
            d_ = f.single_def(s_["root"])
            if d_ and d_[0] == "assign" and d_[3]["k"] == "binop" and d_[3]["op"] in ("Eq", "Ne"):
                ds_ = [f.single_def(an.origin_local(f, op_local(d_[3][x]))) for x in ("l", "r") if op_local(d_[3][x]) is not None]
                if len(ds_) == 2 and all(x and x[0] == "call" and callee_is(x[2]["callee"], COUNT + "::dimensions") for x in ds_):
                    roots_ = sorted(RG._param_root_owned(f, x[2]["args"][0]) or -1 for x in ds_)
                    eq_edge = st["otherwise"] if d_[3]["op"] == "Eq" else an.edge_target(st, 0)
                    ok = ok or (an.dominated_by_edge(f, sb, eq_edge, nb) and len(set(roots_)) == 2)
    return ok


def c03a(chk):
    prog = chk.prog
    f = chk.fn(PROJ + "Projection::new")
    if f is not None:
        nu = an.calls(f, PROJ + "Projection::new_unchecked")
        fm = [(b, t) for b, t in f.calls() if callee_is(t["callee"], "core::iter::traits::iterator::Iterator::find_map", "core::iter::traits::iterator::Iterator::find", "core::iter::traits::iterator::Iterator::position", "core::iter::traits::iterator::Iterator::any")]
        if len(nu) == 1 and len(fm) != 1:
            # the same validation without a search adaptor (a loop that returns the error for the first axis with from < to, possibly in
            # an extracted helper): new_unchecked is reached only where `from >= to` held for every zipped axis
            nb = nu[0][0]
            its_ = IT.iterations(prog, f)
            guards = IT.forall_guards(prog, f, its_, nb)
            dim_ok = _equal_dimensions_dominate(f, nb)
            chk.ob("C03.a", "Projection::new/new_unchecked<=equal-dimensions", dim_ok, f.loc(nb), "the projection is built only when source and target have the same number of axes")
            good = []
            def into_param_(local_):
                d_ = f.single_def(f.copy_root(local_))
                if d_ and d_[0] == "call" and callee_is(d_[2]["callee"], "core::convert::Into::into"):
                    a_ = op_local(d_[2]["args"][0])
                    return f.copy_root(a_) if a_ is not None else None
                return None
            for gd in guards:
                ch_ = gd["it"].chain()
                zt_ = IT.chain_get(ch_, "zip")
                c_ = gd["cmp"]
                if zt_ is None and c_[0] == "Ge" and c_[1] == (1,) and c_[2] is not None and c_[2][:1] == ("at",) and c_[2][2] == (0,):
                    # pairing by position: for (k, from_k) in from.iter().enumerate() { .. to[k] .. }
                    src_ = ch_[-1][1]
                    over_from = sorted(IT.chain_names(ch_)) == ["enumerate", "iter"] and src_ is not None and into_param_(src_[0]) == 1
                    base_ = c_[2][1]
                    at_to = base_ is not None and not [e for e in base_[1] if e[0] != "deref"] and into_param_(base_[0]) == 2
                    if over_from and at_to and dim_ok:
                        good.append(gd)
                    continue
                if zt_ is None or [n_ for n_ in IT.chain_names(ch_) if n_ not in ("zip", "iter", "enumerate")]:
                    continue
                def src_param_(op):
                    sl_, info_ = f.slice_locals(op)
                    ps_ = set()
                    for l_ in sl_:
                        for dd_ in f.defs.get(l_, []):
                            if dd_[0] == "call" and callee_is(dd_[2]["callee"], "core::convert::Into::into"):
                                r_ = f.copy_root(op_local(dd_[2]["args"][0])) if op_local(dd_[2]["args"][0]) is not None else None
                                ps_.add(r_)
                    return ps_
                roles_ = src_param_(zt_["args"][0]) == {1} and src_param_(zt_["args"][1]) == {2}
                if roles_ and gd["cmp"] in (("Ge", (0,), (1,)), ("Ge", (1, 0), (1, 1))):
                    good.append(gd)
            chk.ob("C03.a", "Projection::new/new_unchecked<=no-axis-with-from<to(element-wise)", bool(good), f.loc(nb),
                   "built only where `from >= to` held for every axis of zip(from, to): %s" % ([(x["how"], x["cmp"]) for x in guards] or "no universal guard recognised"))
            whole = [callee_name(t["callee"]) for b, t in f.calls() if callee_is(t["callee"], "core::cmp::PartialOrd::ge", "core::cmp::PartialOrd::le", "core::cmp::PartialOrd::lt", "core::cmp::PartialOrd::gt", "core::cmp::Ord::cmp")]
            chk.ob("C03.a", "Projection::new/no-whole-vector-comparison", not whole, f.loc(), "no comparison of the two counts as wholes (a derived ordering would be lexicographic): %s" % whole)
            errs = sorted({rv["variant"] for _, _, _, rv, _ in f.assigns() if rv["k"] == "aggregate" and rv.get("adt") == PROJ + "ProjectionError"})
            chk.ob("C03.a", "Projection::new/error-variants", errs == ["Empty", "InvalidProjection", "UnequalDimensions"], f.loc(), "rejections are reported as %s" % errs, nontrivial=False)
        elif len(nu) != 1 or len(fm) != 1:
            chk.fail("C03.a", "Projection::new/shape", f.loc(), "expected one new_unchecked call and one element-wise search, found %d / %d" % (len(nu), len(fm)))
        else:
            nb = nu[0][0]
            # dimensionality
            dim_ok = _equal_dimensions_dominate(f, nb)
            chk.ob("C03.a", "Projection::new/new_unchecked<=equal-dimensions", dim_ok, f.loc(nb), "the projection is built only when source and target have the same number of axes")
            # element-wise size test
            fb, ft = fm[0]
            ad, info = adaptors_of(f, ft["args"][0], fb)
            zips = [x for x in info["calls"] if callee_is(x[1]["callee"], N.ZIP)]
            roles_ok = False
            if len(zips) == 1:
                zt = zips[0][1]
                s0, i0 = f.slice_locals(zt["args"][0])
                s1, i1 = f.slice_locals(zt["args"][1])
                # `from` = Into::into(param 1), `to` = Into::into(param 2)
                def src_param(sl):
                    ps = set()
                    for l in sl:
                        for d in f.defs.get(l, []):
                            if d[0] == "call" and callee_is(d[2]["callee"], "core::convert::Into::into"):
                                r = f.copy_root(op_local(d[2]["args"][0])) if op_local(d[2]["args"][0]) is not None else None
                                ps.add(r)
                    return ps
                roles_ok = src_param(s0) == {1} and src_param(s1) == {2}
            cl = closure_of_arg(prog, f, ft, 1)
            cmp_ok = False
            if cl is not None:
                chk.fns_analysed.add(cl.path)
                lts = [t for b, t in cl.calls() if callee_is(t["callee"], "core::cmp::PartialOrd::lt")]
                bins = [rv for _, _, _, rv, _ in cl.assigns() if rv["k"] == "binop" and rv["op"] in ("Lt", "Gt", "Le", "Ge")]
                if len(lts) == 1 and not bins:
                    # operands: tuple item (.1.0 = from, .1.1 = to) in that order
                    def item_path(op):
                        sl, info = cl.slice_locals(op, through_calls=False)
                        for l in sl:
                            for d in cl.defs.get(l, []):
                                if d[0] == "assign" and d[3]["k"] == "use":
                                    p = op_place(d[3]["op"])
                                    if p and p[0] == 2 and p[1]:
                                        return tuple(e[1] for e in p[1] if e[0] == "field")
                        return None
                    cmp_ok = item_path(lts[0]["args"][0]) in ((1, 0), (0,)) and item_path(lts[0]["args"][1]) in ((1, 1), (1,))
            none_ok = False
            for sb, s in an.switches_on_call_result(f, fb):
                none_ok = an.dominated_by_edge(f, sb, an.edge_target(f.term(sb), 0), nb)
            elementwise = all(a in ("zip", "enumerate", "iter", "deref", "into") for a in ad) and "zip" in ad
            chk.ob("C03.a", "Projection::new/new_unchecked<=no-axis-with-from<to(element-wise)", roles_ok and cmp_ok and none_ok and elementwise, f.loc(nb),
                   "built only when the search for an axis with `from < to` over zip(from, to) found none (zip roles from/to=%s, closure compares item.from < item.to=%s, "
                   "None edge dominates=%s, adaptors %s)" % (roles_ok, cmp_ok, none_ok, ad))
            # whole-vector comparisons (lexicographic Ord on Count) are not a validation
            whole = [callee_name(t["callee"]) for b, t in f.calls() if callee_is(t["callee"], "core::cmp::PartialOrd::ge", "core::cmp::PartialOrd::le", "core::cmp::PartialOrd::lt", "core::cmp::PartialOrd::gt", "core::cmp::Ord::cmp")]
            chk.ob("C03.a", "Projection::new/no-whole-vector-comparison", not whole, f.loc(), "no comparison of the two counts as wholes (a derived ordering would be lexicographic): %s" % whole)
            errs = sorted({rv["variant"] for _, _, _, rv, _ in f.assigns() if rv["k"] == "aggregate" and rv.get("adt") == PROJ + "ProjectionError"})
            chk.ob("C03.a", "Projection::new/error-variants", errs == ["Empty", "InvalidProjection", "UnequalDimensions"], f.loc(), "rejections are reported as %s" % errs, nontrivial=False)
    g = chk.fn(PROJ + "Projection::from_shapes")
    if g is not None:
        tf = an.calls(g, COUNT + "::try_from_shape")
        nw = an.calls(g, PROJ + "Projection::new")
        ok = False
        if len(tf) == 2 and len(nw) == 1:
            dests = [an.call_dest_local(t) for b, t in tf]
            # new is dominated by the Some edges of both results
            somes = 0
            for sb, st in g.switches():
                s = an.switch_subject(g, sb)
                if s["kind"] == "discr" and "Option" in (s.get("ty") or ""):
                    if an.dominated_by_edge(g, sb, an.edge_target(st, 1), nw[0][0]):
                        somes += 1
            # argument order preserved: new(from, to)
            def from_which(op):
                chain = RG.pure_move_chain(g, op)
                if not chain:
                    return None
                for pl in chain:
                    if pl[1] and pl[1][0][0] == "field" and g.single_def(pl[0]) and g.single_def(pl[0])[3].get("akind") == "tuple":
                        return pl[1][0][1]
                return None
            order = [from_which(a) for a in nw[0][1]["args"]]
            zero = any(rv["k"] == "aggregate" and rv.get("variant") == "Zero" for _, _, _, rv, _ in g.assigns())
            ok = somes >= 2 and order == [0, 1] and zero
        chk.ob("C03.a", "Projection::from_shapes/both-shapes-nonzero-then-new(from,to)", ok, g.loc(), "Projection::new(from, to) is reached only when both shapes convert to counts; otherwise ProjectionError::Zero")
    h = chk.fn(COUNT + "::try_from_shape")
    if h is not None:
        cs = [(b, t) for b, t in h.calls() if (t["callee"].get("path") or "") == "core::num::<impl usize>::checked_sub"]
        ok = False
        why = "one checked_sub(1) whose None outcome is told apart was not found"
        if len(cs) == 1 and const_val(cs[0][1]["args"][1]) == 1:
            oc = an.option_outcomes(h, cs[0][0])
            if oc is not None:
                sb, some_t, none_t = oc
                after_none = h.reachable_from(none_t)
                # on the None outcome the function returns without building Some(..): no Some aggregate of the return type is reachable
                some_aggs = [b for b, i, p, rv, s_ in h.assigns() if rv["k"] == "aggregate" and rv.get("variant") == "Some" and p[0] == 0]
                none_ret = [b for b, i, p, rv, s_ in h.assigns() if p[0] == 0 and rv["k"] == "aggregate" and rv.get("variant") == "None"] + \
                           [b for b, t in h.calls() if callee_is(t["callee"], "core::ops::try_trait::FromResidual::from_residual") and an.call_dest_local(t) == 0]
                ok = bool(some_aggs) and not any(b in after_none for b in some_aggs) and any(b in after_none for b in none_ret)
                why = "None outcome of checked_sub(1) returns None and never reaches Some(..): %s" % ok
        upd = an.each_element_update(chk.prog, h)
        whole = upd is not None and upd["kind"] == "loop" and [a for a in upd["adaptors"] if a not in ("into_iter", "deref_mut")] == ["iter_mut"]
        if not cs:
            # the same as a chain: shape.0.into_iter().map(|x| x.checked_sub(1)).collect::<Option<Vec<usize>>>().map(Self) - collecting into
            # an Option is None as soon as one element is None
            coll = [(b, t) for b, t in h.calls() if callee_is(t["callee"], N.COLLECT) and "core::option::Option<alloc::vec::Vec<usize>>" in " ".join(t["callee"].get("args", []))]
            its_ = [it for it in IT.iterations(chk.prog, h) if it.kind == "closure" and it.consumer == "map"]
            if len(coll) == 1 and len(its_) == 1:
                it = its_[0]
                ch = IT.receiver_chain(h, coll[0][1]["args"][0])
                g_ = it.body
                cs2 = [(b, t) for b, t in g_.calls() if (t["callee"].get("path") or "") == "core::num::<impl usize>::checked_sub"]
                direct = len(cs2) == 1 and len(list(g_.calls())) == 1 and const_val(cs2[0][1]["args"][1]) == 1 and an.call_dest_local(cs2[0][1]) == 0 and it.elem_path(cs2[0][1]["args"][0]) == ()
                src = ch[-1][1]
                over_shape = IT.chain_get(ch, "map") is it.term and [n for n in IT.chain_names(ch) if n not in ("map", "into_iter", "iter", "copied", "cloned")] == [] and src is not None and (src[0] == 1 or 1 in h.slice_locals(src[0], through_calls=False)[0])
                # the collected Option is what is returned (through Option::map(Self), or as it is)
                d0 = h.defs.get(0, [])
                ret = False
                if len(d0) == 1 and d0[0][0] == "call" and callee_is(d0[0][2]["callee"], N.OPT_MAP):
                    a0 = op_local(d0[0][2]["args"][0])
                    ret = a0 is not None and h.copy_root(a0) == an.call_dest_local(coll[0][1]) and d0[0][2]["args"][1]["k"] == "const" and (d0[0][2]["args"][1].get("fn") or "").endswith("count::Count")
                ok = direct and ret
                whole = over_shape
                why = "map(|x| x.checked_sub(1)) collected into Option<Vec<usize>>: closure is exactly the checked subtraction=%s, the collected Option is returned through map(Count)=%s" % (direct, ret)
                chk.fns_analysed.add(g_.path)
        chk.ob("C03.a", "Count::try_from_shape/zero-axis->None", ok and whole, h.loc(), "every axis length n becomes n.checked_sub(1), a zero-length axis rejects the shape (%s; per element over the whole vector=%s)" % (why, whole))


def RIO_local_uses(f, local):
    import rules_io
    return rules_io.local_uses(f, local)


def c03b(chk):
    prog = chk.prog
    f = chk.fn(SP + "project")
    if f is None:
        return
    its = IT.iterations(prog, f)
    unit = [f] + prog.closures_of(f.path)
    fs = an.calls(f, PROJ + "Projection::from_shapes")
    fz = an.calls(f, SCS + "from_zeros")
    pu = [(g, b, t) for g in unit for b, t in an.calls(g, PROJ + "Projection::project_unchecked")]
    iw = [(g, b, t) for g in unit for b, t in an.calls(g, PROJ + "Projected::<'a>::into_weighted")]
    au = [(g, b, t) for g in unit for b, t in an.calls(g, PROJ + "Projected::<'a>::add_unchecked")]
    it = None
    if len(pu) == 1:
        inside = [x for x in its if x.body is pu[0][0] and pu[0][1] in x.blocks]
        it = min(inside, key=lambda x: len(x.blocks)) if inside else None
    if not (len(fs) == len(fz) == len(pu) == len(iw) == len(au) == 1) or it is None or not (pu[0][0] is iw[0][0] is au[0][0]):
        chk.fail("C03.b", "Spectrum::project/shape", f.loc(), "expected one each of from_shapes, from_zeros, project_unchecked, into_weighted, add_unchecked, inside one iteration over the cells")
        return
    g = it.body
    chk.fns_analysed.add(g.path)
    pub, put = pu[0][1], pu[0][2]
    iwb, iwt = iw[0][1], iw[0][2]
    aub, aut = au[0][1], au[0][2]
    it_bb = it.bb if it.parent is f else None
    tb = an.try_branch_of(f, fs[0][0])
    chk.ob("C03.b", "project/validation-first", tb is not None and it_bb is not None and all(an.dominated_by_edge(f, tb[1], tb[2], b) for b in (fz[0][0], it_bb)), f.loc(fs[0][0]),
           "Projection::from_shapes(..)? succeeds before the result is allocated and before any cell is projected")
    # from_shapes(self.shape, target): roles
    s0, i0 = f.slice_locals(fs[0][1]["args"][0])
    s1, i1 = f.slice_locals(fs[0][1]["args"][1])
    from_self = any(callee_is(x[1]["callee"], SP + "shape") for x in i0["calls"])
    to_param = 2 in s1 or any(callee_is(x[1]["callee"], "core::convert::Into::into") for x in i1["calls"])
    chk.ob("C03.b", "project/from_shapes(self.shape, target)", from_self and to_param and not any(callee_is(x[1]["callee"], SP + "shape") for x in i1["calls"]), f.loc(fs[0][0]),
           "source shape is self's, target shape is the argument (not swapped)")
    # result allocated with the target shape, zero
    sz, iz = f.slice_locals(fz[0][1]["args"][0])
    chk.ob("C03.b", "project/result=from_zeros(target)", not any(callee_is(x[1]["callee"], SP + "shape") for x in iz["calls"]), f.loc(fz[0][0]), "the accumulator has the target shape and starts at zero")
    # iteration: zip(self.array.iter(), self.array.iter_indices().map(Count)), nothing else
    ch = it.chain()
    names = IT.chain_names(ch)
    zs = [x for x in ch if x[0] == "zip"]
    pair_ok = False
    if len(zs) == 1 and len(zs[0][2]) == 1:
        side = zs[0][2][0]
        def arr(pl):
            return pl is not None and an.self_field(pl) == "array"
        pair_ok = names == ["zip", "iter"] and sorted(IT.chain_names(side)) == ["iter_indices", "map"] and arr(ch[-1][1]) and arr(side[-1][1])
    chk.ob("C03.b", "project/walks-every-(value,index)-pair-in-order", pair_ok, it.loc(),
           "the cells are walked as self.array.iter() zipped with self.array.iter_indices() (both row-major over the same array), no skip/filter/rev (%s; adaptors %s)" % (it.describe(), names))
    # body unconditional
    loops = [x for x in its if x.kind == "loop" and x.parent is f]
    allowed = {tb[1] if tb else None} | {x.switch_bb for x in loops}
    extra = [f.loc(b) for b in only_structural_switches(f, allowed) if not _is_dropflag_switch(f, b)]
    if g is not f:
        extra += [g.loc(b) for b, t in g.switches() if not _is_dropflag_switch(g, b)]
    chk.ob("C03.b", "project/every-cell-projected(no-conditional-skip)", not extra and it.runs_for_every_element(), it.loc(),
           "no branch in the per-cell body and no early exit: every source cell, whatever its value, is projected (extra branches at %s)" % (extra or "none"))
    # per-iteration chain and operand roles
    chain_ok = g.dominates(pub, iwb) and g.dominates(iwb, aub)
    idx_role = it.elem_path(put["args"][1]) == (1,)
    w_role = it.elem_path(iwt["args"][1]) == (0,)
    recv_ok = op_local(iwt["args"][0]) is not None and g.copy_root(op_local(iwt["args"][0])) == an.call_dest_local(put) and \
        op_local(aut["args"][0]) is not None and g.copy_root(op_local(aut["args"][0])) == an.call_dest_local(iwt)
    tgt = it.outer_place(aut["args"][1])
    acc_ok = tgt is not None and tgt[0] == an.call_dest_local(fz[0][1]) and not [e for e in tgt[1] if e[0] != "deref"]
    chk.ob("C03.b", "project/per-cell: project_unchecked(index).into_weighted(value).add_unchecked(result)", chain_ok and idx_role and w_role and recv_ok and acc_ok, g.loc(pub),
           "chain in order=%s, index is the zipped index=%s, weight is the zipped value=%s, each step consumes the previous result=%s, accumulates into the zero result=%s" % (chain_ok, idx_role, w_role, recv_ok, acc_ok))
    # return value is the accumulator
    isu = an.calls(f, SP + "into_state_unchecked")
    after = False
    if len(isu) == 1 and it_bb is not None:
        after = an.dominated_by_edge(f, it.switch_bb, it.none_t, isu[0][0]) if it.kind == "loop" else (f.dominates(it_bb, isu[0][0]) and it_bb != isu[0][0])
    ok = len(isu) == 1 and op_local(isu[0][1]["args"][0]) is not None and f.copy_root(op_local(isu[0][1]["args"][0])) == an.call_dest_local(fz[0][1]) and after
    chk.ob("C03.b", "project/returns-accumulator-after-loop", ok, f.loc(), "Ok(result) is built from the accumulator once every cell has been visited")
    # nothing else writes the accumulator: every `&mut result` goes to add_unchecked (directly, or through the per-cell closure that calls it)
    acc = an.call_dest_local(fz[0][1])
    other = []
    for b_, i_, p_, rv_, s_ in f.assigns():
        if rv_["k"] == "ref" and rv_.get("mut") and P(rv_["place"])[0] == acc:
            refl = p_[0]
            for ub, kind, det in RIO_local_uses(f, refl):
                if kind == "call" and (det == callee_name(aut["callee"]) or "add_unchecked" in det):
                    continue
                if kind == "stmt" and det in ("aggregate", "ref", "use"):
                    # captured by the per-cell closure / reborrowed: followed one step
                    continue
                other.append("%s %s at %s" % (kind, det, f.loc(ub)))
    for b_, t_ in f.calls():
        for a_ in t_["args"]:
            pl_ = op_place(a_)
            if pl_ and pl_[0] != acc:
                d_ = f.single_def(pl_[0])
                if d_ and d_[0] == "assign" and d_[3]["k"] == "ref" and d_[3].get("mut") and P(d_[3]["place"])[0] == acc and not callee_is(t_["callee"], PROJ + "Projected::<'a>::add_unchecked"):
                    nm_ = callee_name(t_["callee"])
                    if not any(nm_ in o for o in other):
                        other.append("call %s at %s" % (nm_, f.loc(b_)))
    chk.ob("C03.b", "project/result-written-only-by-add_unchecked", not other, f.loc(),
           "between from_zeros and the return the accumulator is mutated only by Projected::add_unchecked (a later rescaling, clamping or rounding of the "
           "result changes every projected value; other mutable uses: %s)" % (other or "none"))
    pj = chk.fn(PROJ + "Projection::project_unchecked")
    if pj is not None:
        chk.ob("C03.b", "Projection::project_unchecked/forwards-(project_from, from)", len(an.calls(pj, PROJ + "PartialProjection::project_unchecked")) == 1, pj.loc(), "checked in detail by C02.b", nontrivial=False)


def _is_dropflag_switch(f, b):
    """switches on compiler-generated drop flags (bool locals only ever assigned constants)"""
    t = f.term(b)
    l = op_local(t["discr"])
    if l is None:
        return False
    defs = f.defs.get(l, [])
    return bool(defs) and all(d[0] == "assign" and d[3]["k"] == "use" and isinstance(const_val(d[3]["op"]), bool) for d in defs)


def c03c(chk):
    prog = chk.prog
    f = chk.fn(PROJ + "Projected::<'a>::add_unchecked")
    if f is not None:
        upd = an.each_element_update(prog, f)
        ok = False
        why = "for_each not recognised"
        if upd is not None and upd["kind"] == "for_each":
            ad = [a for a in upd["adaptors"]]
            whole = sorted(ad) == ["inner_mut", "iter_mut", "zip"]
            cl = upd["closure"]
            st = None
            if cl is not None:
                chk.fns_analysed.add(cl.path)
                # closure param 2 = (to: &mut f64, projected: f64); store (*to) = (*to) + projected * weight
                def reads_cell(op, cell):
                    p_ = op_place(op)
                    if p_ == cell:
                        return True
                    l_ = op_local(op)
                    d_ = cl.single_def(cl.copy_root(l_)) if l_ is not None else None
                    return bool(d_ and d_[0] == "assign" and d_[3]["k"] == "use" and op_place(d_[3]["op"]) == cell)
                for b2, i2, p2, rv2, s2 in cl.assigns():
                    if p2[1] == (("deref",),) and rv2["k"] == "binop" and rv2["op"] == "Add":
                        for cell_op, mul_op in ((rv2["l"], rv2["r"]), (rv2["r"], rv2["l"])):
                            if not reads_cell(cell_op, p2):
                                continue
                            ml = op_local(mul_op)
                            md = cl.single_def(cl.copy_root(ml)) if ml is not None else None
                            if not (md and md[0] == "assign" and md[3]["k"] == "binop" and md[3]["op"] == "Mul"):
                                continue
                            sl_a, ia = cl.slice_locals(md[3]["l"], through_calls=False)
                            sl_b, ib = cl.slice_locals(md[3]["r"], through_calls=False)
                            caps = an.closure_captures(f, cl.path) or []
                            cap_w = any(c is not None and an.owned_self_field(c) == "weight" for c in caps)
                            uses = (2 in sl_a and 1 in sl_b) or (1 in sl_a and 2 in sl_b)
                            st = uses and cap_w
            ok = whole and bool(st) and upd["unconditional"]
            why = "every cell of the target (zip of to.iter_mut() with the projection iterator)=%s, cell = cell + projected * self.weight=%s, unconditional=%s" % (whole, bool(st), upd["unconditional"])
        chk.ob("C03.c", "Projected::add_unchecked/cell+=projected*weight", ok, f.loc(), why)
    g = chk.fn(PROJ + "Projected::<'a>::into_weighted")
    if g is not None:
        w = [(an.owned_self_field(g.canon(p)), rv) for b, i, p, rv, s in g.assigns() if an.owned_self_field(g.canon(p))]
        ok = len(w) == 1 and w[0][0] == "weight" and w[0][1]["k"] == "use" and op_local(w[0][1]["op"]) is not None and g.copy_root(op_local(w[0][1]["op"])) == 2 and not list(g.calls())
        chk.ob("C03.c", "Projected::into_weighted/sets-weight-only", ok, g.loc(), "into_weighted(w) stores w in self.weight and changes nothing else")
    v = chk.fn("sfs::view::View::run")
    if v is not None:
        pc = an.calls(v, SP + "project")
        chk.ob("C03.c", "view/--project->Spectrum::project", len(pc) == 1, v.loc(), "the CLI projects through Spectrum::project (order and options: C13)", nontrivial=False)


# ====================================================================================
# C04
# ====================================================================================
MARG = SP + "marginalize"
MARG_U = SP + "marginalize_unchecked"
MARG_ERR = "sfs_core::spectrum::MarginalizationError"


def check_C04(chk):
    chk.explanation = (
        "NARROW claim.  Decided: (a) the three rejections (duplicate, out-of-range, too many axes) dominate both calls of marginalize_unchecked, "
        "with the duplicate test looking at every later position and the range/too-many tests using `>=` against dimensions(); (b) unsorted axis "
        "lists are sorted (a sorted copy) before use, sortedness is tested on every adjacent pair; (c) marginalize_unchecked removes the axes "
        "in the given ascending order, renumbering each as original - (number already removed), one marginalize_axis per axis; (d) Array::sum "
        "folds every view of the axis into a zero array whose shape is the remaining axes in their original order, adding element-wise; "
        "(e) the CLI hands --marginalize-remove through untouched and converts --marginalize-keep to the complement (C13.d).")
    chk.not_decided = "that the strided views select the right elements and that the sums are the array sums for all shapes (index arithmetic over values)"
    c04a(chk)
    c04c(chk)
    c04d(chk)
    c04e(chk)
    # shared clauses: `sfs view --marginalize-*` runs the marginalize step whenever its option is given and writes its result (C13.a/b/d on
    # View::run); the axis views that Array::sum adds up are iterated completely, once (C19.b-d)
    import rules_view as RV4_
    import rules_panic as RP4_
    chk.borrow_check(RV4_.check_C13, {"C13.a", "C13.b", "C13.d"}, "C04.f", 5, keys=lambda k: "marginalize" in k or "keep" in k or "complement" in k)
    chk.borrow_check(RP4_.check_C19, {"C19.b", "C19.c", "C19.d"}, "C04.g", 8)
    for r, n in (("C04.a", 6), ("C04.c", 4), ("C04.d", 5), ("C04.e", 3)):
        chk.floor(r, n)


def _ascending_routes(chk, prog, f, uses):
    """How each use (block, operand) of the axis list in f is known to be ascending: the list parameter (local 2) on an edge where an
    adjacent-pair test established it, or a copy on which sort() was called.  A value merged from both (`if sorted { Cow::Borrowed(axes) }
    else { Cow::Owned(sorted copy) }`, or a plain `let list = if .. {..} else {..}`) is judged per definition, at the definition.
    Returns (routes, tests seen, slice operations outside the reviewed list)"""
    def window_pos(cl, op):
        l = op_local(op)
        tgt = cl.resolve_ptr(l) if l is not None else None
        if tgt is None or tgt[0] != 2:
            return None
        for e in tgt[1]:
            if e[0] == "index":
                c = an.const_of(cl, {"k": "copy", "place": {"l": e[1], "p": []}})
                return c.get("val") if c else None
            if e[0] == "constindex":
                return e[1]
        return None

    def pair_test(cl):
        """('le'|'lt'|'gt'|'ge') of the comparison window[0] OP window[1] the closure returns, else None"""
        cmps = [(callee_name(t["callee"]).split("::")[-1], t) for b_, t in cl.calls() if callee_name(t["callee"]).startswith("core::cmp::PartialOrd::")]
        if len(cmps) != 1 or list(cl.switches()) or an.call_dest_local(cmps[0][1]) != 0:
            return None
        op, t = cmps[0]
        i0, i1 = window_pos(cl, t["args"][0]), window_pos(cl, t["args"][1])
        if (i0, i1) == (0, 1):
            return op
        if (i0, i1) == (1, 0):
            return {"le": "ge", "lt": "gt", "ge": "le", "gt": "lt"}.get(op)
        return None

    sorted_edges = []  # (switch block, target) edges on which the caller's list is known to be ascending
    tests = []
    for it in IT.iterations(prog, f, include_nested=False):
        if it.kind != "closure" or it.consumer not in ("all", "any"):
            continue
        ch = it.chain()
        wt = IT.chain_get(ch, "windows")
        if IT.chain_names(ch) != ["windows"] or wt is None or const_val(wt["args"][1]) != 2 or ch[-1][1] is None or ch[-1][1][0] != 2:
            continue
        op = pair_test(it.body)
        chk.fns_analysed.add(it.body.path)
        for sb, s_ in an.switches_on_call_result(f, it.bb):
            stt = f.term(sb)
            t_true, t_false = stt["otherwise"], an.edge_target(stt, 0)
            if it.consumer == "all" and op in ("le", "lt"):
                sorted_edges.append((sb, t_true))
                tests.append("windows(2).all(w[0] %s w[1])" % op)
            if it.consumer == "any" and op in ("gt", "ge"):
                sorted_edges.append((sb, t_false))
                tests.append("!windows(2).any(w[0] %s w[1])" % op)
    for b_, t in f.calls():
        if callee_is(t["callee"], "core::slice::<impl [T]>::is_sorted"):
            for sb, s_ in an.switches_on_call_result(f, b_):
                sorted_edges.append((sb, f.term(sb)["otherwise"]))
                tests.append("is_sorted()")
    srt = [(b, t) for b, t in f.calls() if callee_is(t["callee"], "alloc::slice::<impl [T]>::sort", "core::slice::<impl [T]>::sort_unstable", "alloc::slice::<impl [T]>::sort_unstable")]
    tv = [(b, t) for b, t in f.calls() if callee_is(t["callee"], "alloc::slice::<impl [T]>::to_vec", "alloc::borrow::ToOwned::to_owned")]

    def merged_defs(op):
        """the definitions of the multiply-defined local the operand is a view of (through borrows, copies and Deref / as_ref calls), if any"""
        l = op_local(op) if not isinstance(op, int) else op
        for _ in range(10):
            if l is None:
                return None
            ds = f.defs.get(l, [])
            if len(ds) > 1 and all(x[0] == "assign" for x in ds):
                return ds
            tg = f.resolve_ptr(l)
            if tg is not None and tg[0] != l:
                l = tg[0]
                continue
            d_ = f.single_def(l)
            if d_ and d_[0] == "assign" and d_[3]["k"] == "use":
                l = op_local(d_[3]["op"])
                continue
            if d_ and d_[0] == "call" and d_[2]["args"] and callee_name(d_[2]["callee"]).split("::")[-1] in ("deref", "as_ref", "borrow", "as_slice"):
                l = op_local(d_[2]["args"][0])
                continue
            return None
        return None

    def route(deps_op, at):
        sl, info = f.slice_locals(deps_op)
        copies = [x for x in tv if an.call_dest_local(x[1]) in sl]
        if copies:
            # a sort of that same copy dominates the use
            cdst = an.call_dest_local(copies[0][1])
            sorted_first = [sb_ for sb_, st_ in srt if all(f.dominates(sb_, a_) for a_ in at) and cdst in f.slice_locals(st_["args"][0])[0]]
            return "sorted-copy" if sorted_first else "UNSORTED-COPY"
        if 2 in sl:
            guarded = any(all(an.dominated_by_edge(f, sb, tgt, a_) for a_ in at) for sb, tgt in sorted_edges)
            return "as-given-under-sortedness-test" if guarded else "AS-GIVEN-WITHOUT-TEST"
        return "UNKNOWN-ARGUMENT"

    routes = []
    for mb, mop in uses:
        md = merged_defs(mop)
        if md:
            for x in md:
                rv = x[3]
                ops_ = rv.get("ops") if rv["k"] == "aggregate" else ([rv["op"]] if rv["k"] == "use" else None)
                if not ops_ or len(ops_) != 1:
                    routes.append("UNKNOWN-ARGUMENT")
                else:
                    routes.append(route(ops_[0], [x[1]]))
        else:
            routes.append(route(mop, [mb]))
    # nothing else rearranges the list: the slice/vector methods used are the reviewed ones
    slice_calls = sorted({callee_name(t["callee"]).split("::")[-1] for b, t in f.calls() if callee_name(t["callee"]).startswith(("core::slice::", "alloc::slice::", "alloc::vec::Vec::"))})
    extra_calls = [c for c in slice_calls if c not in ("iter", "into_iter", "len", "windows", "to_vec", "sort", "sort_unstable", "is_sorted", "is_empty", "as_slice", "deref", "get", "contains", "split_first", "split_last", "first", "last", "split_at")]
    return routes, tests, extra_calls


def _renumbering_source(prog, g):
    """(block, source operand-or-local) of the iteration in marginalize_unchecked that walks the axes (the one around the marginalize_axis call)"""
    its = IT.iterations(prog, g)
    unit = [g] + prog.closures_of(g.path)
    ms = [(h, b, t) for h in unit for b, t in an.calls(h, SP + "marginalize_axis")]
    if len(ms) != 1:
        return None
    h, mb, mt = ms[0]
    inside = [it for it in its if it.body is h and mb in it.blocks]
    itM = min(inside, key=lambda it: len(it.blocks)) if inside else None
    if itM is None or itM.parent is not g:
        return None
    src = itM.chain()[-1][1]
    if src is None:
        return None
    return itM.bb, src[0]


def c04a(chk):
    prog = chk.prog
    f = chk.fn(MARG)
    if f is None:
        return
    mu = an.calls(f, MARG_U)
    if not mu:
        chk.fail("C04.a", "marginalize/unchecked-calls", f.loc(), "no call of marginalize_unchecked found")
        return
    errs = {}
    for b, i, p, rv, s in f.assigns():
        if rv["k"] == "aggregate" and rv.get("adt") == MARG_ERR:
            errs[rv["variant"]] = b
    chk.ob("C04.a", "marginalize/three-rejections", sorted(errs) == ["AxisOutOfBounds", "DuplicateAxis", "TooManyAxes"], f.loc(), "rejections constructed: %s" % sorted(errs))
    # each rejection's guard edge (the edge NOT leading to the error) dominates both unchecked calls
    for name, eb in sorted(errs.items()):
        ok = False
        guard = None
        for sb, st in f.switches():
            for tgt in set(f.succ.get(sb, [])):
                if an.dominated_by_edge(f, sb, tgt, eb):
                    others = [x for x in f.succ.get(sb, []) if x != tgt and f.term(x)["k"] != "unreachable"]
                    if len(others) == 1 and all(an.dominated_by_edge(f, sb, others[0], mb) for mb, _ in mu):
                        ok = True
                        guard = sb
        chk.ob("C04.a", "marginalize/%s-guards-both-unchecked-calls" % name, ok, f.loc(eb), "marginalize_unchecked is only reached on the edge where the %s test passed" % name)
    # the tests themselves
    cls = {c.path: c for c in prog.closures_of(MARG)}
    # duplicate: find_map over enumerate; closure: axes.get(i + 1..) ... contains(axis)
    dup_ok = False
    oob_ok = False
    sorted_ok = False
    for c in cls.values():
        chk.fns_analysed.add(c.path)
        names = [callee_name(t["callee"]).split("::")[-1] for b, t in c.calls()]
        sub = [callee_name(t["callee"]).split("::")[-1] for c2 in prog.fn_list if c2.path.startswith(c.path + "::{closure") for b, t in c2.calls()]
        if "get" in names and ("and_then" in names or "contains" in names or "contains" in sub):
            # axes.get(i + 1..) then contains(axis) on that tail: through and_then(|tail| ..), or `let tail = axes.get(i + 1..)?;`
            rf = [rv for _, _, _, rv, _ in c.assigns() if rv["k"] == "aggregate" and rv.get("adt") == "core::ops::range::RangeFrom"]
            plus1 = [rv for _, _, _, rv, _ in c.assigns() if rv["k"] == "binop" and rv["op"].startswith("Add") and const_val(rv["r"]) == 1]
            dup_ok = len(rf) == 1 and len(plus1) == 1 and (names + sub).count("contains") == 1
        ge = [rv for _, _, _, rv, _ in c.assigns() if rv["k"] == "binop" and rv["op"] == "Ge"]
        if ge and any(callee_is(t["callee"], SP + "dimensions") for b, t in c.calls()):
            oob_ok = len(ge) == 1
        if [rv for _, _, _, rv, _ in c.assigns()] is not None and any(callee_is(t["callee"], "core::cmp::PartialOrd::le") for b, t in c.calls()):
            idx = sorted(e[1] for b, t in c.calls() for a in t["args"] for e in ((c.resolve_ptr(op_local(a)) or (0, ()))[1] if op_local(a) is not None else ()) if e[0] == "constindex")
            sorted_ok = True
    fm = [(b, t) for b, t in f.calls() if callee_is(t["callee"], "core::iter::traits::iterator::Iterator::find_map")]
    dup_iter = False
    if len(fm) == 1:
        ad, info = adaptors_of(f, fm[0][1]["args"][0], fm[0][0])
        dup_iter = sorted(ad) == ["enumerate", "iter"]
    unit_m = [f] + list(cls.values())
    dup_how = "find_map over enumerate: axes[i+1..].contains(axes[i])"
    if not (dup_ok and dup_iter):
        # the same search written as `while let Some((first, rest)) = remaining.split_first() { if rest.contains(first) {..}; remaining = rest }`
        sf = an.calls(f, "core::slice::<impl [T]>::split_first")
        cont = [(b, t) for b, t in f.calls() if callee_is(t["callee"], "core::slice::<impl [T]>::contains")]
        if len(sf) == 1 and len(cont) == 1:
            sd = an.call_dest_local(sf[0][1])

            def payload_part(op):
                l = op_local(op)
                pl = (f.resolve_ptr(l) if l is not None else None) or (op_place(op) if op is not None else None)
                for _ in range(6):
                    if pl is None:
                        return None
                    if pl[0] == sd:
                        fl = [e[1] for e in pl[1] if e[0] == "field"]
                        return fl[-1] if fl else None
                    d_ = f.single_def(pl[0])
                    if d_ and d_[0] == "assign" and d_[3]["k"] in ("use", "ref"):
                        nxt = op_place(d_[3]["op"]) if d_[3]["k"] == "use" else P(d_[3]["place"])
                        if nxt is None:
                            return None
                        pl = (nxt[0], nxt[1] + tuple(e for e in pl[1] if e[0] == "field"))
                    else:
                        return None
                return None
            hay, needle = payload_part(cont[0][1]["args"][0]), payload_part(cont[0][1]["args"][1])
            # the slice that is split: starts as the parameter, continues with the tail
            rl = op_local(sf[0][1]["args"][0])
            rt = f.resolve_ptr(rl) if rl is not None else None
            rest_local = rt[0] if rt is not None else (f.copy_root(rl) if rl is not None else None)
            ds_ = f.defs.get(rest_local, []) if rest_local is not None else []
            def is_param_axes(op):
                l = op_local(op)
                for _ in range(6):
                    if l is None:
                        return False
                    if l == 2:
                        return True
                    tg = f.resolve_ptr(l)
                    if tg is not None:
                        if tg[0] == 2:
                            return True
                        l = tg[0] if all(e == ("deref",) for e in tg[1]) else None
                        continue
                    l2 = f.copy_root(l)
                    if l2 == l:
                        return False
                    l = l2
                return False
            from_param = any(x[0] == "assign" and x[3]["k"] == "use" and is_param_axes(x[3]["op"]) for x in ds_)
            from_tail = any(x[0] == "assign" and x[3]["k"] == "use" and payload_part(x[3]["op"]) == 1 for x in ds_)
            dup_ok = hay == 1 and needle == 0
            dup_iter = from_param and from_tail and len(ds_) == 2
            dup_how = "split_first loop: rest.contains(first), continued with the rest"
    chk.ob("C04.a", "marginalize/duplicate-test=any-later-position", dup_ok and dup_iter, f.loc(), "every axis is searched for in the part of the list after it (%s: test shape=%s, over all positions=%s)" % (dup_how, dup_ok, dup_iter))
    if not oob_ok:
        # the same test outside a closure (`for axis in axes { if axis.0 >= dimensions {..} }`, dimensions() hoisted or not)
        n_cmp = 0
        for g_ in unit_m:
            for _, _, _, rv, _ in g_.assigns():
                if rv["k"] != "binop" or rv["op"] not in ("Ge", "Le", "Lt", "Gt"):
                    continue
                def side(op):
                    l = op_local(op)
                    if l is None:
                        return None
                    r = an.origin_local(g_, l)
                    d_ = g_.single_def(r)
                    if d_ and d_[0] == "call" and callee_is(d_[2]["callee"], SP + "dimensions"):
                        return "dims"
                    if g_ is not f:
                        # a value computed outside and captured by the closure
                        for it_ in IT.iterations(prog, f):
                            if it_.body is g_:
                                o_ = it_.outer_root(op)
                                if o_ is not None:
                                    dd_ = it_.parent.single_def(an.origin_local(it_.parent, o_))
                                    if dd_ and dd_[0] == "call" and callee_is(dd_[2]["callee"], SP + "dimensions"):
                                        return "dims"
                    sl_, info_ = g_.slice_locals(op, through_calls=False)
                    if ("sfs_core::array::shape::Axis", "0") in info_["fields"]:
                        return "axis"
                    return None
                ls, rs = side(rv["l"]), side(rv["r"])
                if {ls, rs} == {"axis", "dims"}:
                    n_cmp += 1
                    form = (rv["op"], ls)
                    oob_ok = form in (("Ge", "axis"), ("Le", "dims"))
        oob_ok = oob_ok and n_cmp == 1
    chk.ob("C04.a", "marginalize/out-of-range-test=axis>=dimensions", oob_ok, f.loc(), "an axis is out of range iff axis.0 >= self.dimensions()")
    too = False
    for sb, st in f.switches():
        s = an.switch_subject(f, sb)
        if s["kind"] == "value" and s["root"] is not None:
            d = f.single_def(s["root"])
            if d and d[0] == "assign" and d[3]["k"] == "binop" and d[3]["op"] == "Ge":
                ds = [f.single_def(f.copy_root(op_local(d[3][x]))) for x in ("l", "r") if op_local(d[3][x]) is not None]
                if len(ds) == 2 and ds[0] and ds[1] and ds[0][0] == "call" and ds[1][0] == "call" and callee_name(ds[0][2]["callee"]).endswith("::len") and callee_is(ds[1][2]["callee"], SP + "dimensions"):
                    too = "TooManyAxes" in errs and an.dominated_by_edge(f, sb, st["otherwise"], errs["TooManyAxes"])
    chk.ob("C04.a", "marginalize/too-many-test=len>=dimensions", too, f.loc(), "removing every axis (axes.len() >= dimensions()) is an error")
    # sortedness.  Every marginalize_unchecked call receives either a copy on which sort() was called, or the caller's list on an
    # edge where an adjacent-pair test established ascending order - or the list is handed over as given and marginalize_unchecked
    # itself establishes the order of what its renumbering loop walks.
    routes, tests, extra_calls = _ascending_routes(chk, prog, f, [(mb, mt["args"][1]) for mb, mt in mu])
    if routes and all(r == "AS-GIVEN-WITHOUT-TEST" for r in routes):
        g = chk.fn(MARG_U)
        rs_ = _renumbering_source(prog, g) if g is not None else None
        if rs_ is not None and rs_[1] != 2:
            r2, t2, e2 = _ascending_routes(chk, prog, g, [rs_])
            routes, tests, extra_calls = ["in-marginalize_unchecked:" + r for r in r2], t2, extra_calls + e2
    good = ("sorted-copy", "as-given-under-sortedness-test", "in-marginalize_unchecked:sorted-copy", "in-marginalize_unchecked:as-given-under-sortedness-test")
    route_ok = bool(routes) and all(r in good for r in routes) and any(r.endswith("sorted-copy") for r in routes)
    route_ok = route_ok and not extra_calls
    chk.ob("C04.a", "marginalize/sorted-or-sorted-copy", route_ok, f.loc(),
           "every marginalize_unchecked call gets an ascending list: the caller's list only under an adjacent-pair sortedness test (%s), otherwise a copy that was sorted (ascending sort, nothing applied afterwards; other slice operations: %s); routes: %s" % (tests or "none found", extra_calls, routes))


def c04c(chk):
    prog = chk.prog
    f = chk.fn(MARG_U)
    if f is None:
        return
    its = IT.iterations(prog, f)
    unit = [f] + prog.closures_of(f.path)
    ms = [(g, b, t) for g in unit for b, t in an.calls(g, SP + "marginalize_axis")]
    order_ok = renum_ok = once_ok = False
    why_o = why_r = why_m = "marginalize_axis call / iteration over the axes not recognised"
    where = f.loc()
    if len(ms) == 1:
        g, mb, mt = ms[0]
        chk.fns_analysed.add(g.path)
        inside = [it for it in its if it.body is g and mb in it.blocks]
        itM = min(inside, key=lambda it: len(it.blocks)) if inside else None
        if itM is not None:
            where = itM.loc()
            a = mt["args"][1]
            itA = None
            agg = None
            ch = itM.chain()
            if itM.elem_path(a) == () and IT.chain_get(ch, "map") is not None:
                mterm = IT.chain_get(ch, "map")
                for it in its:
                    if it.kind == "closure" and it.consumer == "map" and it.term is mterm:
                        itA = it
                        r0 = it.body.defs.get(0, [])
                        agg = r0[0] if len(r0) == 1 else None
            else:
                l = op_local(a)
                agg = g.single_def(g.copy_root(l)) if l is not None else None
                itA = itM
            if itA is not None and agg and agg[0] == "assign" and agg[3]["k"] == "aggregate" and agg[3].get("adt") == "sfs_core::array::shape::Axis":
                chk.fns_analysed.add(itA.body.path)
                bo = an.binop_def(itA.body, agg[3]["ops"][0])
                binops = [rv for _, _, _, rv, _ in itA.assigns() if rv["k"] == "binop" and not rv["op"] in ("Lt", "Le", "Gt", "Ge", "Eq", "Ne")]
                if bo is not None and bo["op"].startswith("Sub"):
                    lp, rp = itA.elem_path(bo["l"]), itA.elem_path(bo["r"])
                    renum_ok = lp == (1, 0) and rp == (0,) and len(binops) == 1
                    why_r = "Axis(%s - %s) with element parts (original.0 = %s, enumerate index = %s), %d arithmetic operation(s) in the body" % ("l", "r", lp, rp, len(binops))
                # the enumerate chain over the caller's list, nothing re-ordering
                names = [n for n in IT.chain_names(itA.chain())]
                src = itA.chain()[-1][1]
                over_param = src is not None and src[0] == 2
                how_src = "parameter `axes`"
                if src is not None and not over_param and itA.parent is f:
                    # the list walked is one this function put in order itself (sorted copy / parameter under a sortedness test): C04.a judges it
                    r2, t2, e2 = _ascending_routes(chk, prog, f, [(itA.bb, src[0])])
                    over_param = bool(r2) and all(r in ("sorted-copy", "as-given-under-sortedness-test") for r in r2) and not e2
                    how_src = "a list ordered here (%s)" % r2
                order_ok = sorted(names) == ["enumerate", "iter"] and over_param
                if itA is not itM:
                    order_ok = order_ok and sorted(IT.chain_names(itM.chain())) == ["enumerate", "iter", "map"]
                why_o = "adaptors %s over %s=%s" % (IT.chain_names(itM.chain()), how_src, over_param)
            # spectrum = spectrum.marginalize_axis(axis), for every element, unconditionally
            recv = itM.outer_place(mt["args"][0])
            dest = an.call_dest_local(mt)
            stores = [itM.outer_place(p_) for b_, i_, p_, rv, s_ in itM.assigns() if rv["k"] == "use" and op_local(rv["op"]) is not None and g.copy_root(op_local(rv["op"])) == dest and (p_[1] or itM.kind == "loop")]
            stores = [x for x in stores if x is not None]
            cl = an.calls(f, "core::clone::Clone::clone")
            spec = an.call_dest_local(cl[0][1]) if len(cl) == 1 else None
            r0 = f.defs.get(0, [])
            ret = len(r0) == 1 and r0[0][0] == "assign" and r0[0][3]["k"] == "use" and op_local(r0[0][3]["op"]) is not None and f.copy_root(op_local(r0[0][3]["op"])) == spec
            def is_spec(pl):
                return pl is not None and pl[0] == spec and not [e for e in pl[1] if e[0] != "deref"]
            uncond = itM.runs_for_every_element() and not itM.switches() and (itA is None or itA is itM or not itA.switches())
            # the walk is on every path to the return (a branch before it may prepare the list, not bypass the walk)
            rets = [b_ for b_ in f.nodes() if f.term(b_)["k"] == "return"]
            hdr = itM.bb if itM.parent is f else None
            bypass = hdr is None or any(b_ in f.reachable_from(0, avoid={hdr}) for b_ in rets)
            once_ok = spec is not None and is_spec(recv) and any(is_spec(x) for x in stores) and ret and uncond and not bypass
            why_bypass = bypass
            if itM.kind == "closure" and itM.consumer == "fold" and not once_ok:
                # the running copy is the fold's accumulator: fold(self.clone(), |spectrum, ..| spectrum.marginalize_axis(..)), the fold's value returned
                recv_acc = itM.acc_path(mt["args"][0]) == ()
                back = an.call_dest_local(mt) == 0
                init = itM.term["args"][1] if len(itM.term["args"]) > 1 else None
                il = op_local(init) if init is not None else None
                init_clone = il is not None and spec is not None and f.copy_root(il) == spec
                fold_ret = len(r0) == 1 and r0[0][0] == "call" and r0[0][2] is itM.term
                once_ok = recv_acc and back and init_clone and fold_ret and uncond and not bypass
                why_m = "fold form: receiver is the accumulator=%s, its result is the next accumulator=%s, the fold starts from self.clone()=%s, the fold's value is returned=%s, " % (recv_acc, back, init_clone, fold_ret)
            else:
                why_m = ""
            why_m += "receiver is the running copy=%s, result stored back=%s, the copy is returned=%s, unconditional for every axis=%s, the walk can be bypassed=%s" % (is_spec(recv), any(is_spec(x) for x in stores), ret, uncond, why_bypass)
    chk.ob("C04.c", "marginalize_unchecked/axes-in-given-order", order_ok, where, "the axes are walked as given, no re-sorting or reversal (%s)" % why_o)
    chk.ob("C04.c", "marginalize_unchecked/renumber=original-removed", renum_ok, where, "the k-th axis removed is Axis(original.0 - k) with k the enumerate index (%s)" % why_r)
    chk.ob("C04.c", "marginalize_unchecked/one-marginalize_axis-per-axis", once_ok, where, "spectrum = spectrum.marginalize_axis(axis) for every axis, unconditionally (%s)" % why_m)
    g = chk.fn(SP + "marginalize_axis")
    if g is not None:
        sm = an.calls(g, A + "Array::<f64>::sum")
        ok = len(sm) == 1 and op_local(sm[0][1]["args"][1]) is not None and g.copy_root(op_local(sm[0][1]["args"][1])) == 2 and (an.arg_pointee(g, sm[0][1], 0) or (0, ()))[1][-1:] == (("field", 0, "array", "sfs_core::spectrum::Spectrum"),)
        chk.ob("C04.c", "marginalize_axis=array.sum(axis)", ok, g.loc(), "one axis is removed by summing self.array along it")


def _last_field(pl):
    """name of the last struct field on the path of a place rooted in self (by reference or by value)"""
    fl = [e[2] for e in pl[1] if e[0] == "field"]
    return fl[-1] if fl and pl[0] == 1 else None


def _into_shape_sequence(g):
    """How RemovedAxis::into_shape puts the returned vector together, as a list of pieces of the inner sizes: ("to", k) = inner[..r+k],
    ("from", k) = inner[r+k..], ("whole",) - with r = *self.removed.  Understood: X.to_vec() / X.iter().copied().collect() of a piece,
    v.extend_from_slice(piece) / v.extend(piece.iter().copied()), a whole copy followed by v.remove(r).  None when something else happens."""
    def removed_plus(op):
        """k if the operand is *self.removed + k"""
        l = op_local(op)
        if l is None:
            return None
        k = 0
        for _ in range(6):
            r = g.copy_root(l)
            d = g.single_def(r)
            if d and d[0] == "assign" and d[3]["k"] == "use":
                pl = op_place(d[3]["op"])
                if pl is not None and len(pl[1]) == 1 and pl[1][0][0] == "field" and pl[1][0][1] == 0:
                    d2 = g.single_def(pl[0])
                    if d2 and d2[0] == "assign" and d2[3]["k"] == "binop" and d2[3]["op"].startswith("Add"):
                        cl, cr = const_val(d2[3]["l"]), const_val(d2[3]["r"])
                        if isinstance(cl, int) and not isinstance(cl, bool):
                            k += cl
                            l = op_local(d2[3]["r"])
                            continue
                        if isinstance(cr, int) and not isinstance(cr, bool):
                            k += cr
                            l = op_local(d2[3]["l"])
                            continue
                    return None
                if pl is not None and pl[1] == (("deref",),):
                    dd = g.single_def(g.copy_root(pl[0]))
                    if dd and dd[0] == "call" and callee_name(dd[2]["callee"]).endswith("Deref>::deref") or (dd and dd[0] == "call" and callee_name(dd[2]["callee"]).split("::")[-1] == "deref"):
                        tg = an.arg_pointee(g, dd[2], 0)
                        if tg is not None and _last_field(tg) == "removed":
                            return k
                    return None
            if d and d[0] == "call" and callee_name(d[2]["callee"]).split("::")[-1] == "deref":
                tg = an.arg_pointee(g, d[2], 0)
                return k if (tg is not None and _last_field(tg) == "removed") else None
            return None
        return None

    def is_inner(op):
        sl, info = g.slice_locals(op)
        return ("sfs_core::array::shape::removed_axis::RemovedAxis", "inner") in info["fields"] and not [x for x in info["calls"] if callee_name(x[1]["callee"]).split("::")[-1] not in ("as_ref", "deref", "index", "borrow", "as_slice")]

    def piece(op, depth=0):
        """the piece of inner the slice operand denotes"""
        l = op_local(op)
        if l is None or depth > 8:
            return None
        r = g.copy_root(l)
        tg = g.resolve_ptr(r)
        if tg is not None and tg[0] != r and all(e == ("deref",) for e in tg[1]):
            return piece({"k": "copy", "place": {"l": tg[0], "p": []}}, depth + 1)
        d = g.single_def(r)
        if d and d[0] == "call":
            nm = callee_name(d[2]["callee"]).split("::")[-1]
            if nm == "index" and len(d[2]["args"]) == 2:
                rl = op_local(d[2]["args"][1])
                rd = g.single_def(g.copy_root(rl)) if rl is not None else None
                if rd and rd[0] == "assign" and rd[3]["k"] == "aggregate" and is_inner(d[2]["args"][0]):
                    adt = rd[3].get("adt") or ""
                    if adt.endswith("RangeTo") and len(rd[3]["ops"]) == 1:
                        k = removed_plus(rd[3]["ops"][0])
                        return ("to", k) if k is not None else None
                    if adt.endswith("RangeFrom") and len(rd[3]["ops"]) == 1:
                        k = removed_plus(rd[3]["ops"][0])
                        return ("from", k) if k is not None else None
                    if adt.endswith("RangeFull"):
                        return ("whole",)
                return None
            if nm in ("as_ref", "deref", "as_slice", "borrow") and is_inner(d[2]["args"][0]):
                return ("whole",)
        if d and d[0] == "assign" and d[3]["k"] == "use":
            pl = op_place(d[3]["op"])
            # a component of the (before, after) tuple of an inlined helper
            if pl is not None and len(pl[1]) == 1 and pl[1][0][0] == "field":
                td = g.single_def(g.copy_root(pl[0]))
                if td and td[0] == "assign" and td[3]["k"] == "aggregate" and td[3].get("akind") == "tuple":
                    return piece(td[3]["ops"][pl[1][0][1]], depth + 1)
        return None
    # the vector returned inside Shape(..)
    vec = None
    for b, i, p_, rv, s_ in g.assigns():
        if p_[0] == 0 and rv["k"] == "aggregate" and (rv.get("adt") or "").endswith("shape::Shape") and len(rv["ops"]) == 1:
            l = op_local(rv["ops"][0])
            vec = g.copy_root(l) if l is not None else None
    if vec is None:
        return None
    d = g.single_def(vec)
    seq = None
    if d and d[0] == "call":
        nm = callee_name(d[2]["callee"]).split("::")[-1]
        if nm in ("to_vec", "to_owned", "clone", "from"):
            p0 = piece(d[2]["args"][0])
            if p0 is None and nm == "clone" and is_inner(d[2]["args"][0]):
                p0 = ("whole",)
            seq = [p0] if p0 is not None else None
    if seq is None:
        return None
    # in-place edits of that vector, in control-flow order (the function is straight-line)
    edits = []
    for b, t in g.calls():
        if not t["args"]:
            continue
        tg = g.resolve_ptr(op_local(t["args"][0])) if op_local(t["args"][0]) is not None else None
        if not (tg is not None and tg[0] == vec and all(e == ("deref",) for e in tg[1])) or not g.local_ty(op_local(t["args"][0])).startswith("&mut"):
            continue
        edits.append((b, t))
    edits.sort(key=lambda x: sum(1 for y in edits if g.dominates(y[0], x[0])))
    for b, t in edits:
        nm = callee_name(t["callee"]).split("::")[-1]
        if nm == "extend_from_slice" and len(t["args"]) == 2:
            p1 = piece(t["args"][1])
            if p1 is None:
                return None
            seq.append(p1)
        elif nm == "remove" and len(t["args"]) == 2 and seq == [("whole",)] and removed_plus(t["args"][1]) == 0:
            seq = [("to", 0), ("from", 1)]
        else:
            return None
    if list(g.switches()):
        return None
    return seq


def c04d(chk):
    prog = chk.prog
    f = chk.fn(A + "Array::<f64>::sum")
    if f is None:
        return
    ra = an.calls(f, A + "shape::Shape::remove_axis")
    ish = an.calls(f, A + "shape::removed_axis::RemovedAxis::<'a, sfs_core::array::shape::Shape>::into_shape")
    fz = an.calls(f, A + "Array::<f64>::from_zeros")
    its = IT.iterations(prog, f)
    outer = [it for it in its if it.parent is f and IT.chain_names(it.chain()) == ["iter_axis"]]
    ok = all(len(x) == 1 for x in (ra, ish, fz, outer))
    same_axis = init_ok = recv_ok = every = ret_ok = False
    o = outer[0] if len(outer) == 1 else None
    acc_local = None
    if ok:
        ia = IT.chain_get(o.chain(), "iter_axis")
        same_axis = all(op_local(t["args"][1]) is not None and f.copy_root(op_local(t["args"][1])) == 2 for t in (ra[0][1], ia))
        recv_ok = o.chain()[-1][1] == (1, (("deref",),))
        zeros = an.call_dest_local(fz[0][1])
        shaped = op_local(fz[0][1]["args"][0]) is not None and f.copy_root(op_local(fz[0][1]["args"][0])) == an.call_dest_local(ish[0][1])
        r0 = [d for d in f.defs.get(0, [])]
        if o.kind == "closure":
            init = o.term["args"][1] if o.consumer == "fold" else None
            init_ok = shaped and init is not None and op_local(init) is not None and f.copy_root(op_local(init)) == zeros
            ret_ok = an.call_dest_local(o.term) == 0 or (len(r0) == 1 and r0[0][0] == "assign" and r0[0][3]["k"] == "use" and op_local(r0[0][3]["op"]) is not None and f.copy_root(op_local(r0[0][3]["op"])) == an.call_dest_local(o.term))
            ret_ok = ret_ok and any(p_[0] == 0 and rv["k"] == "use" and o.acc_path(rv["op"]) == () for b_, i_, p_, rv, s_ in o.body.assigns())
            acc_local = ("acc",)
        else:
            init_ok = shaped and f.dominates(fz[0][0], o.bb)
            ret_ok = len(r0) == 1 and r0[0][0] == "assign" and r0[0][3]["k"] == "use" and op_local(r0[0][3]["op"]) is not None and f.copy_root(op_local(r0[0][3]["op"])) == zeros
            acc_local = zeros
        every = o.runs_for_every_element() and not [sw for sw in f.switches() if sw[0] != o.switch_bb and sw[0] not in o.blocks]
    chk.ob("C04.d", "Array::sum/fold(iter_axis(axis), zeros(remaining shape))", ok and same_axis and init_ok and recv_ok and every and ret_ok, f.loc(),
           "every view of the summed axis (%s) is accumulated into a zero array shaped like the remaining axes, which is then returned (same axis=%s, init=%s, receiver=%s, every view=%s, returned=%s)"
           % (o.describe() if o else "iteration over iter_axis not found", same_axis, init_ok, recv_ok, every, ret_ok))
    # ... on every path: the sum has one result (a shortcut that returns the array unchanged when the axis has one entry keeps the axis, and
    # every caller relies on the result having one axis fewer)
    nres = len(f.defs.get(0, []))
    chk.ob("C04.d", "Array::sum/one-result", nres == 1, f.loc(), "the function's result is defined once, by the accumulation (definitions of the return value: %d)" % nres)
    ok = False
    inner = None
    why = "element-wise update not found"
    if o is not None:
        for it in its:
            if it is o:
                continue
            # the inner iteration lives in the outer body
            if not ((o.kind == "closure" and it.parent is o.body) or (o.kind == "loop" and it.parent is f and it.bb in o.blocks)):
                continue
            ch = it.chain()
            if IT.chain_names(ch) != ["zip", "iter_mut"]:
                continue
            inner = it
            chk.fns_analysed.add(it.body.path)
            src = ch[-1][1]
            zside = [x for x in ch if x[0] == "zip"][0][2]
            if o.kind == "closure":
                acc_src = src is not None and o.acc_path(src) == ()
            else:
                acc_src = src is not None and src == (acc_local, ())
            view_src = len(zside) == 1 and IT.chain_names(zside[0]) == ["iter"] and zside[0][-1][1] is not None and o.elem_path(zside[0][-1][1]) == ()
            add_ok = False
            for b2, i2, p2, rv2, s2 in it.assigns():
                if p2[1] and p2[1][-1] == ("deref",) and rv2["k"] == "binop" and rv2["op"] == "Add" and it.elem_path(p2) == (0,) and \
                        {it.elem_path(rv2["l"]), it.elem_path(rv2["r"])} == {(0,), (1,)}:
                    add_ok = True
            aa = it.calls(N.ADD_ASSIGN)
            if len(aa) == 1:
                add_ok = it.elem_path(aa[0][1]["args"][0]) == (0,) and it.elem_path(aa[0][1]["args"][1]) == (1,)
            uncond = it.runs_for_every_element() and not it.switches()
            ok = acc_src and view_src and add_ok and uncond
            why = "%s: accumulator.iter_mut()=%s zipped with view.iter()=%s, acc element += view element=%s, unconditional=%s" % (it.describe(), acc_src, view_src, add_ok, uncond)
    chk.ob("C04.d", "Array::sum::closure/element-wise-add-of-the-whole-view", ok, inner.loc() if inner else f.loc(), "acc[k] += view[k] for every k (%s)" % why)
    g = chk.fn(A + "shape::removed_axis::RemovedAxis::<'a, sfs_core::array::shape::Shape>::into_shape")
    if g is not None:
        names = [callee_name(t["callee"]).split("::")[-1] for b, t in g.calls()]
        ok_is = names == ["iter", "copied", "collect"] or names == ["iter", "cloned", "collect"]
        how_is = "self.iter().copied().collect() (the order is RemovedAxis::iter's)"
        if not ok_is:
            r_ = _into_shape_sequence(g)
            ok_is = r_ == [("to", 0), ("from", 1)]
            how_is = "the vector is built as %s of the inner sizes (r = the removed axis)" % (
                " ++ ".join({("to", 0): "[..r]", ("from", 1): "[r+1..]", ("whole",): "[..]"}.get(x, str(x)) for x in r_) if r_ else "an unrecognised sequence")
        chk.ob("C04.d", "RemovedAxis::into_shape=iter().copied().collect()", ok_is, g.loc(), "the remaining axes keep their order: %s (calls %s)" % (how_is, names))
    h = chk.fn(A + "shape::removed_axis::RemovedAxis::<'a, T>::iter")
    if h is not None:
        idx = [(t["callee"].get("args") or ["", ""])[1] for b, t in h.calls() if callee_is(t["callee"], N.INDEX)]
        ch = an.calls(h, "core::iter::traits::iterator::Iterator::chain")
        kinds = sorted(("RangeTo" if "RangeTo<" in x else "RangeFrom" if "RangeFrom<" in x else x) for x in idx)
        plus = [rv for _, _, _, rv, _ in h.assigns() if rv["k"] == "binop" and rv["op"].startswith("Add") and 1 in (const_val(rv["l"]), const_val(rv["r"]))]
        # (only iter / chain may touch the two pieces: a rev() would hand the leading axes out backwards)
        others = sorted({callee_name(t["callee"]).split("::")[-1] for b, t in h.calls()} - {"iter", "chain", "index", "as_ref", "deref", "into_iter"})
        ok = kinds == ["RangeFrom", "RangeTo"] and len(ch) == 1 and len(plus) == 1 and not others
        # chain order: [..removed] first
        if ok:
            a0, i0 = adaptors_of(h, ch[0][1]["args"][0])
            ok = any("RangeTo<" in " ".join(x[1]["callee"].get("args", [])) for x in i0["calls"])
        chk.ob("C04.d", "RemovedAxis::iter=inner[..r].chain(inner[r+1..])", ok, h.loc(), "the removed axis is skipped and everything else keeps its order")
    it = chk.fn("<sfs_core::array::iter::AxisIter<'a, T> as core::iter::traits::iterator::Iterator>::next")
    if it is not None:
        ga = an.calls(it, A + "Array::<T>::get_axis")
        ok = len(ga) == 1
        if ok:
            s1, i1 = it.slice_locals(ga[0][1]["args"][1], through_calls=False)
            s2, i2 = it.slice_locals(ga[0][1]["args"][2], through_calls=False)
            ok = ("sfs_core::array::iter::AxisIter", "axis") in i1["fields"] and ("sfs_core::array::iter::AxisIter", "index") in i2["fields"]
        chk.ob("C04.d", "AxisIter::next=get_axis(self.axis, self.index)", ok, it.loc(), "the k-th view is position k of the iterated axis (totality / length: C19)")
    fzf = chk.fn(A + "Array::<f64>::from_zeros")
    if fzf is not None:
        fe = an.calls(fzf, A + "Array::<T>::from_element")
        v = const_val(fe[0][1]["args"][0]) if len(fe) == 1 else None
        chk.ob("C04.d", "Array::from_zeros=from_element(0.0)", isinstance(v, dict) and v.get("f") == "0.0", fzf.loc(), "the accumulator starts at 0.0")


def c04e(chk):
    f = chk.fn("sfs::view::View::run")
    if f is None:
        return
    m = an.calls(f, SP + "marginalize")
    ok = False
    why = "marginalize call not found"
    if len(m) == 1:
        tb = an.try_branch_of(f, m[0][0])
        # the axes argument: collect::<Vec<Axis>>(into_iter(list).map(Axis))
        # (including calls that modify the vector in place through a separate `&mut` borrow: axes.sort_unstable(); axes.dedup();)
        sl, info = f.slice_locals(m[0][1]["args"][1], mut_calls=True)
        names = sorted({(x[1]["callee"].get("path") or "").split("::")[-1] for x in info["calls"]})
        bad = [n for n in names if n in ("sort", "sort_unstable", "sort_by", "sort_by_key", "sort_unstable_by", "sort_unstable_by_key", "dedup", "dedup_by", "dedup_by_key", "rev", "reverse", "retain", "retain_mut", "truncate", "skip", "take", "drain", "pop", "remove", "swap_remove", "clear", "split_off")]
        axis_map = any(a["k"] == "const" and a.get("fn") == "sfs_core::array::shape::Axis" for x in info["calls"] for a in x[1]["args"])
        # the list reaches marginalize element for element: every container on the way is a Vec or a slice (a set or map in between
        # silently drops duplicates and re-orders, hiding what the library must reject)
        odd = sorted({f.local_ty(l)[:80] for l in sl if any(k in f.local_ty(l) for k in ("BTreeSet", "HashSet", "BTreeMap", "HashMap", "IndexSet", "IndexMap", "VecDeque", "BinaryHeap", "LinkedList"))})
        odd += sorted({a_[:80] for x in info["calls"] for a_ in x[1]["callee"].get("args", []) if any(k in a_ for k in ("BTreeSet", "HashSet", "BTreeMap", "HashMap", "IndexSet", "IndexMap", "VecDeque", "BinaryHeap", "LinkedList"))})
        ok = tb is not None and not bad and axis_map and not odd
        why = "`?`-propagated=%s, axes mapped with Axis(..)=%s, list-modifying calls=%s, non-list containers on the way=%s" % (tb is not None, axis_map, bad, odd)
    chk.ob("C04.e", "view/marginalize(&axes)?", ok, f.loc(), why)
    # remove arm: the list is moved through untouched
    ok = False
    mutated = []
    for b, i, p, rv, s in f.assigns():
        if rv["k"] == "use":
            chain = RG.pure_move_chain(f, rv["op"])
            if chain and any(any(e[0] == "field" and e[2] == "remove" for e in pl[1]) for pl in chain):
                # this value reaches into_iter directly
                for b2, t2 in f.calls():
                    if callee_is(t2["callee"], N.INTO_ITER) and op_local(t2["args"][0]) is not None:
                        c2 = RG.pure_move_chain(f, t2["args"][0])
                        if c2 and any(pl == P(s["place"]) or pl[0] == P(s["place"])[0] for pl in c2):
                            ok = True
                            # ... and is not modified in place on the way (sort + dedup in a helper that takes and returns the vector)
                            for pl in list(c2) + list(chain) + [P(s["place"])]:
                                if pl[1]:
                                    continue
                                for b3, i3, p3, rv3, s3 in f.assigns():
                                    if rv3["k"] == "ref" and rv3.get("mut") and P(rv3["place"])[0] == pl[0]:
                                        for ub, kind, det in RIO_local_uses(f, p3[0]):
                                            if kind == "call" and not det.endswith("into_iter"):
                                                mutated.append("%s at %s" % (det.split("::")[-1], f.loc(ub)))
    chk.ob("C04.e", "view/--marginalize-remove-passed-through", ok and not mutated, f.loc(),
           "the remove list reaches marginalize as given: duplicates and out-of-range axes are left for the library to reject (in-place modifications on the way: %s)" % (sorted(set(mutated)) or "none"))
    import rules_view
    kc = rules_view.keep_complement(chk, f)
    chk.ob("C04.e", "view/--marginalize-keep->complement", kc["complement"] and kc["range"] and kc["unconditional"], kc["where"],
           "keep is converted to the complement over 0..dimensions() whenever it is given (details: C13.d; %s)" % kc["why_uncond"], nontrivial=False)


# ====================================================================================
# C05
# ====================================================================================
def check_C05(chk):
    chk.explanation = (
        "NARROW claim.  Decided: (a) the CLI fill table (nan/zero/minus-one/inf -> NaN/0.0/-1.0/+inf) and Fold::run = fold().into_spectrum(fill); "
        "(b) into_spectrum replaces exactly the None cells by the fill value, over every cell; (c) from_spectrum is straight-line: T = sum over axes "
        "of (length - 1), mid = T / 2, has_diagonal = (T % 2 == 0), one pass over every flat index i paired with its mirror n-1-i; (d) the per-cell "
        "decision table on (cmp(index-sum(i), mid), has_diagonal): Less or (Equal, no diagonal) -> Some(src[i] + src[mirror]); (Equal, diagonal) -> "
        "Some(0.5 src[i] + 0.5 src[mirror]); Greater -> None; every path stores exactly once, at i.")
    chk.not_decided = "that index-sum and mirror arithmetic are right for all shapes, mass preservation, idempotence, polarity symmetry (values)"
    c05a(chk)
    c05c(chk)
    c05d(chk)
    index_sum_visits_every_axis(chk, "C05.d")
    # shared clauses: the fill value reaches the reader of the output as it is (the text writer prints the stored value: C07.c) and an output
    # file holds nothing but this output (C07.g), else folding the folded file differs from folding once
    import rules_io as RIO_
    chk.borrow(lambda: (RIO_.c07c(chk), RIO_.c07g(chk)), "C05.e", 5)
    for r, n in (("C05.a", 6), ("C05.c", 5), ("C05.d", 5)):
        chk.floor(r, n)


def c05a(chk):
    scs_from_array_is_a_wrapper(chk, "C05.a")
    _c05a(chk)


def _c05a(chk):
    prog = chk.prog
    f = chk.fn("sfs::fold::<impl core::convert::From<sfs::fold::Fill> for f64>::from")
    if f is not None:
        table, sb = an.enum_match_table(f, lambda s: s.get("adt") == "sfs::fold::Fill")
        got = {}
        if table:
            for v, tgt in table.items():
                for b in sorted({tgt} | an.arm_region(f, sb, tgt)):
                    for s in f.stmts(b):
                        if s["k"] == "assign" and P(s["place"])[0] == 0 and s["rv"]["k"] == "use":
                            cv = const_val(s["rv"]["op"])
                            if isinstance(cv, dict):
                                got[v] = cv.get("f")
        want = {"Nan": "NaN", "Zero": "0.0", "MinusOne": "-1.0", "Inf": "inf"}
        for v in sorted(set(want) | set(got)):
            chk.ob("C05.a", "Fill::%s->%s" % (v, want.get(v)), got.get(v) == want.get(v), f.loc(), "fill option %s must become %s (found %s)" % (v, want.get(v), got.get(v)))
    g = chk.fn("sfs::fold::Fold::run")
    if g is not None:
        fo = an.calls(g, SP + "fold")
        isp = an.calls(g, FOLDED + "into_spectrum")
        ok = len(fo) == 1 and len(isp) == 1
        if ok:
            sl, info = g.slice_locals(isp[0][1]["args"][1])
            ok = ("sfs::fold::Fold", "fill") in info["fields"] and not info["binops"]
            recv = an.arg_pointee(g, isp[0][1], 0)
            ok = ok and recv is not None and recv[0] == an.call_dest_local(fo[0][1])
        chk.ob("C05.a", "Fold::run=fold().into_spectrum(fill)", ok, g.loc(), "the folded spectrum is filled with the requested value and written")
        # must pass through: nothing is written that was not folded by this run (an `already folded` pass-through decides from the values
        # whether to fold, and folding is then no longer the same map for every input)
        wr = [(b, t) for b, t in g.calls() if callee_name(t["callee"]).split("::")[-1] in ("write_to_path_or_stdout", "write_to_path", "write_to_stdout")]
        und = [g.loc(b) for b, t in wr if not (len(fo) == 1 and len(isp) == 1 and g.dominates(fo[0][0], b) and g.dominates(isp[0][0], b))]
        chk.ob("C05.a", "Fold::run/every-write-is-dominated-by-fold-and-fill", bool(wr) and not und, g.loc(),
               "each of the %d write call(s) is dominated by the fold() and the into_spectrum() call (not dominated: %s)" % (len(wr), und or "none"))
    h = chk.fn(FOLDED + "into_spectrum")
    if h is not None:
        mp = an.calls(h, N.MAP)
        ok = False
        if len(mp) == 1:
            ad, info = adaptors_of(h, mp[0][1]["args"][0], mp[0][0])
            cl = closure_of_arg(prog, h, mp[0][1], 1)
            uo = cl is not None and [callee_name(t["callee"]) for b, t in cl.calls()] == ["core::option::Option::<T>::unwrap_or"]
            caps = an.closure_captures(h, cl.path) if cl is not None else None
            cap_fill = bool(caps) and any(c is not None and c[0] == 2 for c in caps)
            nu = an.calls(h, A + "Array::<T>::new_unchecked")
            ok = ad == ["iter"] and uo and cap_fill and len(nu) == 1 and not list(h.switches())
        chk.ob("C05.a", "into_spectrum/None->fill-for-every-cell", ok, h.loc(), "data = array.iter().map(|x| x.unwrap_or(fill)): cells that were folded keep their value, all None cells get the fill")


def _pass_iteration(chk, f):
    """the iteration of from_spectrum whose body looks up the total count of a cell"""
    its = IT.iterations(chk.prog, f)
    cands = [it for it in its if it.calls(A + "shape::Shape::index_sum_from_flat_unchecked")]
    return (min(cands, key=lambda it: len(it.blocks)) if cands else None), its


def _acc_plus_n_minus_1(acc):
    """the new value is acc + (n - 1) with n the element, in plain, saturating or wrapping arithmetic"""
    it = acc["it"]
    fn = it.body
    is_acc = acc["is_acc"]

    def resolve(x):
        """('binop'|'call', name, [operands])"""
        for _ in range(8):
            if isinstance(x, tuple):
                if x[0] == "rv":
                    rv = x[1]
                    if rv["k"] == "binop":
                        return ("binop", rv["op"], [rv["l"], rv["r"]])
                    if rv["k"] == "use":
                        x = rv["op"]
                        continue
                    return None
                if x[0] == "call":
                    return ("call", callee_name(x[1]["callee"]), x[1]["args"])
            bo = an.binop_def(fn, x)
            if bo is not None:
                return ("binop", bo["op"], [bo["l"], bo["r"]])
            l = op_local(x)
            d = fn.single_def(fn.copy_root(l)) if l is not None else None
            if d and d[0] == "call":
                return ("call", callee_name(d[2]["callee"]), d[2]["args"])
            return None
        return None

    def is_n_minus_1(op):
        r = resolve(op)
        if r is None:
            return False
        kind, nm, ops = r
        sub = (kind == "binop" and nm.startswith("Sub")) or (kind == "call" and nm in ("core::num::<impl usize>::saturating_sub", "core::num::<impl usize>::wrapping_sub"))
        return sub and it.elem_path(ops[0]) == () and const_val(ops[1]) == 1

    r = resolve(acc["result"])
    if r is None:
        return False
    kind, nm, ops = r
    add = (kind == "binop" and nm.startswith("Add")) or (kind == "call" and nm in ("core::num::<impl usize>::saturating_add",))
    return add and ((is_acc(ops[0]) and is_n_minus_1(ops[1])) or (is_acc(ops[1]) and is_n_minus_1(ops[0])))


def scs_from_array_is_a_wrapper(chk, rule):
    """`Scs::from(Array<f64>)` is how folded, read and summed arrays become spectra: it must hand the array on untouched (a clamp or
    rescale there silently changes fill values such as -1 and every value read from a file)"""
    f = chk.fn("<sfs_core::spectrum::Spectrum<sfs_core::spectrum::Counts> as core::convert::From<sfs_core::array::Array<f64>>>::from")
    if f is None:
        return
    calls = [callee_name(t["callee"]) for g_ in [f] + chk.prog.closures_of(f.path) for b, t in g_.calls()]
    agg = [rv for b, i, p, rv, s in f.assigns() if rv["k"] == "aggregate" and rv.get("adt") == "sfs_core::spectrum::Spectrum" and p[0] == 0]
    moved = len(agg) == 1 and op_local(agg[0]["ops"][0]) is not None and f.copy_root(op_local(agg[0]["ops"][0])) == 1
    writes = [pstr(p) for b, i, p, rv, s in f.assigns() if p[1] and p[0] in (1,) ]
    chk.ob(rule, "Scs::from(Array)/plain-wrapper", moved and not calls and not writes and not list(f.switches()), f.loc(),
           "the array argument is moved into the spectrum unchanged (calls: %s, stores into the argument: %s)" % (calls, writes))


def c05c(chk):
    prog = chk.prog
    f = chk.fn(FOLDED + "from_spectrum")
    if f is None:
        return
    ps, its = _pass_iteration(chk, f)
    aggs = [b for b, i, p, rv, s in f.assigns() if rv["k"] == "aggregate" and rv.get("adt") == "sfs_core::spectrum::folded::Folded"]
    chk.ob("C05.c", "from_spectrum/one-construction", len(aggs) == 1, f.loc(), "Folded is constructed once, after the pass")
    # no shortcut: every branch of from_spectrum belongs to one of its loops (exhaustion test or body); the pass dominates the construction
    loops = [it for it in its if it.kind == "loop" and it.parent is f]
    stray = [f.loc(b) for b, t in f.switches() if not any(b == it.switch_bb or b in it.blocks for it in loops)]
    dom = ps is not None and len(aggs) == 1 and (ps.parent is not f or f.dominates(ps.bb, aggs[0])) and ps.runs_for_every_element() and \
        all(it.parent is f or it.parent is ps.parent for it in [ps])
    if ps is not None and ps.parent is not f:
        dom = False
    chk.ob("C05.c", "from_spectrum/straight-line", not stray and dom, f.loc(), "no branch in from_spectrum outside its loops, the pass runs for every cell and precedes the construction: no shortcut or special case bypasses the fold pass (stray branches: %s)" % stray)
    ok = False
    why = "pass over zip(0..n, (0..n).rev()) not recognised"
    if ps is not None:
        ch = ps.chain()
        el = an.calls(f, SP + "elements")
        n_local = an.call_dest_local(el[0][1]) if len(el) == 1 else None

        def full_range(place):
            if place is None or place[1]:
                return False
            d = f.single_def(f.copy_root(place[0]))
            return bool(d and d[0] == "assign" and d[3]["k"] == "aggregate" and d[3].get("adt") == "core::ops::range::Range" and const_val(d[3]["ops"][0]) == 0
                        and op_local(d[3]["ops"][1]) is not None and f.copy_root(op_local(d[3]["ops"][1])) == n_local)
        zt = [x for x in ch if x[0] == "zip"]
        names = IT.chain_names(ch)
        if len(zt) == 1 and names == ["zip"] and len(zt[0][2]) == 1:
            side = zt[0][2][0]
            full = full_range(ch[-1][1]) and full_range(side[-1][1])
            rev_second = IT.chain_names(side) == ["rev"]
            ok = full and rev_second
            why = "%s: both ranges are 0..elements()=%s, only the second is reversed=%s" % (ps.describe(), full, rev_second)
        elif len(zt) == 1 and [n for n in names if n != "as_slice"] == ["enumerate", "zip", "iter"] and len(zt[0][2]) == 1:
            # the cells themselves, each paired with its mirror image: src.iter().zip(src.iter().rev()).enumerate() over the source slice
            side = zt[0][2][0]
            def is_src(place):
                if place is None:
                    return False
                if place[0] == 1 and [e[2] for e in place[1] if e[0] == "field"] == ["array"]:
                    return True
                l_ = place[0]
                for _ in range(4):
                    d_ = f.single_def(f.copy_root(l_))
                    if d_ and d_[0] == "call" and callee_is(d_[2]["callee"], A + "Array::<T>::as_slice"):
                        tg_ = an.arg_pointee(f, d_[2], 0)
                        return tg_ is not None and tg_[0] == 1 and [e[2] for e in tg_[1] if e[0] == "field"] == ["array"]
                    tg_ = f.resolve_ptr(f.copy_root(l_))
                    if tg_ is None or tg_[0] == l_:
                        return False
                    l_ = tg_[0]
                return False
            both = is_src(ch[-1][1]) and is_src(side[-1][1])
            rev_second = [n for n in IT.chain_names(side) if n != "as_slice"] == ["rev", "iter"]
            ok = both and rev_second
            chk.c05_value_pairs = ok
            why = "%s: the source slice zipped with itself reversed (both sides the spectrum's values=%s, only the second reversed=%s), enumerated" % (ps.describe(), both, rev_second)
    chk.ob("C05.c", "from_spectrum/pass-over-(i, n-1-i)-for-every-i", ok, f.loc(), why)
    # mid = T / 2 ; has_diagonal = T % 2 == 0
    T = mid = diag = None
    for b, i, p, rv, s in f.assigns():
        if rv["k"] == "binop" and rv["op"] == "Div" and const_val(rv["r"]) == 2 and op_local(rv["l"]) is not None:
            mid, T = p[0], f.copy_root(op_local(rv["l"]))
    for b, i, p, rv, s in f.assigns():
        if rv["k"] == "binop" and rv["op"] == "Eq" and const_val(rv["r"]) == 0:
            bo = an.binop_def(f, rv["l"])
            if bo is not None and bo["op"] == "Rem" and const_val(bo["r"]) == 2 and op_local(bo["l"]) is not None and f.copy_root(op_local(bo["l"])) == T:
                diag = p[0]
    chk.ob("C05.c", "from_spectrum/mid=T/2,has_diagonal=T%2==0", T is not None and mid is not None and diag is not None, f.loc(), "the fold line is at half the maximum total count; a diagonal exists iff that total is even")
    # T = sum (len - 1) over the whole shape, starting from 0
    ok = False
    why = "accumulation of T not recognised"
    acc = IT.accumulation(prog, f, its, T) if T is not None else None
    if acc is not None:
        it = acc["it"]
        chk.fns_analysed.add(it.body.path)
        ch = it.chain()
        init0 = const_val(acc["init"]) == 0
        shape_ok = IT.chain_get(ch, "shape") is not None and not [n for n in IT.chain_names(ch) if n not in ("shape", "iter")]
        form = _acc_plus_n_minus_1(acc)
        every = it.runs_for_every_element() and not it.switches()
        ok = init0 and shape_ok and form and every
        why = "%s: starts at 0=%s, over shape().iter()=%s, new value = acc + (n - 1)=%s, every axis=%s" % (it.describe(), init0, shape_ok, form, every)
    chk.ob("C05.c", "from_spectrum/T=sum(len-1)-over-all-axes", ok, f.loc(), "the maximum total count adds (length - 1) for every axis, starting from 0 (%s)" % why)
    chk.c05 = {"mid": mid, "diag": diag, "pass": ps}


def index_sum_visits_every_axis(chk, rule):
    """Shape::index_sum_from_flat_unchecked decomposes the flat position axis by axis: its iteration over the shape leaves no axis out (an axis
    of length one adds nothing to the sum, but stopping at it drops every later axis too)"""
    prog = chk.prog
    f = chk.fn(A + "shape::Shape::index_sum_from_flat_unchecked")
    if f is None:
        return
    unit = [f]
    i_ = 0
    while i_ < len(unit):
        unit += [c for c in prog.closures_of(unit[i_].path) if c not in unit]
        i_ += 1
    its = [it for h in unit for it in IT.iterations(prog, h)]
    # nothing on the way drops an axis: no skipping / truncating adaptor anywhere in the function, and a loop over the shape runs to the end
    DROPPING = ("take_while", "skip_while", "skip", "take", "filter", "filter_map", "step_by", "map_while", "scan", "find", "position", "any", "all", "nth", "last", "flat_map")
    dropping = sorted({callee_name(t["callee"]).split("::")[-1] for h in unit for b, t in h.calls()
                       if (t["callee"].get("path") or "").startswith("core::iter::traits::") and callee_name(t["callee"]).split("::")[-1] in DROPPING})
    early = []
    for it in its:
        src = it.chain()[-1][1]
        if it.kind == "loop" and src is not None and src[0] == 1 and it.early_exits():
            early.append(it.describe())
    ok = not dropping and not early
    why = "dropping adaptors: %s; loops over the shape left early: %s" % (dropping or "none", early or "none")
    chk.ob(rule, "index_sum_from_flat_unchecked/every-axis-visited", ok, f.loc(), why)


def c05d(chk):
    prog = chk.prog
    f = chk.fn(FOLDED + "from_spectrum")
    if f is None:
        return
    ctx = getattr(chk, "c05", None) or {}
    ps = ctx.get("pass")
    if ps is None:
        chk.fail("C05.d", "from_spectrum::pass/closure", f.loc(), "pass (closure or loop looking up index_sum_from_flat_unchecked) not found")
        return
    cl = ps.body
    chk.fns_analysed.add(cl.path)
    mid, diag = ctx.get("mid"), ctx.get("diag")

    def slice_kind(l):
        """'src' / 'dst' for a local holding spectrum.array.as_slice() / <new array>.as_mut_slice(), in the body or captured from outside"""
        for fn, root in ((cl, cl.copy_root(l)), (f, ps.outer_root((l, ())))):
            if root is None:
                continue
            d = fn.single_def(root)
            if d and d[0] == "call":
                if callee_is(d[2]["callee"], A + "Array::<T>::as_slice"):
                    return "src"
                if callee_is(d[2]["callee"], A + "Array::<T>::as_mut_slice"):
                    return "dst"
        return None

    def indexed(place):
        """(kind, element part) for a place `(*slice)[idx]`"""
        l, proj = place
        if len(proj) == 2 and proj[0] == ("deref",) and proj[1][0] == "index":
            k = slice_kind(l)
            ep = ps.elem_path({"k": "copy", "place": {"l": proj[1][1], "p": []}})
            return k, ep
        return None, None
    cmpc = ps.calls("core::cmp::Ord::cmp")
    isum = ps.calls(A + "shape::Shape::index_sum_from_flat_unchecked")
    if not (len(cmpc) == len(isum) == 1):
        chk.fail("C05.d", "from_spectrum::pass/shape", ps.loc(), "expected one Ord::cmp and one index_sum_from_flat_unchecked in the pass")
        return
    a0 = an.arg_pointee(cl, cmpc[0][1], 0)
    count_ok = a0 is not None and an.origin_local(cl, a0[0]) == an.call_dest_local(isum[0][1]) and ps.elem_path(isum[0][1]["args"][1]) == (0,)
    mid_arg = cmpc[0][1]["args"][1]
    mid_root = ps.outer_root(mid_arg)
    if mid_root is None:
        tgt_ = cl.resolve_ptr(op_local(mid_arg)) if op_local(mid_arg) is not None else None
        mid_root = an.origin_local(cl, tgt_[0]) if tgt_ is not None and not tgt_[1] else None
    mid_ok = mid is not None and mid_root is not None and an.origin_local(f if ps.kind == "loop" else ps.parent, mid_root) == mid
    chk.ob("C05.d", "pass/decision=cmp(index_sum(i), mid)", count_ok and mid_ok, ps.loc(), "the total allele count of cell i is compared with the mid count (count=%s, mid=%s)" % (count_ok, mid_ok))

    # ---- every path through the per-cell body, evaluated with what the path itself assigned ------------------------------------
    order_local = an.call_dest_local(cmpc[0][1])

    def is_diag(l):
        """does the local carry has_diagonal (through copies, an inlined helper's parameter, or a captured variable)?"""
        r = an.origin_local(cl, l)
        if ps.kind == "loop":
            return diag is not None and an.origin_local(f, r) == diag
        o = ps.outer_root((r, ())) if r is not None else None
        return diag is not None and o is not None and an.origin_local(ps.parent, o) == diag

    def norm(e):
        if e[0] in ("Add", "Mul"):
            return (e[0],) + tuple(sorted((norm(x) for x in e[1:]), key=repr))
        if e[0] in ("Some",):
            return (e[0],) + tuple(norm(x) for x in e[1:])
        return e
    SUM = norm(("Some", ("Add", ("src", "i"), ("src", "mirror"))))
    AVG = norm(("Some", ("Add", ("Mul", ("const", "0.5"), ("src", "i")), ("Mul", ("const", "0.5"), ("src", "mirror")))))

    def expr(op, env, depth=0):
        if depth > 16:
            return ("?",)
        c = an.const_of(cl, op)
        if c is not None and isinstance(c.get("val"), dict) and "f" in c["val"]:
            return ("const", c["val"]["f"])
        p = op_place(op)
        if p is None:
            return ("?",)
        l, proj = p
        if getattr(chk, "c05_value_pairs", False):
            # (index, (value, mirrored value)) elements: the parts (1, 0) / (1, 1) are src[i] / src[mirror]
            try:
                ep_ = ps.elem_path(op)
            except Exception:
                ep_ = None
            if ep_ in ((1, 0), (1, 1)):
                return ("src", "i" if ep_ == (1, 0) else "mirror")
        if proj:
            k, ep = indexed(p)
            if k == "src":
                return ("src", {(0,): "i", (1,): "mirror"}.get(ep, "?"))
            return ("?",)
        rv = env.get(l)
        if rv is None:
            d = cl.single_def(l)
            rv = d[3] if d and d[0] == "assign" else None
        if rv is None:
            return ("?",)
        if rv["k"] == "use":
            return expr(rv["op"], env, depth + 1)
        if rv["k"] == "binop" and rv["op"] in ("Add", "Mul", "Sub", "Div"):
            return (rv["op"], expr(rv["l"], env, depth + 1), expr(rv["r"], env, depth + 1))
        if rv["k"] == "aggregate" and rv.get("adt") == "core::option::Option":
            return (rv["variant"],) + tuple(expr(o, env, depth + 1) for o in rv["ops"])
        return ("?",)

    entry = ps.some_t if ps.kind == "loop" else 0
    results = []   # (order variant, diag bool or None, [(target part, value)], [other decisions])

    def latest(env, l, depth=0):
        """what the path last assigned to local l (following moves)"""
        rv = env.get(l)
        if rv is None:
            d = cl.single_def(l)
            rv = d[3] if d and d[0] == "assign" else None
        if rv is not None and rv["k"] == "use" and depth < 12:
            l2 = op_local(rv["op"])
            if l2 is not None:
                return latest(env, l2, depth + 1)
        return rv

    def walk(b, env, order, dg, stores_, others, depth):
        if depth > 400 or len(results) > 64:
            return
        if b not in ps.blocks or (ps.kind == "loop" and b == ps.bb):
            results.append((order, dg, stores_, others))
            return
        env = dict(env)
        stores_ = list(stores_)
        for st_ in cl.stmts(b):
            if st_["k"] != "assign":
                continue
            pl = P(st_["place"])
            if not pl[1]:
                env[pl[0]] = st_["rv"]
            else:
                k, ep = indexed(pl)
                if k == "dst":
                    val = norm(expr(st_["rv"]["op"], env)) if st_["rv"]["k"] == "use" else ("?",)
                    stores_.append((ep, val))
        t = cl.term(b)
        if t["k"] == "switch":
            sj = an.switch_subject(cl, b)
            if sj["kind"] == "discr" and sj["place"] is not None:
                root = sj["place"][0]
                fld = [e for e in sj["place"][1] if e[0] == "field"]
                if fld:
                    # discriminant of a tuple component `(_t.0)`: the component's source
                    agg = latest(env, root)
                    if agg is not None and agg["k"] == "aggregate" and agg.get("akind") == "tuple" and fld[0][1] < len(agg["ops"]) and op_local(agg["ops"][fld[0][1]]) is not None:
                        root = op_local(agg["ops"][fld[0][1]])
                src_l = an.origin_local(cl, root)
                if src_l == order_local or cl.copy_root(root) == order_local:
                    for val, nm in (sj["variants"] or {}).items():
                        walk(an.edge_target(t, val), env, nm, dg, stores_, others, depth + 1)
                    return
                rv = latest(env, root)
                if rv is not None and rv["k"] == "aggregate" and rv.get("variant") is not None and sj["variants"]:
                    # a value the path itself constructed (a private enum returned by an inlined helper): only its own arm is feasible
                    vals = [v for v, nm in sj["variants"].items() if nm == rv["variant"]]
                    if len(vals) == 1:
                        walk(an.edge_target(t, vals[0]), env, order, dg, stores_, others, depth + 1)
                        return
                for tgt in sorted(set(cl.succ.get(b, []))):
                    if cl.term(tgt)["k"] != "unreachable":
                        walk(tgt, env, order, dg, stores_, others + [cl.loc(b)], depth + 1)
                return
            # value switch
            pl = op_place(t["discr"])
            root = None
            if pl is not None:
                root = pl[0]
                if pl[1] and pl[1][0][0] == "field":
                    agg = latest(env, pl[0])
                    if agg is not None and agg["k"] == "aggregate" and agg.get("akind") == "tuple" and pl[1][0][1] < len(agg["ops"]):
                        root = op_local(agg["ops"][pl[1][0][1]])
            if root is not None and is_diag(root):
                walk(t["otherwise"], env, order, True, stores_, others, depth + 1)
                walk(an.edge_target(t, 0), env, order, False, stores_, others, depth + 1)
                return
            rv = latest(env, root) if root is not None else None
            if rv is not None and rv["k"] == "use" and rv["op"]["k"] == "const" and isinstance(rv["op"].get("val"), bool):
                walk(t["otherwise"] if rv["op"]["val"] else an.edge_target(t, 0), env, order, dg, stores_, others, depth + 1)
                return
            for tgt in sorted(set(cl.succ.get(b, []))):
                if cl.term(tgt)["k"] != "unreachable":
                    walk(tgt, env, order, dg, stores_, others + [cl.loc(b)], depth + 1)
            return
        if t["k"] == "call":
            d_ = an.call_dest_local(t)
            if d_ is not None:
                env[d_] = {"k": "call"}
        nxt = [x for x in cl.succ.get(b, [])]
        if not nxt:
            results.append((order, dg, stores_, others))
            return
        for tgt in nxt:
            walk(tgt, env, order, dg, stores_, others, depth + 1)
    walk(entry, {}, None, None, [], [], 0)
    all_stores = [x for r in results for x in r[2]]
    chk.ob("C05.d", "pass/stores-at-i", len(results) >= 3 and all(len(r[2]) == 1 and r[2][0][0] == (0,) for r in results), ps.loc(),
           "on every path through the per-cell body exactly one store, to dst[i] (paths: %d, store targets per path: %s)" % (len(results), [[x[0] for x in r[2]] for r in results]))
    want = {("Less", True): SUM, ("Less", False): SUM, ("Equal", False): SUM, ("Equal", True): AVG, ("Greater", True): ("None",), ("Greater", False): ("None",)}
    got = {}
    for order, dg, st_, oth in results:
        for dgv in ([dg] if dg is not None else [True, False]):
            key = (order, dgv)
            val = st_[0][1] if len(st_) == 1 else ("?",)
            if key in got and got[key] != val:
                got[key] = ("ambiguous", got[key], val)
            else:
                got[key] = val
    for k in sorted(want):
        chk.ob("C05.d", "pass/table(%s,diag=%s)" % k, got.get(k) == want[k], ps.loc(),
               "cell below the fold line -> src[i] + src[mirror]; on an existing diagonal -> 0.5 src[i] + 0.5 src[mirror]; above -> None (found %s)" % (got.get(k),))
    others = sorted({x for r in results for x in r[3]})
    chk.ob("C05.d", "pass/no-other-branch", not others and all(r[0] is not None for r in results), ps.loc(),
           "the only decisions in the per-cell body are the comparison with the mid count and the diagonal flag (no value-dependent shortcut such as skipping zero pairs): other decisions at %s" % others)


def _on_edge(f, sb, tgt, b):
    return an.dominated_by_edge(f, sb, tgt, b)


def _reach_only_via(f, sb, tgt, b):
    return False
