"""C17 / C19: panic-site inventory, contracts, definite-failure rule, iterator obligations."""
import re, json, os
from facts import P, pstr, op_place, op_local, op_const, const_val, ostr, rvstr, callee_is, callee_name, rv_operands
import an
import names as N


def _root_defs_const(f, local, depth=0):
    """all (root local, bb, const value) definitions reaching `local` through copy chains; value None for non-constant defs"""
    out = []
    if depth > 6:
        return [(local, None, None)]
    for d in f.defs.get(local, []):
        if d[0] == "assign":
            rv = d[3]
            if rv["k"] == "use":
                cv = const_val(rv["op"])
                if isinstance(cv, int) and not isinstance(cv, bool):
                    out.append((local, d[1], cv))
                    continue
                l2 = op_local(rv["op"])
                if l2 is not None and len(f.defs.get(local, [])) == 1:
                    out.extend(_root_defs_const(f, l2, depth + 1))
                    continue
            out.append((local, d[1], None))
        else:
            out.append((local, d[1], None))
    return out


def definite_failures(chk, f):
    """DESIGN 3.6 definite-failure rule, constant case: an overflow/bounds assert whose failing condition is implied
    by a constant assigned on a feasible path that reaches the assert without redefinition.  Returns messages."""
    msgs = []
    for b, t in f.asserts():
        m = t["msg"]
        if m["kind"] == "Overflow" and m["op"] in ("Sub",):
            c = const_val(m["r"])
            l = op_local(m["l"])
            if not isinstance(c, int) or l is None:
                continue
            for rl, db, k in _root_defs_const(f, l):
                if k is None or db is None:
                    continue
                if k < c:
                    # path from db to b avoiding the other definitions of the root local
                    others = {d[1] for d in f.defs.get(rl, [])} - {db}
                    if (b in f.reachable_from(db, avoid=others) and b != db) or db == b:
                        msgs.append("%s: `%s - %d` must overflow on the path through %s where the operand is the constant %d" % (f.loc(b), pstr((l, ())), c, f.loc(db), k))
        if m["kind"] == "BoundsCheck":
            il = op_local(m["index"])
            ln = op_local(m["len"])
            if il is None:
                continue
            # index defined as (x - c) where x may be a constant < c was reported above; here: constant index vs constant len
            ic = an.const_of(f, m["index"])
            lc = an.const_of(f, m["len"])
            if ic is not None and lc is not None and isinstance(ic.get("val"), int) and isinstance(lc.get("val"), int) and ic["val"] >= lc["val"]:
                msgs.append("%s: constant index %d out of bounds for constant length %d" % (f.loc(b), ic["val"], lc["val"]))
    return msgs
