#!/usr/bin/env python3
"""Intake of an independently written behaviour-preserving refactoring (sub-agent output):
  refac_intake.py <src_dir containing patch.diff notes.md> <name> [<demo.sh that must pass on the patched tree>]
Confirms in a fresh scratch worktree that it applies, builds and passes the pinned suite, then stores it under
selftest/equivalents/ALL/<name>.patch (+ .notes.md) and evaluates every claimed check against it: none may alarm."""
import os, sys, subprocess, shutil, tempfile, json
VERIF = os.path.dirname(os.path.dirname(os.path.abspath(__file__)))
sys.path.insert(0, os.path.join(VERIF, "engine"))
import mutest, eqall


def sh(cmd, cwd=None, env=None):
    r = subprocess.run(cmd, shell=True, cwd=cwd, env=env, stdout=subprocess.PIPE, stderr=subprocess.STDOUT, text=True)
    return r.returncode, r.stdout


def main():
    src, name = sys.argv[1], sys.argv[2]
    patch = os.path.join(src, "patch.diff")
    wt = tempfile.mkdtemp(prefix="sfsrefac.")
    os.rmdir(wt)
    env = dict(os.environ, CARGO_NET_OFFLINE="true")
    try:
        sh("git -C /repo worktree add -q --detach %s HEAD" % wt)
        shutil.copytree("/repo/target", os.path.join(wt, "target"), symlinks=True)
        rc, out = sh("git apply %s" % patch, cwd=wt)
        if rc != 0:
            print("%s: patch does not apply: %s" % (name, out[-300:]))
            return 2
        rct, outt = sh("cargo test --workspace --no-fail-fast --offline 2>&1 | grep -E '^test result|FAILED|failed|could not compile|^error'", cwd=wt, env=env)
        passed = sum(int(l.split("ok. ")[1].split(" passed")[0]) for l in outt.splitlines() if l.startswith("test result: ok."))
        ok = passed >= 90 and "FAILED" not in outt and "could not compile" not in outt
        if not ok:
            print("%s: REJECTED (tests: %d passed)\n%s" % (name, passed, outt[-500:]))
            return 1
        if len(sys.argv) > 3:
            # a demonstration that must PASS on this tree (the repaired twin of a seeded change: same refactoring, break removed)
            demo = sys.argv[3]
            sh("cargo build --offline 2>&1 | tail -1", cwd=wt, env=env)
            rcd, outd = sh("bash %s %s" % (demo, wt), cwd=os.path.dirname(demo), env=dict(env, SFS_ALLOW_STDIN="1"))
            if rcd != 0:
                print("%s: REJECTED (the demonstration still fails on the repaired tree: exit %d)\n%s" % (name, rcd, outd[-400:]))
                return 1
        tmp = tempfile.mkdtemp(prefix="sfsrefacchk.")
        scratch = os.path.join(tmp, "repo")
        shutil.copytree(wt, scratch, ignore=shutil.ignore_patterns("target", ".git", "_refac", "_seeded"))
        alarms = eqall.evaluate(scratch, tmp)
        shutil.rmtree(tmp, ignore_errors=True)
        os.makedirs(eqall.EQ, exist_ok=True)
        shutil.copy(patch, os.path.join(eqall.EQ, name + ".patch"))
        if os.path.exists(os.path.join(src, "notes.md")):
            shutil.copy(os.path.join(src, "notes.md"), os.path.join(eqall.EQ, name + ".notes.md"))
        print("%s: tests %d passed; %s %s" % (name, passed, "SILENT" if not alarms else "FALSE-ALARM", json.dumps(alarms)[:900] if alarms else ""))
        return 0 if not alarms else 1
    finally:
        sh("git -C /repo worktree remove --force %s" % wt)
        shutil.rmtree(wt, ignore_errors=True)


if __name__ == "__main__":
    sys.exit(main())
