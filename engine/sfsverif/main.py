"""entry point: python3 main.py <Cxx> [--tier quick|thorough]"""
import sys, os, argparse, importlib, traceback
sys.path.insert(0, os.path.dirname(os.path.abspath(__file__)))
from facts import get_facts, FactError
from core import Check

MODULES = {
    "C01": "rules_create", "C02": "rules_create", "C10": "rules_create", "C11": "rules_create",
    "C08": "rules_geno", "C09": "rules_geno", "C12": "rules_geno",
    "C06": "rules_stat", "C14": "rules_stat", "C13": "rules_view",
    "C07": "rules_io", "C15": "rules_io", "C16": "rules_io", "C18": "rules_io",
    "C17": "rules_panic", "C19": "rules_panic",
}


def main():
    ap = argparse.ArgumentParser()
    ap.add_argument("pid")
    ap.add_argument("--tier", default=os.environ.get("VERIF_TIER", "quick"))
    ap.add_argument("--repo", default=None)
    a = ap.parse_args()
    seed = int(os.environ.get("VERIF_SEED", "0") or 0)
    pid = a.pid
    if pid not in MODULES:
        print("unknown or unclaimed property", pid)
        return 2
    try:
        prog, info = get_facts(a.repo)
    except FactError as e:
        # fail closed: cannot analyse the current tree
        chk = Check(pid, None, a.tier, seed, {"key": None, "wall_s": 0})
        chk.explanation = "fact extraction failed; nothing analysed"
        chk.ob("FACTS", "EXTRACTION-FAILED", False, "", str(e)[-1500:], nontrivial=False)
        return chk.finish()
    chk = Check(pid, prog, a.tier, seed, info)
    mod = importlib.import_module(MODULES[pid])
    try:
        getattr(mod, "check_" + pid)(chk)
    except Exception:
        chk.ob("ENGINE", "RULE-CRASH", False, "", "rule engine raised (unrecognised MIR shape at an anchor - fail closed):\n" + traceback.format_exc()[-1800:], nontrivial=False)
    if a.tier == "thorough":
        try:
            import thorough
            thorough.run(chk)
        except ImportError:
            pass
    return chk.finish()


if __name__ == "__main__":
    sys.exit(main())
