// sfsmir: rustc_private driver that dumps type-checked, callee-resolved MIR facts of the
// workspace crates as JSON (one file per crate, one write per process).
//
// Injected with RUSTC_WORKSPACE_WRAPPER under `cargo +nightly check`; argv[1] is the real
// rustc path and is dropped. The output directory comes from SFSMIR_OUT.
#![feature(rustc_private)]
#![allow(clippy::all)]

extern crate rustc_abi;
extern crate rustc_driver;
extern crate rustc_hir;
extern crate rustc_interface;
extern crate rustc_middle;
extern crate rustc_span;

mod json;
use json::J;

use rustc_driver::{Callbacks, Compilation};
use rustc_hir::def::DefKind;
use rustc_hir::def_id::{DefId, LocalDefId};
use rustc_middle::mir::{
    self, AggregateKind, AssertKind, BasicBlockData, Body, Const, ConstValue, Operand, Place,
    ProjectionElem, Rvalue, StatementKind, TerminatorKind, UnwindAction,
};
use rustc_middle::ty::print::{with_no_trimmed_paths, with_no_visible_paths, with_resolve_crate_name};
use rustc_middle::ty::{self, GenericArgsRef, Instance, Ty, TyCtxt, TypingEnv};
use rustc_span::Span;

struct Cb;

impl Callbacks for Cb {
    fn after_analysis<'tcx>(
        &mut self,
        _c: &rustc_interface::interface::Compiler,
        tcx: TyCtxt<'tcx>,
    ) -> Compilation {
        let out_dir = match std::env::var("SFSMIR_OUT") {
            Ok(d) => d,
            Err(_) => return Compilation::Continue,
        };
        let krate = tcx.crate_name(rustc_hir::def_id::LOCAL_CRATE).to_string();
        let only = std::env::var("SFSMIR_CRATES").unwrap_or_default();
        if !only.is_empty() && !only.split(',').any(|c| c == krate) {
            return Compilation::Continue;
        }
        let facts = with_no_visible_paths!(with_resolve_crate_name!(with_no_trimmed_paths!(dump_crate(tcx, &krate))));
        let mut s = String::with_capacity(1 << 22);
        facts.write(&mut s);
        let is_bin = tcx.entry_fn(()).is_some();
        let name = if is_bin { format!("{krate}.bin.json") } else { format!("{krate}.lib.json") };
        let path = std::path::Path::new(&out_dir).join(name);
        let tmp = path.with_extension(format!("tmp{}", std::process::id()));
        std::fs::write(&tmp, s).expect("write facts");
        std::fs::rename(&tmp, &path).expect("rename facts");
        Compilation::Continue
    }
}

fn main() {
    let mut args: Vec<String> = std::env::args().collect();
    // RUSTC_WORKSPACE_WRAPPER: argv[1] is the path of the real rustc.
    if args.len() > 1 && (args[1].ends_with("rustc") || args[1].contains("/rustc")) {
        args.remove(1);
    }
    rustc_driver::run_compiler(&args, &mut Cb);
}

fn span_json(tcx: TyCtxt<'_>, span: Span) -> J {
    let sm = tcx.sess.source_map();
    let lo = sm.lookup_char_pos(span.lo());
    let file = match &lo.file.name {
        rustc_span::FileName::Real(r) => match r.local_path() {
            Some(p) => p.display().to_string(),
            None => format!("{:?}", r),
        },
        other => format!("{:?}", other),
    };
    J::obj(vec![
        ("file", J::s(file)),
        ("line", J::i(lo.line as i128)),
        ("exp", J::Bool(span.from_expansion())),
    ])
}

fn user_span(span: Span) -> Span {
    // Outermost call site for spans from macro expansions, so that reports name user code.
    let mut s = span;
    let mut n = 0;
    while s.from_expansion() && n < 32 {
        s = s.ctxt().outer_expn_data().call_site;
        n += 1;
    }
    s
}

fn dump_crate<'tcx>(tcx: TyCtxt<'tcx>, krate: &str) -> J {
    let mut fns = Vec::new();
    let mut consts = Vec::new();
    for ldid in tcx.hir_body_owners() {
        let did = ldid.to_def_id();
        match tcx.def_kind(did) {
            DefKind::Fn | DefKind::AssocFn | DefKind::Closure => {
                fns.push(dump_fn(tcx, ldid));
            }
            DefKind::Const { .. } | DefKind::AssocConst { .. } | DefKind::Static { .. } => {
                consts.push(dump_const_item(tcx, ldid));
            }
            _ => {}
        }
    }
    let mut adts = Vec::new();
    let mut impls = Vec::new();
    let mut traits = Vec::new();
    for ldid in tcx.hir_crate_items(()).definitions() {
        let did = ldid.to_def_id();
        match tcx.def_kind(did) {
            DefKind::Struct | DefKind::Enum | DefKind::Union => adts.push(dump_adt(tcx, did)),
            DefKind::Impl { of_trait } => impls.push(dump_impl(tcx, did, of_trait)),
            DefKind::Trait => traits.push(dump_trait(tcx, did)),
            _ => {}
        }
    }
    J::obj(vec![
        ("crate", J::s(krate)),
        ("is_bin", J::Bool(tcx.entry_fn(()).is_some())),
        (
            "entry",
            match tcx.entry_fn(()) {
                Some((d, _)) => J::s(tcx.def_path_str(d)),
                None => J::Null,
            },
        ),
        ("fns", J::Arr(fns)),
        ("consts", J::Arr(consts)),
        ("adts", J::Arr(adts)),
        ("impls", J::Arr(impls)),
        ("traits", J::Arr(traits)),
    ])
}

fn vis_str(tcx: TyCtxt<'_>, did: DefId) -> String {
    match tcx.def_kind(did) {
        DefKind::Closure | DefKind::AnonConst | DefKind::InlineConst => "closure".to_string(),
        _ => match tcx.visibility(did) {
            ty::Visibility::Public => "pub".to_string(),
            ty::Visibility::Restricted(m) => format!("restricted:{}", tcx.def_path_str(m)),
        },
    }
}

fn dump_adt(tcx: TyCtxt<'_>, did: DefId) -> J {
    let adt = tcx.adt_def(did);
    let mut variants = Vec::new();
    for v in adt.variants().iter() {
        let mut fields = Vec::new();
        for f in v.fields.iter() {
            fields.push(J::obj(vec![
                ("name", J::s(f.name.to_string())),
                ("ty", J::s(tcx.type_of(f.did).instantiate_identity().skip_norm_wip().to_string())),
                ("vis", J::s(match f.vis {
                    ty::Visibility::Public => "pub".to_string(),
                    ty::Visibility::Restricted(m) => format!("restricted:{}", tcx.def_path_str(m)),
                })),
            ]));
        }
        variants.push(J::obj(vec![("name", J::s(v.name.to_string())), ("fields", J::Arr(fields))]));
    }
    J::obj(vec![
        ("path", J::s(tcx.def_path_str(did))),
        ("kind", J::s(format!("{:?}", adt.adt_kind()))),
        ("vis", J::s(vis_str(tcx, did))),
        ("span", span_json(tcx, tcx.def_span(did))),
        ("variants", J::Arr(variants)),
    ])
}

fn dump_trait(tcx: TyCtxt<'_>, did: DefId) -> J {
    let mut items = Vec::new();
    for it in tcx.associated_items(did).in_definition_order() {
        items.push(J::obj(vec![
            ("name", J::s(it.name().to_string())),
            ("kind", J::s(format!("{:?}", it.tag()))),
            ("path", J::s(tcx.def_path_str(it.def_id))),
            ("has_default", J::Bool(it.defaultness(tcx).has_value())),
        ]));
    }
    J::obj(vec![
        ("path", J::s(tcx.def_path_str(did))),
        ("vis", J::s(vis_str(tcx, did))),
        ("items", J::Arr(items)),
    ])
}

fn dump_impl(tcx: TyCtxt<'_>, did: DefId, of_trait: bool) -> J {
    let self_ty = tcx.type_of(did).instantiate_identity().skip_norm_wip();
    let self_adt = match self_ty.kind() {
        ty::Adt(a, _) => J::s(tcx.def_path_str(a.did())),
        _ => J::Null,
    };
    let tr = if of_trait {
        let tref = tcx.impl_trait_ref(did).instantiate_identity().skip_norm_wip();
        J::obj(vec![
            ("path", J::s(tcx.def_path_str(tref.def_id))),
            ("full", J::s(tref.to_string())),
        ])
    } else {
        J::Null
    };
    let mut items = Vec::new();
    for it in tcx.associated_items(did).in_definition_order() {
        let mut o = vec![
            ("name", J::s(it.name().to_string())),
            ("kind", J::s(format!("{:?}", it.tag()))),
            ("path", J::s(tcx.def_path_str(it.def_id))),
        ];
        if let ty::AssocTag::Type = it.tag() {
            o.push(("ty", J::s(tcx.type_of(it.def_id).instantiate_identity().skip_norm_wip().to_string())));
        }
        items.push(J::obj(o));
    }
    J::obj(vec![
        ("path", J::s(tcx.def_path_str(did))),
        ("self_ty", J::s(self_ty.to_string())),
        ("self_adt", self_adt),
        ("trait", tr),
        ("derived", J::Bool(tcx.is_automatically_derived(did))),
        ("span", span_json(tcx, tcx.def_span(did))),
        ("items", J::Arr(items)),
    ])
}

fn dump_const_item<'tcx>(tcx: TyCtxt<'tcx>, ldid: LocalDefId) -> J {
    let did = ldid.to_def_id();
    let ty = tcx.type_of(did).instantiate_identity().skip_norm_wip();
    let kind = format!("{:?}", tcx.def_kind(did));
    let mut o = vec![
        ("path", J::s(tcx.def_path_str(did))),
        ("kind", J::s(kind)),
        ("ty", J::s(ty.to_string())),
        ("span", span_json(tcx, tcx.def_span(did))),
    ];
    let is_static = matches!(tcx.def_kind(did), DefKind::Static { .. });
    if !is_static && !tcx.generics_of(did).requires_monomorphization(tcx) {
        if let Ok(val) = tcx.const_eval_poly(did) {
            o.push(("val", const_value_json(tcx, val, ty)));
        }
    }
    J::obj(o)
}

fn dump_fn<'tcx>(tcx: TyCtxt<'tcx>, ldid: LocalDefId) -> J {
    let did = ldid.to_def_id();
    let body: &Body<'tcx> = tcx.optimized_mir(did);
    let kind = format!("{:?}", tcx.def_kind(did));
    let parent = tcx.opt_parent(did).map(|p| tcx.def_path_str(p));
    // closure -> enclosing fn-like
    let mut encl = J::Null;
    if tcx.is_closure_like(did) {
        let root = tcx.typeck_root_def_id(did);
        encl = J::s(tcx.def_path_str(root));
    }
    // impl info
    let mut impl_of = J::Null;
    let mut derived = false;
    let owner = if tcx.is_closure_like(did) { tcx.typeck_root_def_id(did) } else { did };
    if let Some(p) = tcx.opt_parent(owner) {
        if let DefKind::Impl { of_trait } = tcx.def_kind(p) {
            derived = tcx.is_automatically_derived(p);
            let self_ty = tcx.type_of(p).instantiate_identity().skip_norm_wip();
            let self_adt = match self_ty.kind() {
                ty::Adt(a, _) => J::s(tcx.def_path_str(a.did())),
                _ => J::Null,
            };
            let tr = if of_trait {
                let tref = tcx.impl_trait_ref(p).instantiate_identity().skip_norm_wip();
                J::s(tcx.def_path_str(tref.def_id))
            } else {
                J::Null
            };
            impl_of = J::obj(vec![
                ("impl", J::s(tcx.def_path_str(p))),
                ("self_ty", J::s(self_ty.to_string())),
                ("self_adt", self_adt),
                ("trait", tr),
            ]);
        } else if let DefKind::Trait = tcx.def_kind(p) {
            impl_of = J::obj(vec![
                ("impl", J::Null),
                ("self_ty", J::s("Self")),
                ("self_adt", J::Null),
                ("trait_default", J::s(tcx.def_path_str(p))),
            ]);
        }
    }
    let name = tcx.opt_item_name(did).map(|s| s.to_string());
    let typing_env = TypingEnv::post_analysis(tcx, did);
    let cx = Cx { tcx, body, typing_env };

    let mut locals = Vec::new();
    let mut names: Vec<Option<String>> = vec![None; body.local_decls.len()];
    let mut upvar_names: Vec<J> = Vec::new();
    for vdi in &body.var_debug_info {
        if let mir::VarDebugInfoContents::Place(p) = &vdi.value {
            if p.projection.is_empty() {
                names[p.local.as_usize()] = Some(vdi.name.to_string());
            } else {
                upvar_names.push(J::obj(vec![
                    ("name", J::s(vdi.name.to_string())),
                    ("place", cx.place(*p)),
                ]));
            }
        }
    }
    for (l, d) in body.local_decls.iter_enumerated() {
        locals.push(J::obj(vec![
            ("ty", J::s(d.ty.to_string())),
            ("name", match &names[l.as_usize()] { Some(n) => J::s(n.clone()), None => J::Null }),
            ("user", J::Bool(names[l.as_usize()].is_some())),
        ]));
    }
    let mut blocks = Vec::new();
    for (_bb, data) in body.basic_blocks.iter_enumerated() {
        blocks.push(cx.block(data));
    }
    let mut promoted = Vec::new();
    for pbody in tcx.promoted_mir(did).iter() {
        let pcx = Cx { tcx, body: pbody, typing_env };
        let mut pblocks = Vec::new();
        for (_bb, data) in pbody.basic_blocks.iter_enumerated() {
            pblocks.push(pcx.block(data));
        }
        let mut plocals = Vec::new();
        for d in pbody.local_decls.iter() {
            plocals.push(J::obj(vec![("ty", J::s(d.ty.to_string())), ("name", J::Null), ("user", J::Bool(false))]));
        }
        promoted.push(J::obj(vec![("locals", J::Arr(plocals)), ("blocks", J::Arr(pblocks))]));
    }
    let sig_ret = body.local_decls[mir::RETURN_PLACE].ty.to_string();
    // names of the generic parameters (parents first), in the order the generic arguments of a call to this function are listed
    let generics = tcx.generics_of(did);
    let mut gnames = Vec::new();
    for i in 0..generics.count() {
        gnames.push(J::s(generics.param_at(i, tcx).name.to_string()));
    }
    J::obj(vec![
        ("generics", J::Arr(gnames)),
        ("path", J::s(tcx.def_path_str(did))),
        ("name", match name { Some(n) => J::s(n), None => J::Null }),
        ("kind", J::s(kind)),
        ("parent", match parent { Some(p) => J::s(p), None => J::Null }),
        ("encl", encl),
        ("impl_of", impl_of),
        ("derived", J::Bool(derived)),
        ("vis", J::s(vis_str(tcx, did))),
        ("span", span_json(tcx, tcx.def_span(did))),
        ("ret", J::s(sig_ret)),
        ("argc", J::i(body.arg_count as i128)),
        ("locals", J::Arr(locals)),
        ("upvars", J::Arr(upvar_names)),
        ("blocks", J::Arr(blocks)),
        ("promoted", J::Arr(promoted)),
    ])
}

struct Cx<'a, 'tcx> {
    tcx: TyCtxt<'tcx>,
    body: &'a Body<'tcx>,
    typing_env: TypingEnv<'tcx>,
}

impl<'a, 'tcx> Cx<'a, 'tcx> {
    fn block(&self, data: &BasicBlockData<'tcx>) -> J {
        let mut stmts = Vec::new();
        for st in &data.statements {
            match &st.kind {
                StatementKind::Assign(b) => {
                    let (place, rv) = &**b;
                    stmts.push(J::obj(vec![
                        ("k", J::s("assign")),
                        ("place", self.place(*place)),
                        ("rv", self.rvalue(rv)),
                        ("line", self.line(st.source_info.span)),
                        ("exp", J::Bool(st.source_info.span.from_expansion())),
                    ]));
                }
                StatementKind::SetDiscriminant { place, variant_index } => {
                    stmts.push(J::obj(vec![
                        ("k", J::s("setdiscr")),
                        ("place", self.place(**place)),
                        ("variant", J::i(variant_index.as_usize() as i128)),
                    ]));
                }
                StatementKind::StorageDead(l) => {
                    stmts.push(J::obj(vec![("k", J::s("dead")), ("local", J::i(l.as_usize() as i128))]));
                }
                StatementKind::StorageLive(_) => {}
                StatementKind::Intrinsic(i) => {
                    stmts.push(J::obj(vec![("k", J::s("intrinsic")), ("dbg", J::s(format!("{:?}", i)))]));
                }
                _ => {}
            }
        }
        let term = data.terminator();
        let span = term.source_info.span;
        let mut t: Vec<(&str, J)> = vec![
            ("line", self.line(span)),
            ("exp", J::Bool(span.from_expansion())),
        ];
        match &term.kind {
            TerminatorKind::Goto { target } => {
                t.push(("k", J::s("goto")));
                t.push(("target", bb(*target)));
            }
            TerminatorKind::SwitchInt { discr, targets } => {
                t.push(("k", J::s("switch")));
                t.push(("discr", self.operand(discr)));
                let mut arms = Vec::new();
                for (v, tb) in targets.iter() {
                    arms.push(J::Arr(vec![J::i(v as i128), bb(tb)]));
                }
                t.push(("arms", J::Arr(arms)));
                t.push(("otherwise", bb(targets.otherwise())));
            }
            TerminatorKind::Return => t.push(("k", J::s("return"))),
            TerminatorKind::Unreachable => t.push(("k", J::s("unreachable"))),
            TerminatorKind::UnwindResume => t.push(("k", J::s("resume"))),
            TerminatorKind::UnwindTerminate(_) => t.push(("k", J::s("terminate"))),
            TerminatorKind::Drop { place, target, unwind, .. } => {
                t.push(("k", J::s("drop")));
                t.push(("place", self.place(*place)));
                t.push(("target", bb(*target)));
                t.push(("unwind", unwind_json(unwind)));
            }
            TerminatorKind::Call { func, args, destination, target, unwind, .. } => {
                t.push(("k", J::s("call")));
                t.push(("func", self.operand(func)));
                t.push(("callee", self.callee(func)));
                t.push(("args", J::Arr(args.iter().map(|a| self.operand(&a.node)).collect())));
                t.push(("dest", self.place(*destination)));
                t.push(("dest_ty", J::s(destination.ty(&self.body.local_decls, self.tcx).ty.to_string())));
                t.push(("target", match target { Some(b) => bb(*b), None => J::Null }));
                t.push(("unwind", unwind_json(unwind)));
            }
            TerminatorKind::TailCall { func, args, .. } => {
                t.push(("k", J::s("tailcall")));
                t.push(("func", self.operand(func)));
                t.push(("callee", self.callee(func)));
                t.push(("args", J::Arr(args.iter().map(|a| self.operand(&a.node)).collect())));
            }
            TerminatorKind::Assert { cond, expected, msg, target, unwind } => {
                t.push(("k", J::s("assert")));
                t.push(("cond", self.operand(cond)));
                t.push(("expected", J::Bool(*expected)));
                t.push(("msg", self.assert_msg(msg)));
                t.push(("target", bb(*target)));
                t.push(("unwind", unwind_json(unwind)));
            }
            TerminatorKind::FalseEdge { real_target, .. } => {
                t.push(("k", J::s("goto")));
                t.push(("target", bb(*real_target)));
            }
            TerminatorKind::FalseUnwind { real_target, .. } => {
                t.push(("k", J::s("goto")));
                t.push(("target", bb(*real_target)));
            }
            other => {
                t.push(("k", J::s("other")));
                t.push(("dbg", J::s(format!("{:?}", other))));
            }
        }
        J::obj(vec![
            ("cleanup", J::Bool(data.is_cleanup)),
            ("stmts", J::Arr(stmts)),
            ("term", J::obj(t)),
        ])
    }

    fn line(&self, span: Span) -> J {
        let sm = self.tcx.sess.source_map();
        let s = user_span(span);
        J::i(sm.lookup_char_pos(s.lo()).line as i128)
    }

    fn assert_msg(&self, msg: &AssertKind<Operand<'tcx>>) -> J {
        match msg {
            AssertKind::BoundsCheck { len, index } => J::obj(vec![
                ("kind", J::s("BoundsCheck")),
                ("len", self.operand(len)),
                ("index", self.operand(index)),
            ]),
            AssertKind::Overflow(op, l, r) => J::obj(vec![
                ("kind", J::s("Overflow")),
                ("op", J::s(format!("{:?}", op))),
                ("l", self.operand(l)),
                ("r", self.operand(r)),
            ]),
            AssertKind::OverflowNeg(o) => {
                J::obj(vec![("kind", J::s("OverflowNeg")), ("l", self.operand(o))])
            }
            AssertKind::DivisionByZero(o) => {
                J::obj(vec![("kind", J::s("DivisionByZero")), ("l", self.operand(o))])
            }
            AssertKind::RemainderByZero(o) => {
                J::obj(vec![("kind", J::s("RemainderByZero")), ("l", self.operand(o))])
            }
            other => J::obj(vec![("kind", J::s("Other")), ("dbg", J::s(format!("{:?}", other)))]),
        }
    }

    fn place(&self, p: Place<'tcx>) -> J {
        let mut proj = Vec::new();
        let mut pty = mir::PlaceTy::from_ty(self.body.local_decls[p.local].ty);
        for elem in p.projection.iter() {
            match elem {
                ProjectionElem::Deref => proj.push(J::Arr(vec![J::s("deref")])),
                ProjectionElem::Field(f, _) => {
                    let mut fname = J::Null;
                    let mut owner = J::Null;
                    match pty.ty.kind() {
                        ty::Adt(adt, _) => {
                            let v = match pty.variant_index {
                                Some(v) => Some(v),
                                None if adt.is_struct() || adt.is_union() => {
                                    Some(rustc_abi::FIRST_VARIANT)
                                }
                                None => None,
                            };
                            if let Some(v) = v {
                                let vd = adt.variant(v);
                                if f.as_usize() < vd.fields.len() {
                                    fname = J::s(vd.fields[f].name.to_string());
                                }
                                owner = J::s(self.tcx.def_path_str(adt.did()));
                            }
                        }
                        _ => {}
                    }
                    proj.push(J::Arr(vec![J::s("field"), J::i(f.as_usize() as i128), fname, owner]));
                }
                ProjectionElem::Index(l) => {
                    proj.push(J::Arr(vec![J::s("index"), J::i(l.as_usize() as i128)]))
                }
                ProjectionElem::ConstantIndex { offset, min_length, from_end } => {
                    proj.push(J::Arr(vec![
                        J::s("constindex"),
                        J::i(offset as i128),
                        J::i(min_length as i128),
                        J::Bool(from_end),
                    ]))
                }
                ProjectionElem::Subslice { from, to, from_end } => proj.push(J::Arr(vec![
                    J::s("subslice"),
                    J::i(from as i128),
                    J::i(to as i128),
                    J::Bool(from_end),
                ])),
                ProjectionElem::Downcast(name, v) => proj.push(J::Arr(vec![
                    J::s("downcast"),
                    match name { Some(n) => J::s(n.to_string()), None => J::Null },
                    J::i(v.as_usize() as i128),
                ])),
                _ => proj.push(J::Arr(vec![J::s("other")])),
            }
            pty = pty.projection_ty(self.tcx, elem);
        }
        J::obj(vec![("l", J::i(p.local.as_usize() as i128)), ("p", J::Arr(proj))])
    }

    fn operand(&self, op: &Operand<'tcx>) -> J {
        match op {
            Operand::Copy(p) => J::obj(vec![("k", J::s("copy")), ("place", self.place(*p))]),
            Operand::Move(p) => J::obj(vec![("k", J::s("move")), ("place", self.place(*p))]),
            Operand::Constant(c) => self.constant(&c.const_),
            #[allow(unreachable_patterns)]
            other => J::obj(vec![("k", J::s("otherop")), ("dbg", J::s(format!("{:?}", other)))]),
        }
    }

    fn constant(&self, c: &Const<'tcx>) -> J {
        let ty = c.ty();
        let mut o = vec![
            ("k", J::s("const")),
            ("ty", J::s(ty.to_string())),
            ("disp", J::s(format!("{}", c))),
        ];
        match ty.kind() {
            ty::FnDef(did, args) => {
                o.push(("fn", J::s(self.tcx.def_path_str(*did))));
                o.push(("fn_args", generic_args_json(args)));
            }
            ty::Closure(did, _) => {
                o.push(("closure", J::s(self.tcx.def_path_str(*did))));
            }
            _ => {}
        }
        if let Const::Unevaluated(u, _) = c {
            o.push(("item", J::s(self.tcx.def_path_str(u.def))));
            if let Some(p) = u.promoted {
                o.push(("promoted", J::i(p.as_usize() as i128)));
            }
        }
        let is_promoted = matches!(c, Const::Unevaluated(u, _) if u.promoted.is_some());
        if !is_promoted && !matches!(ty.kind(), ty::FnDef(..)) {
            if let Ok(val) = c.eval(self.tcx, self.typing_env, rustc_span::DUMMY_SP) {
                o.push(("val", const_value_json(self.tcx, val, ty)));
            }
        }
        J::obj(o)
    }

    fn callee(&self, func: &Operand<'tcx>) -> J {
        let tcx = self.tcx;
        if let Some((did, args)) = func.const_fn_def() {
            let mut o = vec![
                ("path", J::s(tcx.def_path_str(did))),
                ("full", J::s(tcx.def_path_str_with_args(did, args))),
                ("args", generic_args_json(args)),
                ("local", J::Bool(did.is_local())),
                ("crate", J::s(tcx.crate_name(did.krate).to_string())),
            ];
            if let Some(tr) = tcx.trait_of_assoc(did) {
                o.push(("trait", J::s(tcx.def_path_str(tr))));
                if args.len() > 0 {
                    if let Some(t) = args[0].as_type() {
                        o.push(("self_ty", J::s(t.to_string())));
                        if let ty::Adt(a, _) = peel_refs(t).kind() {
                            o.push(("self_adt", J::s(tcx.def_path_str(a.did()))));
                        }
                    }
                }
            } else if let Some(impl_did) = tcx.impl_of_assoc(did) {
                let st = tcx.type_of(impl_did).instantiate_identity().skip_norm_wip();
                o.push(("self_ty", J::s(st.to_string())));
                if let ty::Adt(a, _) = st.kind() {
                    o.push(("self_adt", J::s(tcx.def_path_str(a.did()))));
                }
            }
            match Instance::try_resolve(tcx, self.typing_env, did, args) {
                Ok(Some(inst)) => {
                    let rd = inst.def_id();
                    o.push(("resolved", J::s(tcx.def_path_str(rd))));
                    o.push(("resolved_full", J::s(tcx.def_path_str_with_args(rd, inst.args))));
                    o.push(("resolved_local", J::Bool(rd.is_local())));
                    o.push(("resolved_kind", J::s(format!("{:?}", std::mem::discriminant(&inst.def)))));
                    let is_virtual = matches!(inst.def, ty::InstanceKind::Virtual(..));
                    o.push(("virtual", J::Bool(is_virtual)));
                }
                _ => {
                    o.push(("resolved", J::Null));
                }
            }
            J::obj(o)
        } else {
            // indirect call through fn pointer / closure value
            let ty = func.ty(&self.body.local_decls, tcx);
            J::obj(vec![("path", J::Null), ("indirect_ty", J::s(ty.to_string()))])
        }
    }

    fn rvalue(&self, rv: &Rvalue<'tcx>) -> J {
        match rv {
            Rvalue::Use(op, ..) => J::obj(vec![("k", J::s("use")), ("op", self.operand(op))]),
            Rvalue::Repeat(op, n) => J::obj(vec![
                ("k", J::s("repeat")),
                ("op", self.operand(op)),
                ("n", J::s(format!("{}", n))),
            ]),
            Rvalue::Ref(_, bk, p) => J::obj(vec![
                ("k", J::s("ref")),
                ("mut", J::Bool(matches!(bk, mir::BorrowKind::Mut { .. }))),
                ("place", self.place(*p)),
            ]),
            Rvalue::RawPtr(kind, p) => J::obj(vec![
                ("k", J::s("rawptr")),
                ("mut", J::Bool(format!("{:?}", kind).contains("Mut"))),
                ("place", self.place(*p)),
            ]),
            Rvalue::Cast(kind, op, ty) => J::obj(vec![
                ("k", J::s("cast")),
                ("kind", J::s(format!("{:?}", kind))),
                ("op", self.operand(op)),
                ("from", J::s(op.ty(&self.body.local_decls, self.tcx).to_string())),
                ("ty", J::s(ty.to_string())),
            ]),
            Rvalue::BinaryOp(op, b) => {
                let (l, r) = &**b;
                J::obj(vec![
                    ("k", J::s("binop")),
                    ("op", J::s(format!("{:?}", op))),
                    ("l", self.operand(l)),
                    ("r", self.operand(r)),
                    ("lty", J::s(l.ty(&self.body.local_decls, self.tcx).to_string())),
                ])
            }
            Rvalue::UnaryOp(op, o) => J::obj(vec![
                ("k", J::s("unop")),
                ("op", J::s(format!("{:?}", op))),
                ("operand", self.operand(o)),
            ]),
            Rvalue::Discriminant(p) => {
                let pty = p.ty(&self.body.local_decls, self.tcx).ty;
                let mut o = vec![("k", J::s("discr")), ("place", self.place(*p)), ("ty", J::s(pty.to_string()))];
                if let ty::Adt(adt, _) = pty.kind() {
                    o.push(("adt", J::s(self.tcx.def_path_str(adt.did()))));
                    if adt.is_enum() {
                        let mut vs = Vec::new();
                        for (vi, d) in adt.discriminants(self.tcx) {
                            vs.push(J::Arr(vec![
                                J::i(d.val as i128),
                                J::s(adt.variant(vi).name.to_string()),
                            ]));
                        }
                        o.push(("variants", J::Arr(vs)));
                    }
                }
                J::obj(o)
            }
            Rvalue::Aggregate(kind, ops) => {
                let mut o = vec![("k", J::s("aggregate"))];
                match &**kind {
                    AggregateKind::Array(t) => {
                        o.push(("akind", J::s("array")));
                        o.push(("elem_ty", J::s(t.to_string())));
                    }
                    AggregateKind::Tuple => o.push(("akind", J::s("tuple"))),
                    AggregateKind::Adt(did, vidx, _args, _, _) => {
                        let adt = self.tcx.adt_def(*did);
                        o.push(("akind", J::s("adt")));
                        o.push(("adt", J::s(self.tcx.def_path_str(*did))));
                        let v = adt.variant(*vidx);
                        o.push(("variant", J::s(v.name.to_string())));
                        o.push((
                            "fields",
                            J::Arr(v.fields.iter().map(|f| J::s(f.name.to_string())).collect()),
                        ));
                    }
                    AggregateKind::Closure(did, _) => {
                        o.push(("akind", J::s("closure")));
                        o.push(("closure", J::s(self.tcx.def_path_str(*did))));
                    }
                    other => {
                        o.push(("akind", J::s("other")));
                        o.push(("dbg", J::s(format!("{:?}", other))));
                    }
                }
                o.push(("ops", J::Arr(ops.iter().map(|x| self.operand(x)).collect())));
                J::obj(o)
            }
            Rvalue::CopyForDeref(p) => J::obj(vec![
                ("k", J::s("use")),
                ("op", J::obj(vec![("k", J::s("copy")), ("place", self.place(*p))])),
            ]),
            other => J::obj(vec![("k", J::s("other")), ("dbg", J::s(format!("{:?}", other)))]),
        }
    }
}

fn peel_refs<'tcx>(mut t: Ty<'tcx>) -> Ty<'tcx> {
    while let ty::Ref(_, inner, _) = t.kind() {
        t = *inner;
    }
    t
}

fn bb(b: mir::BasicBlock) -> J {
    J::i(b.as_usize() as i128)
}

fn unwind_json(u: &UnwindAction) -> J {
    match u {
        UnwindAction::Cleanup(b) => bb(*b),
        UnwindAction::Continue => J::s("continue"),
        UnwindAction::Unreachable => J::s("unreachable"),
        UnwindAction::Terminate(_) => J::s("terminate"),
    }
}

fn generic_args_json(args: GenericArgsRef<'_>) -> J {
    J::Arr(args.iter().map(|a| J::s(a.to_string())).collect())
}

fn scalar_int_json(bits: u128, size: u64, ty: Ty<'_>) -> J {
    match ty.kind() {
        ty::Bool => J::Bool(bits != 0),
        ty::Int(_) => {
            let shift = 128 - size * 8;
            let v = ((bits << shift) as i128) >> shift;
            J::i(v)
        }
        ty::Uint(_) => {
            if bits > i128::MAX as u128 { J::s(bits.to_string()) } else { J::i(bits as i128) }
        }
        ty::Char => J::s(char::from_u32(bits as u32).map(|c| c.to_string()).unwrap_or_default()),
        ty::Float(ft) => {
            let f = match ft.bit_width() {
                32 => f32::from_bits(bits as u32) as f64,
                64 => f64::from_bits(bits as u64),
                _ => f64::NAN,
            };
            J::obj(vec![("f", J::s(format!("{:?}", f))), ("bits", J::s(format!("{:#x}", bits)))])
        }
        _ => J::obj(vec![("bits", J::s(format!("{:#x}", bits))), ("size", J::i(size as i128))]),
    }
}

fn bytes_to_json<'tcx>(tcx: TyCtxt<'tcx>, bytes: &[u8], ty: Ty<'tcx>) -> J {
    // decode a byte image of `ty` for the simple types we care about
    match ty.kind() {
        ty::Bool | ty::Int(_) | ty::Uint(_) | ty::Char | ty::Float(_) => {
            let mut v: u128 = 0;
            for (i, b) in bytes.iter().enumerate().take(16) {
                v |= (*b as u128) << (8 * i);
            }
            scalar_int_json(v, bytes.len() as u64, ty)
        }
        ty::Array(elem, _) => {
            let n = elem_size(*elem);
            match n {
                Some(n) if n > 0 => {
                    if matches!(elem.kind(), ty::Uint(ty::UintTy::U8)) {
                        return J::obj(vec![("bytes", J::Arr(bytes.iter().map(|b| J::i(*b as i128)).collect()))]);
                    }
                    J::Arr(bytes.chunks(n).map(|c| bytes_to_json(tcx, c, *elem)).collect())
                }
                _ => J::Null,
            }
        }
        _ => J::Null,
    }
}

fn elem_size(ty: Ty<'_>) -> Option<usize> {
    match ty.kind() {
        ty::Bool => Some(1),
        ty::Char => Some(4),
        ty::Int(i) => Some(i.bit_width().unwrap_or(64) as usize / 8),
        ty::Uint(u) => Some(u.bit_width().unwrap_or(64) as usize / 8),
        ty::Float(f) => Some(f.bit_width() as usize / 8),
        ty::Array(e, n) => {
            let n = n.try_to_target_usize_opt()?;
            Some(elem_size(*e)? * n as usize)
        }
        _ => None,
    }
}

trait ConstLen {
    fn try_to_target_usize_opt(&self) -> Option<u64>;
}
impl<'tcx> ConstLen for ty::Const<'tcx> {
    fn try_to_target_usize_opt(&self) -> Option<u64> {
        match self.kind() {
            ty::ConstKind::Value(v) => v.try_to_target_usize_noctx(),
            _ => None,
        }
    }
}
trait ValueUsize {
    fn try_to_target_usize_noctx(&self) -> Option<u64>;
}
impl<'tcx> ValueUsize for ty::Value<'tcx> {
    fn try_to_target_usize_noctx(&self) -> Option<u64> {
        let leaf = self.try_to_leaf()?;
        if leaf.size().bytes() == 8 { Some(leaf.to_u64()) } else { None }
    }
}

fn const_value_json<'tcx>(tcx: TyCtxt<'tcx>, val: ConstValue, ty: Ty<'tcx>) -> J {
    match val {
        ConstValue::Scalar(mir::interpret::Scalar::Int(si)) => {
            let size = si.size().bytes();
            let bits = si.to_bits(si.size());
            scalar_int_json(bits, size, ty)
        }
        ConstValue::Scalar(mir::interpret::Scalar::Ptr(ptr, _)) => {
            // reference to an allocation, e.g. &[u8; N] / &[T; N]
            if let ty::Ref(_, inner, _) = ty.kind() {
                let (prov, off) = ptr.into_raw_parts();
                let alloc_id = prov.alloc_id();
                if let Some(rustc_middle::mir::interpret::GlobalAlloc::Memory(a)) =
                    tcx.try_get_global_alloc(alloc_id)
                {
                    if let Some(sz) = elem_size(*inner) {
                        let a = a.inner();
                        let start = off.bytes() as usize;
                        if start + sz <= a.len() {
                            let bytes = a.inspect_with_uninit_and_ptr_outside_interpreter(start..start + sz);
                            return bytes_to_json(tcx, bytes, *inner);
                        }
                    }
                }
            }
            J::Null
        }
        ConstValue::ZeroSized => J::s("zst"),
        ConstValue::Slice { alloc_id, meta } => {
            // &[f64]: the numbers themselves (coefficient tables)
            if let ty::Ref(_, inner, _) = ty.kind() {
                if let ty::Slice(elem) = inner.kind() {
                    if matches!(elem.kind(), ty::Float(ty::FloatTy::F64)) {
                        if let Some(rustc_middle::mir::interpret::GlobalAlloc::Memory(a)) = tcx.try_get_global_alloc(alloc_id) {
                            let a = a.inner();
                            let n = meta as usize;
                            if n * 8 <= a.len() {
                                let bytes = a.inspect_with_uninit_and_ptr_outside_interpreter(0..n * 8);
                                let mut out = Vec::new();
                                for i in 0..n {
                                    let mut b = [0u8; 8];
                                    b.copy_from_slice(&bytes[i * 8..i * 8 + 8]);
                                    out.push(scalar_int_json(u64::from_le_bytes(b) as u128, 8, *elem));
                                }
                                return J::obj(vec![("floats", J::Arr(out))]);
                            }
                        }
                    }
                }
            }
            if let Some(bytes) = val.try_get_slice_bytes_for_diagnostics(tcx) {
                if let ty::Ref(_, inner, _) = ty.kind() {
                    if inner.is_str() {
                        return J::obj(vec![("str", J::s(String::from_utf8_lossy(bytes).to_string()))]);
                    }
                }
                return J::obj(vec![("bytes", J::Arr(bytes.iter().map(|b| J::i(*b as i128)).collect()))]);
            }
            J::Null
        }
        ConstValue::Indirect { alloc_id, offset } => {
            // a wide pointer &[f64] stored in memory: (pointer with provenance, length)
            if let ty::Ref(_, inner, _) = ty.kind() {
                if let ty::Slice(elem) = inner.kind() {
                    if matches!(elem.kind(), ty::Float(ty::FloatTy::F64)) {
                        if let Some(rustc_middle::mir::interpret::GlobalAlloc::Memory(a)) = tcx.try_get_global_alloc(alloc_id) {
                            let a = a.inner();
                            let start = offset.bytes() as usize;
                            if start + 16 <= a.len() {
                                let lenb = a.inspect_with_uninit_and_ptr_outside_interpreter(start + 8..start + 16);
                                let mut lb = [0u8; 8];
                                lb.copy_from_slice(lenb);
                                let n = u64::from_le_bytes(lb) as usize;
                                let ptrb = a.inspect_with_uninit_and_ptr_outside_interpreter(start..start + 8);
                                let mut pb = [0u8; 8];
                                pb.copy_from_slice(ptrb);
                                let poff = u64::from_le_bytes(pb) as usize;
                                for (o, prov) in a.provenance().ptrs().iter() {
                                    if o.bytes() as usize == start {
                                        if let Some(rustc_middle::mir::interpret::GlobalAlloc::Memory(t)) = tcx.try_get_global_alloc(prov.alloc_id()) {
                                            let t = t.inner();
                                            if poff + n * 8 <= t.len() {
                                                let bytes = t.inspect_with_uninit_and_ptr_outside_interpreter(poff..poff + n * 8);
                                                let mut out = Vec::new();
                                                for i in 0..n {
                                                    let mut b = [0u8; 8];
                                                    b.copy_from_slice(&bytes[i * 8..i * 8 + 8]);
                                                    out.push(scalar_int_json(u64::from_le_bytes(b) as u128, 8, *elem));
                                                }
                                                return J::obj(vec![("floats", J::Arr(out))]);
                                            }
                                        }
                                    }
                                }
                            }
                        }
                    }
                }
            }
            if let Some(rustc_middle::mir::interpret::GlobalAlloc::Memory(a)) =
                tcx.try_get_global_alloc(alloc_id)
            {
                if let Some(sz) = elem_size(ty) {
                    let a = a.inner();
                    let start = offset.bytes() as usize;
                    if start + sz <= a.len() {
                        let bytes = a.inspect_with_uninit_and_ptr_outside_interpreter(start..start + sz);
                        return bytes_to_json(tcx, bytes, ty);
                    }
                }
            }
            J::Null
        }
    }
}
