"""C08 (genotype classification), C09 (sample / population maps), C12 (determinism)."""
import re
from facts import P, pstr, op_place, op_local, op_const, const_val, ostr, rvstr, callee_is, callee_name, rv_operands
import an
import names as N
import rules_create as RC

GENO_FROM = ("sfs_core::input::genotype::reader::vcf::<impl core::convert::From<core::option::Option<"
             "noodles_vcf::record::genotypes::sample::value::genotype::Genotype>> for sfs_core::input::genotype::Result>::from")
TRY_FROM_RAW = "sfs_core::input::genotype::Genotype::try_from_raw"
ALLELE_POSITION = "noodles_vcf::record::genotypes::sample::value::genotype::allele::Allele::position"
GENO_RESULT = RC.GENO_RESULT
VCF_READER_RG = "<sfs_core::input::genotype::reader::vcf::Reader<R> as sfs_core::input::genotype::reader::Reader>::read_genotypes"
BCF_READER_RG = "<sfs_core::input::genotype::reader::bcf::Reader<R> as sfs_core::input::genotype::reader::Reader>::read_genotypes"

CMP = {
    "Eq": lambda a, b: a == b, "Ne": lambda a, b: a != b, "Lt": lambda a, b: a < b,
    "Le": lambda a, b: a <= b, "Gt": lambda a, b: a > b, "Ge": lambda a, b: a >= b,
}


class GenoFrom:
    def __init__(self, chk):
        self.ok = False
        self.fn = f = chk.fn(GENO_FROM)
        if f is None:
            return
        pos = an.calls(f, ALLELE_POSITION)
        if len(pos) != 2:
            chk.fail("SHAPE", "genotype::From/position-calls", f.loc(), "expected two Allele::position() calls (diploid pattern), found %d" % len(pos))
            return
        # order by the slice-pattern element they read: (*slice)[0 of 2] / [1 of 2]
        ordered = {}
        for b, t in pos:
            tgt = an.arg_pointee(f, t, 0)
            idx = None
            if tgt:
                for e in tgt[1]:
                    if e[0] == "constindex":
                        idx = e[1]
            if idx is None:
                # follow one more reborrow
                l = op_local(t["args"][0])
                r = f.resolve_ptr(l) if l is not None else None
                if r:
                    for e in r[1]:
                        if e[0] == "constindex":
                            idx = e[1]
            ordered[idx] = (b, t)
        if set(ordered) != {0, 1}:
            chk.fail("SHAPE", "genotype::From/allele-pattern", f.loc(), "the two position() receivers are not elements 0 and 1 of a two-element slice pattern (found %s)" % sorted(map(str, ordered)))
            return
        self.pos = [ordered[0], ordered[1]]
        self.pos_dest = [an.call_dest_local(ordered[0][1]), an.call_dest_local(ordered[1][1])]
        self.ok = True

    def depends(self, op_or_local):
        """which of the two allele positions an operand depends on: subset of {0,1}"""
        f = self.fn
        sl, info = f.slice_locals(op_or_local)
        return {i for i in (0, 1) if self.pos_dest[i] in sl}, info

    def aggregates(self, variant=None):
        f = self.fn
        out = []
        for b, i, p, rv, s in f.assigns():
            if rv["k"] == "aggregate" and rv["akind"] == "adt" and rv["adt"] == GENO_RESULT:
                if variant is None or rv["variant"] == variant:
                    out.append((b, rv))
        return out

    def bounds_for(self, b):
        """for block b: per allele i, the set of values v in 0..7 (7 stands for 'anything >= 2 ... large') for which
        all dominating single-allele branches admit v.  A branch counts only if its discriminant depends on allele i alone."""
        f = self.fn
        dom_vals = {0: set(range(0, 8)), 1: set(range(0, 8))}
        used = {0: [], 1: []}
        for sb, st in f.switches():
            s = an.switch_subject(f, sb)
            if s["root"] is None:
                continue
            # which edge(s) of this switch dominate b?
            for tgt in set(f.succ.get(sb, [])):
                if not an.dominated_by_edge(f, sb, tgt, b):
                    continue
                vals_for_edge = lambda v: None
                dep = None
                if s["kind"] == "value":
                    d = f.single_def(s["root"])
                    if d and d[0] == "assign" and d[3]["k"] == "binop" and d[3]["op"] in CMP:
                        rv = d[3]
                        dl, _ = self.depends(rv["l"]) if rv["l"]["k"] != "const" else (set(), None)
                        dr, _ = self.depends(rv["r"]) if rv["r"]["k"] != "const" else (set(), None)
                        cl, cr = const_val(rv["l"]), const_val(rv["r"])
                        arith_l = rv["l"]["k"] != "const" and f.slice_locals(rv["l"], through_calls=False)[1]["binops"]
                        arith_r = rv["r"]["k"] != "const" and f.slice_locals(rv["r"], through_calls=False)[1]["binops"]
                        if arith_l or arith_r:
                            continue
                        truth = None
                        # edge truth value: switch on bool: arm 0 = false, otherwise = true
                        arms0 = an.edge_target(st, 0)
                        if tgt == arms0 and tgt != st["otherwise"]:
                            truth = False
                        elif tgt == st["otherwise"] and tgt != arms0:
                            truth = True
                        if truth is None:
                            continue
                        if len(dl) == 1 and not dr and isinstance(cr, int):
                            dep = next(iter(dl))
                            ok_vals = {v for v in range(8) if CMP[rv["op"]](v, cr) == truth}
                        elif len(dr) == 1 and not dl and isinstance(cl, int):
                            dep = next(iter(dr))
                            ok_vals = {v for v in range(8) if CMP[rv["op"]](cl, v) == truth}
                        else:
                            continue
                        dom_vals[dep] &= ok_vals
                        used[dep].append(f.loc(sb))
                    else:
                        # direct switch on the allele value
                        dd, info = self.depends(s["root"])
                        if len(dd) == 1 and not info["binops"] and not [c for c in info["calls"] if not callee_is(c[1]["callee"], ALLELE_POSITION)]:
                            dep = next(iter(dd))
                            arm_vals = {a[0] for a in st["arms"] if a[1] == tgt}
                            if tgt == st["otherwise"]:
                                ok_vals = set(range(8)) - {a[0] for a in st["arms"]}
                            else:
                                ok_vals = {v for v in arm_vals if v < 8}
                            # only meaningful if the switched value is the usize payload, not the Option discriminant
                            if "usize" in f.local_ty(s["root"]):
                                dom_vals[dep] &= ok_vals
                                used[dep].append(f.loc(sb))
        return dom_vals, used


def check_C08(chk):
    chk.explanation = (
        "Structural clauses of C08 on `impl From<Option<VcfGenotype>> for genotype::Result`, Genotype::try_from_raw, the two reader impls, "
        "read_site and Runner::run: (a) information flow: every construction of Result::Genotype is dominated, for each allele separately, by a "
        "branch that depends on that allele alone and bounds it to {0,1} (a classifier that only sees a+b cannot separate 0/2 from 1/1); "
        "(b) Genotype / Multiallelic are reached only when both positions are Some, every other case yields Missing; (c) PloidyError exactly on "
        "the false edge of the slice-length == 2 test; (d) both VCF and BCF readers map every item through this one impl and nothing else "
        "constructs a genotype::Result; (e) the classifier has no undischarged panic site; (f) a ploidy error in a selected sample becomes "
        "ReadStatus::Error, then an Err naming contig:position, and no spectrum is written.")
    chk.not_decided = "noodles' own parsing of GT strings (VCF text, BCF binary) into allele positions"
    g = GenoFrom(chk)
    if g.ok:
        c08a(chk, g)
        c08b(chk, g)
        c08c(chk, g)
        c08e(chk, g)
    c08d(chk)
    c08f(chk)
    for r, n in (("C08.a", 2), ("C08.b", 3), ("C08.c", 2), ("C08.d", 3), ("C08.e", 1), ("C08.f", 3)):
        chk.floor(r, n)


def c08a(chk, g):
    f = g.fn
    aggs = g.aggregates("Genotype")
    if not aggs:
        chk.fail("C08.a", "genotype::From/no-Genotype-construction", f.loc(), "Result::Genotype is never constructed")
    for b, rv in aggs:
        dom_vals, used = g.bounds_for(b)
        for i in (0, 1):
            ok = dom_vals[i] <= {0, 1} and bool(used[i])
            chk.ob("C08.a", "genotype::From/Genotype/allele%d-bounded-to-{0,1}" % i, ok, f.loc(b),
                   "Result::Genotype must be dominated by a branch on allele %d alone admitting only {0,1}; admitted values here: %s "
                   "(7 = any larger index; per-allele branches found at %s). A decision that only depends on the alleles through their "
                   "sum counts GT 0/2 as 1/1." % (i, sorted(dom_vals[i]), used[i] or "none"))
    # the count handed on is a function of both alleles through Add only
    for b, rv in aggs:
        dd, info = g.depends(rv["ops"][0])
        ops = sorted({x["op"].replace("WithOverflow", "") for x in info["binops"]})
        chk.ob("C08.a", "genotype::From/Genotype/count-is-a0+a1", dd == {0, 1} and ops == ["Add"], f.loc(b),
               "the ALT count is the sum of the two allele indices (depends on alleles %s via %s)" % (sorted(dd), ops))


def _position_some_switches(g):
    """for each allele i: list of (switch bb, some target) of discriminant tests on position()'s Option"""
    f = g.fn
    out = {0: [], 1: []}
    for sb, st in f.switches():
        s = an.switch_subject(f, sb)
        if s["kind"] != "discr" or "Option" not in (s.get("ty") or ""):
            continue
        dd, info = g.depends({"k": "copy", "place": {"l": s["place"][0], "p": [list(e) for e in s["place"][1]]}})
        if len(dd) == 1:
            out[next(iter(dd))].append((sb, an.edge_target(st, 1)))
    return out


def c08b(chk, g):
    f = g.fn
    sw = _position_some_switches(g)
    if not sw[0] or not sw[1]:
        chk.fail("C08.b", "genotype::From/position-discriminants", f.loc(), "discriminant tests of the two position() Options not recognised")
        return

    def present(i, b):
        return any(an.dominated_by_edge(f, sb, t, b) for sb, t in sw[i])
    for b, rv in g.aggregates():
        v = rv["variant"]
        sub = None
        if v == "Skipped":
            l = op_local(rv["ops"][0])
            d = f.single_def(f.copy_root(l)) if l is not None else None
            if d and d[0] == "assign" and d[3]["k"] == "aggregate":
                sub = d[3]["variant"]
        both = present(0, b) and present(1, b)
        if v == "Genotype" or (v == "Skipped" and sub == "Multiallelic"):
            chk.ob("C08.b", "genotype::From/%s/requires-both-alleles-present" % (sub or v), both, f.loc(b),
                   "%s may only be produced when both allele positions are Some" % (sub or v))
        elif v == "Skipped" and sub == "Missing":
            chk.ob("C08.b", "genotype::From/Missing/not-under-both-present", not both, f.loc(b),
                   "Skipped(Missing) is the outcome when an allele (or the whole call) is missing, not when both are present")
    # totality of the missing case: every non-Some edge of every such switch leads only to Missing (or to another presence test)
    for i in (0, 1):
        ok = True
        for sb, some_t in sw[i]:
            for o in [t for t in f.succ.get(sb, []) if t != some_t]:
                r = an.arm_region(f, sb, o)
                for b, rv in g.aggregates():
                    if b in r and rv["variant"] != "Skipped":
                        ok = False
                    if b in r and rv["variant"] == "Skipped":
                        l = op_local(rv["ops"][0])
                        d = f.single_def(f.copy_root(l)) if l is not None else None
                        if not (d and d[0] == "assign" and d[3]["k"] == "aggregate" and d[3]["variant"] == "Missing"):
                            ok = False
        chk.ob("C08.b", "genotype::From/allele%d-missing->Missing" % i, ok, f.loc(), "when allele %d is `.` the only outcome is Skipped(Missing)" % i)


def c08c(chk, g):
    f = g.fn
    # the diploid edge: Eq(len, 2) true edge, or arm 2 of a switch on the slice length (PtrMetadata)
    dip = []
    for sb, st in f.switches():
        s = an.switch_subject(f, sb)
        if s["kind"] != "value" or s["root"] is None:
            continue

        def is_len(op_or_local):
            sl, info = f.slice_locals(op_or_local, through_calls=False)
            return any(dd[0] == "assign" and dd[3]["k"] == "unop" and dd[3]["op"] == "PtrMetadata" for l in sl for dd in f.defs.get(l, []))
        d = f.single_def(s["root"])
        if d and d[0] == "assign" and d[3]["k"] == "binop" and d[3]["op"] == "Eq":
            cs = [const_val(f_const(f, d[3]["l"])), const_val(f_const(f, d[3]["r"]))]
            if 2 in cs and is_len(d[3]["l"] if cs[0] is None else d[3]["r"]):
                dip.append((sb, st["otherwise"]))
        elif is_len(s["root"]) and "usize" in f.local_ty(s["root"]):
            t2 = [a[1] for a in st["arms"] if a[0] == 2]
            if t2 and t2[0] != st["otherwise"]:
                dip.append((sb, t2[0]))
    if len(dip) != 1:
        chk.fail("C08.c", "genotype::From/ploidy-test", f.loc(), "expected exactly one test of the allele-slice length against 2, found %d" % len(dip))
        return
    sb, t_dip = dip[0]
    errs = g.aggregates("Error")
    chk.ob("C08.c", "genotype::From/PloidyError-exists-off-the-diploid-edge", len(errs) >= 1 and not any(an.dominated_by_edge(f, sb, t_dip, b) for b, _ in errs), f.loc(sb),
           "Result::Error(PloidyError) must be constructed, and only off the `len == 2` edge")
    below = f.reachable_from(sb)
    other = [(rv["variant"], f.loc(b)) for b, rv in g.aggregates() if b in below and rv["variant"] != "Error" and not an.dominated_by_edge(f, sb, t_dip, b)]
    chk.ob("C08.c", "genotype::From/non-diploid-yields-only-Error", not other, f.loc(sb),
           "once a call is present, any outcome other than Error requires exactly two alleles (found off the diploid edge: %s)" % other)
    for b, t in g.pos:
        chk.ob("C08.c", "genotype::From/position()-under-len==2", an.dominated_by_edge(f, sb, t_dip, b), f.loc(b), "allele access must be dominated by the diploid test")


def f_const(f, op):
    c = an.const_of(f, op)
    return c if c is not None else op


def c08d(chk):
    prog = chk.prog
    # who constructs genotype::Result
    ctors = []
    for f in prog.fn_list:
        if f.derived:
            continue
        for b, i, p, rv, s in f.assigns():
            if rv["k"] == "aggregate" and rv["akind"] == "adt" and rv["adt"] == GENO_RESULT:
                ctors.append((f, b, rv["variant"]))
    where = sorted({f.path for f, b, v in ctors})
    chk.ob("C08.d", "genotype::Result/constructed-only-in-From", where == [GENO_FROM], "", "genotype::Result variants may only be constructed by the single From impl (found in %s)" % where)
    for path, what in ((VCF_READER_RG, "vcf"), (BCF_READER_RG, "bcf")):
        f = chk.fn(path)
        if f is None:
            continue
        # the closure passed to ReadStatus::map maps every item through From::from
        ok = False
        why = "closure not recognised"
        for c in prog.closures_of(path):
            chk.fns_analysed.add(c.path)
            maps = an.calls(c, N.MAP)
            for b, t in maps:
                fa = t["args"][1]
                if fa["k"] == "const" and fa.get("fn") == "core::convert::From::from" and fa.get("fn_args", [None])[0] == GENO_RESULT:
                    # receiver is into_iter() of the whole vector, result is collected
                    sl, info = c.slice_locals(t["args"][0])
                    nm = [x[1]["callee"].get("path") or "" for x in info["calls"]]
                    whole = any(n == N.INTO_ITER for n in nm) and not any(x in n for n in nm for x in ("skip", "take", "filter", "step_by"))
                    coll = any(callee_is(t2["callee"], N.COLLECT) for _, t2 in c.calls())
                    ok = whole and coll
                    why = "into_iter over the whole vector=%s, collected=%s" % (whole, coll)
        chk.ob("C08.d", "%s::Reader::read_genotypes/maps-through-From" % what, ok, f.loc(), "every genotype of the record goes through genotype::Result::from (%s)" % why)
    # trait impls of genotype::Reader: exactly these two
    impls = [i for i in prog.impls if i.get("trait") and i["trait"]["path"] == "sfs_core::input::genotype::reader::Reader"]
    chk.ob("C08.d", "genotype::Reader/impls", sorted(i["self_adt"] or "" for i in impls) == ["sfs_core::input::genotype::reader::bcf::Reader", "sfs_core::input::genotype::reader::vcf::Reader"], "",
           "the genotype::Reader trait is implemented by the vcf and bcf readers only (found %s)" % sorted(i["self_ty"] for i in impls))


def c08e(chk, g):
    f = g.fn
    bad = []
    n = 0
    for b, t in f.asserts():
        n += 1
        m = t["msg"]
        if m["kind"] == "Overflow" and m.get("op") == "Add":
            dom_vals, used = g.bounds_for(b)
            if dom_vals[0] <= {0, 1} and dom_vals[1] <= {0, 1}:
                continue
            bad.append("%s: allele sum can overflow (alleles not bounded: %s / %s)" % (f.loc(b), sorted(dom_vals[0]), sorted(dom_vals[1])))
        else:
            bad.append("%s: %s" % (f.loc(b), m["kind"]))
    for b, t in f.calls():
        nm = callee_name(t["callee"])
        if nm in (N.OPT_UNWRAP, N.OPT_EXPECT, N.RES_UNWRAP, N.RES_EXPECT) or nm.startswith("core::panicking"):
            bad.append("%s: %s" % (f.loc(b), nm))
        if callee_is(t["callee"], N.INDEX):
            ty = " ".join(t["callee"].get("args", []))
            if "RangeFull" not in ty:
                bad.append("%s: indexing %s" % (f.loc(b), ty))
    r = chk.fn(TRY_FROM_RAW)
    if r is not None:
        if list(r.asserts()) or any(callee_name(t["callee"]).startswith("core::panicking") for _, t in r.calls()):
            bad.append("try_from_raw has a panic site")
    chk.ob("C08.e", "genotype::From/total(no-panic-site)", not bad, f.loc(), "the classifier must be total: %s (%d assert terminators examined)" % (bad or "no undischarged site", n))


def c08f(chk):
    rs = RC.ReadSite(chk)
    if rs.ok:
        f = rs.fn
        e = rs.arm.get("Error")
        r = f.reachable_from(e)
        constructs = any(s["k"] == "assign" and s["rv"]["k"] == "aggregate" and s["rv"].get("adt") == RC.READSTATUS and s["rv"]["variant"] == "Error" for b in r for s in f.stmts(b))
        back = rs.header in r
        reaches_read = any(s["k"] == "assign" and s["rv"]["k"] == "aggregate" and s["rv"].get("adt") == RC.READSTATUS and s["rv"]["variant"] == "Read" for b in r for s in f.stmts(b))
        chk.ob("C08.f", "read_site/Error-arm-returns-ReadStatus::Error", constructs and not back and not reaches_read, f.loc(e),
               "a ploidy error in a selected sample must end read_site with ReadStatus::Error (constructs=%s, continues loop=%s, reaches Read=%s)" % (constructs, back, reaches_read))
        chk.ob("C08.f", "read_site/Error-arm-under-selection", an.dominated_by_edge(f, rs.sel_sw, rs.sel_some, e), f.loc(e), "only selected samples can raise the error")
    f = chk.fn(RC.RUNNER_RUN)
    if f is None:
        return
    arms = RC.runner_arms(chk, f)
    if arms is None:
        return
    region = f.reachable_from(arms["Error"])
    ok = False
    srcs = set()
    for b, pieces, phs, t in an.format_calls(f):
        if b in region:
            srcs |= RC.fmt_arg_sources(f, t)
    ok = "sfs_core::input::site::reader::Reader::current_contig" in srcs and "sfs_core::input::site::reader::Reader::current_position" in srcs
    chk.ob("C08.f", "Runner::run/Error-arm-names-contig-and-position", ok, f.loc(arms["Error"]), "the error must display current_contig() and current_position() (sources %s)" % sorted(srcs))
    RC.no_partial_output(chk, "C08.f", RC.CREATE_RUN, RC.RUNNER_RUN, [RC.WRITE_STDOUT])
