//! Compile-fail witnesses for the typestate clauses of C06.c / C14.a, seen from outside the crate
//! (DESIGN 2.4).  Every `compile_fail,E0xxx` witness has a compiling twin that differs only in the
//! offending line, so that a witness whose path is merely wrong cannot pass.
//! Run with `cargo +nightly test --doc --offline` (the stable toolchain ignores the error code).

/// f-statistics exist only on the normalised type `Spectrum<Frequencies>`.
///
/// Twin (compiles): normalise first.
/// ```
/// let scs = sfs_core::Scs::from_vec(vec![1.0, 2.0, 3.0, 4.0]);
/// let _ = scs.into_normalized().f2();
/// ```
/// Witness: calling `f2` on counts must not type-check.
/// ```compile_fail,E0599
/// let scs = sfs_core::Scs::from_vec(vec![1.0, 2.0, 3.0, 4.0]);
/// let _ = scs.f2();
/// ```
/// Same for f3, f4, fst.
/// ```compile_fail,E0599
/// let scs = sfs_core::Scs::from_vec(vec![1.0, 2.0, 3.0, 4.0]);
/// let _ = scs.f3();
/// ```
/// ```compile_fail,E0599
/// let scs = sfs_core::Scs::from_vec(vec![1.0, 2.0, 3.0, 4.0]);
/// let _ = scs.f4();
/// ```
/// ```compile_fail,E0599
/// let scs = sfs_core::Scs::from_vec(vec![1.0, 2.0, 3.0, 4.0]);
/// let _ = scs.fst();
/// ```
pub struct FStatisticsNeedFrequencies;

/// The state of a spectrum cannot be changed from outside without normalising.
///
/// Twin (compiles): the public conversion.
/// ```
/// let scs = sfs_core::Scs::from_vec(vec![1.0, 2.0]);
/// let _sfs: sfs_core::Sfs = scs.into_normalized();
/// ```
/// Witness: `into_state_unchecked` is private.
/// ```compile_fail,E0624
/// let scs = sfs_core::Scs::from_vec(vec![1.0, 2.0]);
/// let _sfs: sfs_core::Sfs = scs.into_state_unchecked();
/// ```
/// Witness: the D statistics exist only on counts (a normalised spectrum has no sample size semantics).
/// ```compile_fail,E0599
/// let scs = sfs_core::Scs::from_vec(vec![1.0, 2.0, 3.0]);
/// let _ = scs.into_normalized().d_tajima();
/// ```
/// Twin (compiles):
/// ```
/// let scs = sfs_core::Scs::from_vec(vec![1.0, 2.0, 3.0]);
/// let _ = scs.d_tajima();
/// ```
pub struct StateChangeOnlyThroughNormalize;

/// A spectrum cannot be built with struct-literal syntax from outside (private fields), so a
/// `Spectrum<Frequencies>` that was never normalised cannot be forged.
///
/// Twin (compiles): the public constructor for counts.
/// ```
/// let a = sfs_core::Array::from_zeros([2usize, 2]);
/// let _scs = sfs_core::Scs::from(a);
/// ```
/// Witness: there is no public constructor of `Sfs` from an array.
/// ```compile_fail,E0308
/// let a = sfs_core::Array::from_zeros([2usize, 2]);
/// let _sfs = sfs_core::Sfs::from(a);
/// ```
/// Witness: the state marker trait is sealed.
/// ```compile_fail,E0603
/// struct MyState;
/// impl sfs_core::spectrum::seal::Sealed for MyState {}
/// ```
pub struct NoForgedFrequencies;
