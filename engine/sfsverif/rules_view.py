"""C13: view = marginalize > project > mask > normalize > write."""
from facts import P, pstr, op_place, op_local, op_const, const_val, ostr, rvstr, callee_is, callee_name, rv_operands
import an
import names as N
import rules_create as RC

VIEW_RUN = "sfs::view::View::run"
VIEW = "sfs::view::View"
SCS = "sfs_core::spectrum::Spectrum::<sfs_core::spectrum::Counts>::"
SP = "sfs_core::spectrum::Spectrum::<S>::"
MARG = SP + "marginalize"
PROJ = SP + "project"
NORM = SP + "normalize"
INNER_MUT = SCS + "inner_mut"
AS_MUT_SLICE = "sfs_core::array::Array::<T>::as_mut_slice"
READ = "sfs_core::spectrum::io::read::Builder::read"


def option_switch(f, field):
    """(switch bb, some target, none target) for `if let Some(..) = self.<field>` on by-value self"""
    for sb, st in f.switches():
        s = an.switch_subject(f, sb)
        if s["kind"] == "discr" and s["place"] and an.owned_self_field(s["place"]) == field and len(s["place"][1]) == 1:
            return sb, an.edge_target(st, 1), an.edge_target(st, 0)
    return None


def flag_switch(f, field):
    for sb, st in f.switches():
        s = an.switch_subject(f, sb)
        if s["kind"] == "value" and s["root"] is not None:
            d = f.single_def(s["root"])
            if d and d[0] == "assign" and d[3]["k"] == "use":
                p = op_place(d[3]["op"])
                if p and an.owned_self_field(p) == field and len(p[1]) == 1:
                    return sb, st["otherwise"], an.edge_target(st, 0)
    return None


def mask_stores(chk, f, region):
    """stores of the mask step: list of (bb, which, value) with which in {'first','last','other:<desc>'}"""
    out = []
    # the slice: result of as_mut_slice(inner_mut(&mut scs))
    slc = None
    for b, t in f.calls():
        if b in region and callee_is(t["callee"], AS_MUT_SLICE):
            slc = an.call_dest_local(t)
    if slc is None:
        return None, out
    # idiom 1: indexed stores (*slc)[_i] = v
    for b in sorted(region):
        for s in f.stmts(b):
            if s["k"] != "assign":
                continue
            p = P(s["place"])
            if p[0] == slc and len(p[1]) == 2 and p[1][0] == ("deref",) and p[1][1][0] == "index":
                il = p[1][1][1]
                v = const_val(s["rv"]["op"]) if s["rv"]["k"] == "use" else None
                c = an.const_of(f, {"k": "copy", "place": {"l": il, "p": []}})
                if c is not None and c.get("val") == 0:
                    which = "first"
                else:
                    # len - 1 ?
                    sl, info = f.slice_locals(il, through_calls=True)
                    subs = [(x["op"], const_val(x["r"])) for x in info["binops"]]
                    lens = any((d[0] == "assign" and d[3]["k"] == "unop" and d[3]["op"] == "PtrMetadata") for l in sl for d in f.defs.get(l, [])) or \
                        any((x[1]["callee"].get("path") or "").endswith("::len") for x in info["calls"])
                    if lens and subs in ([("SubWithOverflow", 1)], [("Sub", 1)]):
                        which = "last"
                    else:
                        which = "other:index=%s" % (subs or (c.get("val") if c else "?"))
                out.append((b, which, v))
    # idiom 2: first_mut / last_mut
    for b, t in f.calls():
        if b not in region:
            continue
        p = t["callee"].get("path") or ""
        if p in ("core::slice::<impl [T]>::first_mut", "core::slice::<impl [T]>::last_mut"):
            recv = op_local(t["args"][0])
            r = f.resolve_ptr(recv) if recv is not None else None
            if not (r and r[0] == slc) and not (recv is not None and f.copy_root(recv) == slc):
                continue
            d = an.call_dest_local(t)
            # store through the Some payload
            for sb, s in an.switches_on_call_result(f, b):
                some_t = an.edge_target(f.term(sb), 1)
                for b2 in an.arm_region(f, sb, some_t):
                    for st in f.stmts(b2):
                        if st["k"] == "assign":
                            pp = P(st["place"])
                            if pp[1] == (("deref",),):
                                src = f.single_def(pp[0])
                                if src and src[0] == "assign" and src[3]["k"] == "use":
                                    q = op_place(src[3]["op"])
                                    if q and q[0] == d:
                                        v = const_val(st["rv"]["op"]) if st["rv"]["k"] == "use" else None
                                        out.append((b2, "first" if p.endswith("first_mut") else "last", v))
    # idiom 3: slice patterns `[first, .., last]` / `[only]`: stores through `&mut (*slc)[k of n]` (constant index, possibly from the end)
    def const_index_kind(place):
        if place[0] == slc and len(place[1]) == 2 and place[1][0] == ("deref",) and place[1][1][0] == "constindex":
            e = place[1][1]
            off, from_end = e[1], e[3]
            if not from_end and off == 0:
                return "first"
            if from_end and off == 1:
                return "last"
            return "other:constindex=%s%d" % ("-" if from_end else "", off)
        return None
    for b in sorted(region):
        for st in f.stmts(b):
            if st["k"] != "assign":
                continue
            pp = P(st["place"])
            k = const_index_kind(pp)
            if k is None and pp[1] == (("deref",),):
                src = f.single_def(pp[0])
                if src and src[0] == "assign" and src[3]["k"] in ("ref", "rawptr"):
                    k = const_index_kind(P(src[3]["place"]))
            if k is not None:
                v = const_val(st["rv"]["op"]) if st["rv"]["k"] == "use" else None
                out.append((b, k, v))
    return slc, out


def _len_of_slice(f, op, slc):
    """is the operand the length of the slice `slc` (PtrMetadata of it, or len() called on it)?"""
    l = op_local(op)
    if l is None:
        return False
    d = f.single_def(f.copy_root(l))
    if d and d[0] == "assign" and d[3]["k"] == "unop" and d[3]["op"] == "PtrMetadata":
        o = d[3]["operand"]
        ol = op_local(o)
        if ol is None:
            return False
        r = f.copy_root(ol)
        if r == slc:
            return True
        tgt = f.resolve_ptr(r)
        return tgt is not None and tgt[0] == slc
    if d and d[0] == "call" and callee_name(d[2]["callee"]).endswith("::len") and d[2]["args"]:
        al = op_local(d[2]["args"][0])
        if al is not None:
            r = f.copy_root(al)
            tgt = f.resolve_ptr(r)
            return r == slc or (tgt is not None and tgt[0] == slc)
    return False


def mask_paths(f, region, entry, slc, stores):
    """Every path through the (loop-free) mask region with the interval of slice lengths it is feasible for and the kinds of stores on it.
    Length facts come from the edges taken: first_mut()/last_mut() Some/None, is_empty(), and comparisons of the slice length with a constant."""
    INF = 1 << 62
    by_block = {}
    for b, w, v in stores:
        by_block.setdefault(b, []).append(w)

    def edge_facts(sb):
        """{target: (lo, hi, [excluded lengths])} constraints for the switch at sb, or {} if it says nothing about the length"""
        st = f.term(sb)
        s = an.switch_subject(f, sb)
        out = {}
        if s["kind"] == "discr" and s["root"] is not None:
            d = f.single_def(f.copy_root(s["root"]))
            if d and d[0] == "call" and callee_name(d[2]["callee"]).split("::")[-1] in ("first_mut", "last_mut", "first", "last"):
                out[an.variant_target(f, sb, "Some")] = (1, INF, [])
                out[an.variant_target(f, sb, "None")] = (0, 0, [])
            return out
        if s["kind"] == "value" and s["root"] is not None:
            d = f.single_def(s["root"])
            t_true, t_false = st["otherwise"], an.edge_target(st, 0)
            if d and d[0] == "call" and callee_name(d[2]["callee"]).endswith("::is_empty"):
                out[t_true], out[t_false] = (0, 0, []), (1, INF, [])
            elif d and d[0] == "assign" and d[3]["k"] == "binop" and d[3]["op"] in ("Eq", "Ne", "Lt", "Le", "Gt", "Ge"):
                op, l, r = d[3]["op"], d[3]["l"], d[3]["r"]
                def cint(o):
                    cc = an.const_of(f, o)
                    return cc.get("val") if cc is not None and isinstance(cc.get("val"), int) else None
                c = cint(r) if _len_of_slice(f, l, slc) else None
                if c is None and _len_of_slice(f, r, slc) and cint(l) is not None:
                    c = cint(l)
                    op = {"Lt": "Gt", "Le": "Ge", "Gt": "Lt", "Ge": "Le"}.get(op, op)
                if isinstance(c, int) and not isinstance(c, bool):
                    tr = {"Eq": (c, c, []), "Ne": (0, INF, [c]), "Lt": (0, c - 1, []), "Le": (0, c, []), "Gt": (c + 1, INF, []), "Ge": (c, INF, [])}[op]
                    fl = {"Eq": (0, INF, [c]), "Ne": (c, c, []), "Lt": (c, INF, []), "Le": (c + 1, INF, []), "Gt": (0, c, []), "Ge": (0, c - 1, [])}[op]
                    out[t_true], out[t_false] = tr, fl
        return out
    paths = []

    def walk(b, lo, hi, excl, kinds, depth):
        if depth > 200 or len(paths) > 500:
            return
        if b not in region:
            paths.append((lo, hi, tuple(kinds)))
            return
        kinds = kinds + by_block.get(b, [])
        t = f.term(b)
        if t["k"] == "switch":
            facts = edge_facts(b)
            for tgt in sorted(set(f.succ.get(b, []))):
                if f.term(tgt)["k"] == "unreachable":
                    continue
                lo2, hi2, ex2 = lo, hi, list(excl)
                if tgt in facts:
                    a, z, ex = facts[tgt]
                    lo2, hi2, ex2 = max(lo, a), min(hi, z), ex2 + ex
                while lo2 in ex2 and lo2 <= hi2:
                    lo2 += 1
                while hi2 in ex2 and lo2 <= hi2:
                    hi2 -= 1
                if lo2 > hi2:
                    continue  # infeasible combination of length tests
                walk(tgt, lo2, hi2, ex2, kinds, depth + 1)
        else:
            nxt = [x for x in f.succ.get(b, [])]
            if not nxt:
                paths.append((lo, hi, tuple(kinds)))
            for tgt in nxt:
                walk(tgt, lo, hi, excl, kinds, depth + 1)
    walk(entry, 0, INF, [], [], 0)
    return paths


def keep_complement(chk, f):
    """--marginalize-keep K becomes the list of axes in 0..dimensions() that are NOT in K: recognised as
    (0..d).filter(|i| !keep.contains(i)) and as `for i in 0..d { if !keep.contains(&i) { v.push(i) } }`"""
    import iters as IT
    prog = chk.prog
    out = {"complement": False, "range": False, "unconditional": False, "why_uncond": "?", "where": f.loc(), "why": "the keep.contains(..) test inside an iteration over the axes was not found", "why_range": "?"}
    its = IT.iterations(prog, f)
    unit = [f] + prog.closures_of(f.path)
    cont = [(g, b, t) for g in unit for b, t in g.calls() if callee_is(t["callee"], "alloc::vec::Vec::<T, A>::contains", "core::slice::<impl [T]>::contains")]
    if len(cont) != 1:
        return out
    g, cb, ct = cont[0]
    inside = [x for x in its if x.body is g and cb in x.blocks]
    it = min(inside, key=lambda x: len(x.blocks)) if inside else None
    if it is None:
        return out
    chk.fns_analysed.add(g.path)
    out["where"] = it.loc()
    tested = it.elem_path(ct["args"][1]) == ()
    dst = an.call_dest_local(ct)
    if it.kind == "closure" and it.consumer == "filter":
        d0 = [d for d in g.defs.get(0, []) if d[0] == "assign"]
        neg = len(d0) == 1 and d0[0][3]["k"] == "unop" and d0[0][3]["op"] == "Not" and op_local(d0[0][3]["operand"]) is not None and g.copy_root(op_local(d0[0][3]["operand"])) == dst
        plain = len(list(g.calls())) <= 2 and not list(g.switches())
        out["complement"] = tested and neg and plain
        out["why"] = "filter(|i| !keep.contains(i)): tests the element=%s, negated=%s, nothing else in the closure=%s" % (tested, neg, plain)
    elif it.kind == "loop":
        pushes = [(b, t) for b, t in it.calls() if callee_name(t["callee"]).split("::")[-1] == "push" and len(t["args"]) == 2]
        ok = False
        for sb, s_ in an.switches_on_call_result(g, cb):
            st = g.term(sb)
            t_in, t_out = st["otherwise"], an.edge_target(st, 0)   # contained / not contained
            subj = op_local(st["discr"])
            dd = g.single_def(g.copy_root(subj)) if subj is not None else None
            if dd and dd[0] == "assign" and dd[3]["k"] == "unop" and dd[3]["op"] == "Not":
                t_in, t_out = t_out, t_in
            def pushed_elem(o):
                # the element itself, or the element wrapped as Axis(i) (the conversion done while collecting)
                if it.elem_path(o) == ():
                    return True
                l_ = op_local(o)
                d_ = g.single_def(g.copy_root(l_)) if l_ is not None else None
                return bool(d_ and d_[0] == "assign" and d_[3]["k"] == "aggregate" and (d_[3].get("adt") or "").endswith("::Axis") and
                            len(d_[3]["ops"]) == 1 and it.elem_path(d_[3]["ops"][0]) == ())
            ok = len(pushes) == 1 and an.dominated_by_edge(g, sb, t_out, pushes[0][0]) and pushed_elem(pushes[0][1]["args"][1]) and \
                len(it.switches()) == 1 and not it.early_exits()
        out["complement"] = tested and ok
        out["why"] = "for i in axes { if !keep.contains(&i) { v.push(i) } }: tests the element=%s, pushes exactly the axes not contained=%s" % (tested, ok)
    # the complement is taken whenever a keep list is given: where it starts is reached under the options' own tests (discriminants) only, not
    # under a comparison of values (a shortcut such as `keep.len() == dimensions() => nothing to remove` trusts the list's length)
    start = None
    if it.parent is f and getattr(it, "bb", None) is not None:
        start = it.bb
    elif it.kind == "loop" and it.body is f:
        start = it.switch_bb
    conds = []
    if start is not None:
        for sb, st in f.switches():
            s_ = an.switch_subject(f, sb)
            dd_ = f.single_def(s_["root"]) if s_["kind"] == "value" and s_["root"] is not None else None
            if not (dd_ and dd_[0] == "assign" and dd_[3]["k"] == "binop" and dd_[3]["op"] in ("Eq", "Ne", "Lt", "Le", "Gt", "Ge")):
                continue
            if it.kind == "loop" and sb in it.loop_blocks:
                continue
            for tgt in set(f.succ.get(sb, [])):
                if tgt != start and an.dominated_by_edge(f, sb, tgt, start) or (tgt == start and len(set(f.succ.get(sb, []))) > 1 and all(p_ == sb for p_ in f.pred.get(start, [sb]))):
                    conds.append(f.loc(sb))
    out["unconditional"] = start is not None and not conds
    out["why_uncond"] = "value comparisons deciding whether the complement is computed: %s" % (sorted(set(conds)) or ("none" if start is not None else "start of the iteration not located"))
    ch = it.chain()
    src = ch[-1][1]
    d = f.single_def(f.copy_root(src[0])) if src is not None and not src[1] else None
    names = IT.chain_names(ch)
    if d and d[0] == "assign" and d[3]["k"] == "aggregate" and d[3].get("adt") == "core::ops::range::Range":
        lo = const_val(d[3]["ops"][0])
        hl = op_local(d[3]["ops"][1])
        hd = f.single_def(f.copy_root(hl)) if hl is not None else None
        out["range"] = lo == 0 and hd is not None and hd[0] == "call" and callee_is(hd[2]["callee"], SP + "dimensions") and not [n for n in names if n != "filter"]
        out["why_range"] = "Range(%s, %s), adaptors %s" % (lo, callee_name(hd[2]["callee"]) if hd and hd[0] == "call" else "?", names)
    return out


def check_C13(chk):
    chk.explanation = (
        "Structural clauses of C13 on view::View::run (loop-free): (a) order: for each adjacent pair of marginalize, project, mask, normalize, "
        "write, no occurrence of the later step can reach an occurrence of the earlier one, and the write post-dominates all steps that "
        "do not fail; (b) each step is control-dependent on its own option only, the write is unconditional; (c) the mask step is exactly two "
        "stores of 0.0, to the first and to the last element of the flat array; (d) --marginalize-keep is converted to the complement over "
        "0..dimensions(); (e) normalize divides by the sum (C06.c).")
    chk.not_decided = "numeric equality with chained single-option invocations; the printed precision"
    f = chk.fn(VIEW_RUN)
    if f is None:
        return
    cyc = {b for b in f.nodes() if f.reaches(b, b)}
    M = an.calls(f, MARG)
    Pj = an.calls(f, PROJ)
    Nm = an.calls(f, NORM)
    W = an.calls(f, RC.WRITE_PATH_OR_STDOUT)
    R = an.calls(f, READ)
    msw = flag_switch(f, "mask_monomorphic")
    for nm, cs in (("marginalize", M), ("project", Pj), ("normalize", Nm), ("write", W), ("read", R)):
        chk.ob("C13.a", "View::run/one-%s-call" % nm, len(cs) == 1, f.loc(), "expected exactly one %s call, found %d" % (nm, len(cs)))
    if not (len(M) == len(Pj) == len(Nm) == len(W) == len(R) == 1) or msw is None:
        if msw is None:
            chk.fail("C13.a", "View::run/mask-flag", f.loc(), "switch on self.mask_monomorphic not found")
        return
    mregion = an.arm_region(f, msw[0], msw[1])
    slc, stores = mask_stores(chk, f, mregion)
    K = sorted({b for b, w, v in stores})
    steps = [("marginalize", [M[0][0]]), ("project", [Pj[0][0]]), ("mask", K), ("normalize", [Nm[0][0]]), ("write", [W[0][0]])]
    looped = sorted(nm for nm, bs in steps for b in bs if b in cyc) + (["mask-region"] if cyc & mregion else [])
    chk.ob("C13.a", "View::run/loop-free", not looped, f.loc(), "no step of the pipeline sits inside a loop (the order argument is over single occurrences; loops that only prepare an argument are fine): %s" % looped)
    chk.saw_calls(5)
    for i in range(len(steps) - 1):
        for j in range(i + 1, len(steps)):
            a, ab = steps[i]
            b, bb = steps[j]
            back = [(x, y) for x in bb for y in ab if y in f.reachable_from(x) and x != y]
            if j == i + 1 or back:
                chk.ob("C13.a", "order/%s<%s" % (a, b), not back and bool(ab) and bool(bb), f.loc(bb[0]) if bb else f.loc(),
                       "no occurrence of `%s` may be followed by `%s` (documented order marginalize > project > mask > normalize > write)" % (b, a))
    # read first: the success edge of read()? dominates every step
    tb = an.try_branch_of(f, R[0][0])
    ok = tb is not None and all(an.dominated_by_edge(f, tb[1], tb[2], b) for _, bs in steps for b in bs)
    chk.ob("C13.a", "order/read<everything", ok, f.loc(R[0][0]), "every step is dominated by the success edge of read()?")
    # every transformed value flows: marginalize/project results are assigned back to the spectrum that is written
    wl = W[0][1]["args"][2]
    wroot = f.resolve_ptr(op_local(wl)) if op_local(wl) is not None else None
    scs_local = wroot[0] if wroot else None
    for nm, cs in (("marginalize", M), ("project", Pj)):
        b, t = cs[0]
        tbx = an.try_branch_of(f, b)
        ok = False
        if tbx is not None and scs_local is not None:
            cont = tbx[2]
            # on the continue edge the payload is moved into scs_local
            for b2 in an.arm_region(f, tbx[1], cont) | {cont}:
                for s in f.stmts(b2):
                    if s["k"] == "assign" and P(s["place"]) == (scs_local, ()):
                        ok = True
            recv = an.arg_pointee(f, t, 0)
            ok = ok and recv is not None and recv[0] == scs_local
        chk.ob("C13.a", "dataflow/%s-result-replaces-spectrum" % nm, ok, f.loc(b), "scs = scs.%s(..)? : the step reads and replaces the one spectrum that is finally written" % nm)
    for nm, b, t in (("normalize", Nm[0][0], Nm[0][1]),):
        recv = an.arg_pointee(f, t, 0)
        chk.ob("C13.a", "dataflow/normalize-on-written-spectrum", recv is not None and recv[0] == scs_local and not recv[1], f.loc(b), "normalize() acts on the spectrum that is written")
    if slc is not None:
        # mask acts on the same spectrum
        im = [(b, t) for b, t in an.calls(f, INNER_MUT) if b in mregion]
        ok = len(im) == 1 and (an.arg_pointee(f, im[0][1], 0) or (None,))[0] == scs_local
        chk.ob("C13.a", "dataflow/mask-on-written-spectrum", ok, f.loc(msw[0]), "the masked slice is inner_mut().as_mut_slice() of the spectrum that is written")

    # nothing but the four steps modifies the spectrum between reading and writing it
    if scs_local is not None:
        import rules_io as RIO
        extra_mut = []
        for b_, i_, p_, rv_, s_ in f.assigns():
            if rv_["k"] == "ref" and rv_.get("mut") and P(rv_["place"])[0] == scs_local:
                for ub, kind, det in RIO.local_uses(f, p_[0]):
                    if kind != "call":
                        continue
                    if det == callee_name(Nm[0][1]["callee"]) or det.endswith("::normalize"):
                        continue
                    if (det.endswith("::inner_mut") and ub in mregion):
                        continue
                    extra_mut.append("%s at %s" % (det.split("::")[-1], f.loc(ub)))
        chk.ob("C13.a", "View::run/spectrum-modified-only-by-the-four-steps", not extra_mut, f.loc(),
               "between read and write the spectrum is replaced by marginalize/project and modified in place only by the mask stores and normalize() "
               "(other mutable uses: %s)" % (sorted(set(extra_mut)) or "none"))

    # (b) control dependence
    def dominating_conditions(b, own_field):
        """branch edges dominating block b, classified; anything that is neither the step's own option, a `?` success edge of an
        earlier fallible call, nor a match on the own option's payload is an extra condition"""
        extra = []
        for sb, st in f.switches():
            for tgt in set(f.succ.get(sb, [])):
                if not an.dominated_by_edge(f, sb, tgt, b):
                    continue
                s = an.switch_subject(f, sb)
                if s["kind"] == "discr" and "ControlFlow" in (s.get("ty") or "") and tgt == an.edge_target(st, 0):
                    continue
                sl, info = f.slice_locals(st["discr"], through_calls=False)
                flds = {fl for (a_, fl) in info["fields"] if a_ == VIEW}
                if flds == {own_field}:
                    continue
                if s["kind"] == "discr" and "ControlFlow" in (s.get("ty") or ""):
                    continue
                extra.append("%s (depends on %s)" % (f.loc(sb), sorted(flds) or "a computed value"))
        return extra
    osw = {"marginalize": option_switch(f, "marginalize"), "project": option_switch(f, "project")}
    fsw = {"mask": msw, "normalize": flag_switch(f, "normalize")}
    for nm, bs in steps[:4]:
        sw = osw.get(nm) or fsw.get(nm)
        if sw is None:
            chk.fail("C13.b", "View::run/%s/own-option-switch" % nm, f.loc(), "switch on self.%s not found" % nm)
            continue
        under_own = all(an.dominated_by_edge(f, sw[0], sw[1], b) for b in bs) and bool(bs)
        others = []
        for other, sw2 in list(osw.items()) + list(fsw.items()):
            if other == nm or sw2 is None:
                continue
            if any(an.dominated_by_edge(f, sw2[0], sw2[1], b) or an.dominated_by_edge(f, sw2[0], sw2[2], b) and False for b in bs):
                others.append(other)
        own_field = {"mask": "mask_monomorphic"}.get(nm, nm)
        # for the mask step the stores sit under their own `Some(first)` / `Some(last)` tests: judge the step by the block
        # where it begins (the target of its flag's true edge)
        for b in ([sw[1]] if nm == "mask" else bs):
            others += dominating_conditions(b, own_field)
        chk.ob("C13.b", "View::run/%s/under-own-option-only" % nm, under_own and not others, f.loc(bs[0]) if bs else f.loc(),
               "`%s` must run iff its own option is set (under own option: %s; also conditional on: %s)" % (nm, under_own, sorted(set(others))))
        # the skip edge performs none of the step
        skip_region = an.arm_region(f, sw[0], sw[2])
        chk.ob("C13.b", "View::run/%s/absent-when-option-unset" % nm, not (set(bs) & skip_region), f.loc(sw[0]), "with the option unset the step must not run")
    # write is unconditional w.r.t. the options: it post-dominates the read success edge except for error returns
    wb = W[0][0]
    cond = []
    for other, sw2 in list(osw.items()) + list(fsw.items()):
        if sw2 and (an.dominated_by_edge(f, sw2[0], sw2[1], wb) or an.dominated_by_edge(f, sw2[0], sw2[2], wb)):
            cond.append(other)
    # every non-error path reaches the write: from read's continue edge, blocks that cannot reach W must be error exits (from_residual) or panics
    bad_exits = []
    if tb is not None:
        for b in f.reachable_from(tb[2]):
            if wb not in f.reachable_from(b) and b != wb and b not in f.reachable_from(wb):
                t = f.term(b)
                if t["k"] == "return":
                    # must be an error return: some predecessor chain contains from_residual
                    pass
        for b in f.reachable_from(tb[2]):
            if b == wb or wb in f.reachable_from(b) or b in f.reachable_from(wb):
                continue
            t = f.term(b)
            if t["k"] == "call" and not (callee_is(t["callee"], N.FROM_RESIDUAL) or callee_name(t["callee"]).startswith("core::panicking") or callee_name(t["callee"]).startswith("core::fmt::Arguments")):
                bad_exits.append(callee_name(t["callee"]))
    chk.ob("C13.b", "View::run/write-unconditional", not cond and not bad_exits, f.loc(wb),
           "the write is not conditional on any option; paths that avoid it are `?` error returns only (conditional on %s; other work on avoiding paths %s)" % (cond, bad_exits))

    # (c) mask targets
    vals = [v for b, w, v in stores]
    zero = bool(stores) and all(isinstance(v, dict) and v.get("f") == "0.0" for v in vals)
    paths = mask_paths(f, mregion, msw[1], slc, stores) if slc is not None else []
    bad = []
    for lo, hi, kinds in paths:
        ks = sorted(kinds)
        if any(k.startswith("other") for k in ks):
            bad.append(("store to an element other than the first or last", lo, hi, ks))
            continue
        if len(ks) != len(set(ks)):
            bad.append(("repeated store", lo, hi, ks))
            continue
        if hi == 0:
            if ks:
                bad.append(("store on a path that only an empty slice takes", lo, hi, ks))
            continue
        one = lo == hi == 1
        need_first = "first" in ks or (one and "last" in ks)
        need_last = "last" in ks or (one and "first" in ks)
        if not (need_first and need_last):
            bad.append(("first or last element not masked", lo, hi, ks))
    ok = zero and bool(paths) and not bad
    chk.ob("C13.c", "View::run/mask=first-and-last-set-to-0.0", ok, f.loc(msw[0]),
           "--mask-monomorphic must store 0.0 to exactly the first and the last flat element on every path a non-empty array takes (stores found: %s; %d path(s) through the step; offending: %s)"
           % ([(w, (v or {}).get("f") if isinstance(v, dict) else v) for b, w, v in stores], len(paths), [(x[0], "len in [%s, %s]" % (x[1], "inf" if x[2] > 1 << 60 else x[2]), x[3]) for x in bad]))
    # no other write to the slice in the mask region
    other_writes = []
    for b in mregion:
        t = f.term(b)
        if t["k"] == "call":
            nm = callee_name(t["callee"])
            if not (callee_is(t["callee"], INNER_MUT, AS_MUT_SLICE) or nm.endswith("first_mut") or nm.endswith("last_mut") or nm.endswith("::len")):
                other_writes.append(nm)
    chk.ob("C13.c", "View::run/mask-region-has-no-other-effect", not other_writes, f.loc(msw[0]), "other calls in the mask step: %s" % other_writes)

    # (d) keep -> complement
    kc = keep_complement(chk, f)
    chk.ob("C13.d", "View::run/keep->complement", kc["complement"], kc["where"], kc["why"])
    chk.ob("C13.d", "View::run/complement-over-0..dimensions", kc["range"], kc["where"], "the complement is taken over all axes 0..scs.dimensions() (%s)" % kc["why_range"])
    chk.ob("C13.d", "View::run/complement-whenever-keep-is-given", kc["unconditional"], kc["where"], kc["why_uncond"])
    # keep arm vs remove arm: remove is passed through unchanged
    # (e) normalize divides by the sum: re-use C06.c's normalize obligation
    import rules_stat
    before = len(chk.obs)
    rules_stat.c06c(chk)
    keep = []
    for o in chk.obs[before:]:
        if o["key"].startswith("normalize/") or o["key"].startswith("Spectrum::sum"):
            o["rule"] = "C13.e"
            o["id"] = "C13.e/" + o["key"]
            keep.append(o)
    chk.obs = chk.obs[:before] + keep
    chk.rule_counts.pop("C06.c", None)
    chk.rule_counts["C13.e"] = len(keep)
    # shared clauses: what `marginalize` computes from the axes it is handed (decided for C04), and that the file handed on between chained
    # invocations holds nothing but the spectrum written last (C07.g)
    import rules_num as RN_
    import rules_io as RIO_
    chk.borrow(lambda: (RN_.c04a(chk), RN_.c04c(chk), RN_.c04d(chk)), "C13.f", 10)
    chk.borrow(lambda: RIO_.c07g(chk), "C13.g", 2)
    # .. `piping the spectrum losslessly`: the writer prints the stored values with the precision asked for (C07.c/f, C17.f) and the npy
    # decoders / writer are exact (C15.a/d)
    import rules_panic as RP13_
    chk.borrow(lambda: (RIO_.c07c(chk), RIO_.c07f(chk), RP13_.precision_bound(chk, "C17.f"), RIO_.c15a(chk), RIO_.c15d(chk)), "C13.h", 30)
    # .. the text reader takes the whole body of what the previous invocation wrote (C16.d), and `--project-individuals i` means the shape
    # 2i+1 per requested value in `view` as in `create` (C02.c)
    import rules_create as RC13_
    chk.borrow(lambda: (RIO_.c16d(chk), RC13_.affine_siblings(chk, "C02.c")), "C13.i", 5)
    for r, n in (("C13.a", 12), ("C13.b", 9), ("C13.c", 2), ("C13.d", 2), ("C13.e", 2)):
        chk.floor(r, n)
