"""Thorough tier (DESIGN 2.5): quick rules plus (a) the stored one-instance-broken mutants and the seeded changes of the
property, applied to scratch copies, must be reported; (b) clippy restriction lints as an independent enumerator of
panic-capable sites (C17/C19); (c) compile-fail witnesses (C06/C14)."""
import os, sys, json, subprocess, tempfile, shutil, time
from concurrent.futures import ThreadPoolExecutor

HERE = os.path.dirname(os.path.abspath(__file__))
VERIF = os.path.dirname(os.path.dirname(HERE))
sys.path.insert(0, os.path.join(VERIF, "engine"))
REPO = os.environ.get("SFS_REPO", "/repo")
CLIPPY_LINTS = ["indexing_slicing", "arithmetic_side_effects", "unwrap_used", "expect_used", "panic", "unreachable", "unimplemented", "integer_division_remainder_used", "todo"]


def run(chk):
    pid = chk.pid
    t0 = time.time()
    extra = {}
    extra["selftest_mutants"] = run_mutants(chk, pid)
    extra["seeded_changes"] = run_seeded(chk, pid)
    if pid in ("C17", "C19"):
        extra["clippy_crossref"] = clippy_crossref(chk)
    if pid in ("C06", "C14"):
        extra["witnesses"] = witnesses(chk)
    extra["thorough_wall_s"] = round(time.time() - t0, 1)
    chk.extra["thorough"] = extra


# ------------------------------------------------------------------------------------
def _apply_and_check(pid, patch, expect):
    import mutest
    tmp, repo = mutest.scratch_copy()
    try:
        r = subprocess.run(["patch", "-p1", "-s", "-i", patch], cwd=repo, stdout=subprocess.PIPE, stderr=subprocess.STDOUT, text=True)
        if r.returncode != 0:
            return "SKIPPED", "patch does not apply to the current tree"
        rc, out = mutest.run_check(pid, repo, tmp)
        return mutest.judge(pid, out, rc, expect)
    finally:
        shutil.rmtree(tmp, ignore_errors=True)


def run_mutants(chk, pid):
    jobs = []
    # mutants: one instance broken on the tree as it is; mutants2: the same kind of break on top of a stored refactoring
    for kind in ("mutants", "mutants2"):
        d = os.path.join(VERIF, "selftest", kind, pid)
        if not os.path.isdir(d):
            continue
        for f in sorted(os.listdir(d)):
            if f.endswith(".patch"):
                exp = open(os.path.join(d, f[:-6] + ".expect")).read().strip()
                jobs.append(((f[:-6] if kind == "mutants" else "on-refactoring/" + f[:-6]), os.path.join(d, f), exp))
    if not jobs:
        return {"n": 0}
    res = {}
    with ThreadPoolExecutor(max_workers=8) as ex:
        futs = {name: ex.submit(_apply_and_check, pid, patch, exp) for name, patch, exp in jobs}
        for name, fu in futs.items():
            res[name] = fu.result()
    caught = [n for n, (v, _) in res.items() if v.startswith("CAUGHT")]
    missed = [n for n, (v, _) in res.items() if v == "MISSED"]
    skipped = [n for n, (v, _) in res.items() if v == "SKIPPED"]
    for n in missed:
        print("SELFTEST-MISSED: property=%s mutant=%s (the checker no longer reports a seeded one-instance-broken variant)" % (pid, n))
    for n, (v, line) in sorted(res.items()):
        chk.notes.append("mutant %s: %s %s" % (n, v, line[:140]))
    return {"n": len(jobs), "caught": len(caught), "missed": missed, "skipped": skipped}


def run_seeded(chk, pid):
    """independently written breaking changes kept under /verif/seeded/<id>/ (meta.json names the property)"""
    base = os.path.join(VERIF, "seeded")
    if not os.path.isdir(base):
        return {"n": 0}
    jobs = []
    for sid in sorted(os.listdir(base)):
        mp = os.path.join(base, sid, "meta.json")
        if not os.path.exists(mp):
            continue
        meta = json.load(open(mp))
        if pid not in meta.get("detected_by_expected", [meta.get("property")]):
            continue
        jobs.append((sid, os.path.join(base, sid, "patch.diff"), meta.get("expect", {}).get(pid, "")))
    res = {}
    with ThreadPoolExecutor(max_workers=8) as ex:
        futs = {sid: ex.submit(_apply_and_check, pid, patch, exp or "rule=") for sid, patch, exp in jobs}
        for sid, fu in futs.items():
            res[sid] = fu.result()
    for sid, (v, line) in sorted(res.items()):
        chk.notes.append("seeded %s: %s %s" % (sid, v, line[:140]))
        if v == "MISSED":
            print("SELFTEST-MISSED: property=%s seeded=%s" % (pid, sid))
    return {"n": len(jobs), "results": {k: v[0] for k, v in res.items()}}


# ------------------------------------------------------------------------------------
def clippy_crossref(chk):
    import rules_panic as RP
    prog = chk.prog
    tgt = os.path.join(VERIF, ".cache", "clippy-target")
    args = ["cargo", "+nightly", "clippy", "--offline", "--message-format=json", "--", "-A", "clippy::all"]
    for l in CLIPPY_LINTS:
        args += ["-W", "clippy::" + l]
    env = dict(os.environ, CARGO_TARGET_DIR=tgt, CARGO_NET_OFFLINE="true")
    # clippy caches per target dir: touch nothing in /repo; force re-lint of workspace members
    subprocess.run("rm -rf %s/debug/.fingerprint/sfs-* 2>/dev/null" % tgt, shell=True)
    r = subprocess.run(args, cwd=prog_repo(chk), stdout=subprocess.PIPE, stderr=subprocess.PIPE, text=True, env=env)
    csites = []
    for l in r.stdout.splitlines():
        try:
            m = json.loads(l)
        except ValueError:
            continue
        if m.get("reason") != "compiler-message":
            continue
        msg = m["message"]
        code = (msg.get("code") or {}).get("code") or ""
        if not code.startswith("clippy::"):
            continue
        sp = [s for s in msg["spans"] if s.get("is_primary")]
        if sp:
            csites.append((code[8:], sp[0]["file_name"], sp[0]["line_start"], sp[0]["line_end"]))
    if not csites:
        chk.ob("XREF", "clippy/ran", False, "", "clippy produced no restriction-lint diagnostics (exit %d): %s" % (r.returncode, r.stderr[-400:]), nontrivial=False)
        return {"clippy_sites": 0}
    # my inventory by (file, line), all sites incl. auto-discharged, all functions (not only reachable)
    inv = {}
    arith = {}
    for f in prog.fn_list:
        for s in RP.enumerate_sites(prog, f):
            ln = s.term.get("line")
            inv.setdefault((f.file, ln), []).append(s.sig)
        for b, i, p, rv, st in f.assigns():
            if rv["k"] == "binop" and rv["op"].replace("WithOverflow", "") in ("Add", "Sub", "Mul", "Div", "Rem", "Shl", "Shr"):
                arith.setdefault((f.file, st.get("line")), []).append(rv.get("lty"))
        for b, t in f.calls():
            p = t["callee"].get("path") or ""
            if p in ("core::ops::index::Index::index", "core::ops::index::IndexMut::index_mut") and (t["callee"].get("resolved") or "").startswith(("<sfs_core::", "<sfs::")):
                # indexing through a workspace Index impl: the panic site lives in that impl's body (an inventory site there)
                inv.setdefault((f.file, t.get("line")), []).append("delegated:" + t["callee"]["resolved"])
            if p.startswith("core::ops::arith::"):
                tys = [RP.strip_ref(a) for a in (t["callee"].get("args") or [])[:2]]
                arith.setdefault((f.file, t.get("line")), []).append(tys[0] if tys else "?")
    unmatched = []
    matched = 0
    floats = 0
    for lint, file, l0, l1 in csites:
        hit = any((file, ln) in inv for ln in range(l0, l1 + 1))
        if hit:
            matched += 1
            continue
        if lint in ("arithmetic_side_effects", "integer_division_remainder_used"):
            tys = [t for ln in range(l0, l1 + 1) for t in arith.get((file, ln), [])]
            if tys and all(t in ("f64", "f32") for t in tys):
                floats += 1
                continue
            if not tys and lint == "integer_division_remainder_used":
                # constant-folded or float division
                floats += 1
                continue
        unmatched.append("%s %s:%d" % (lint, file, l0))
    chk.ob("XREF", "clippy/every-restriction-lint-site-is-in-the-inventory", not unmatched, "",
           "independent enumerator: %d clippy restriction-lint sites; %d matched an inventory site on the same line, %d are float arithmetic (cannot panic); "
           "INVENTORY-GAP (clippy site without an inventory site): %s" % (len(csites), matched, floats, unmatched[:12]))
    return {"clippy_sites": len(csites), "matched": matched, "float_only": floats, "unmatched": unmatched}


def prog_repo(chk):
    # the repo the facts were extracted from
    return os.environ.get("SFS_CHECK_REPO") or REPO


def witnesses(chk):
    tgt = os.path.join(VERIF, ".cache", "witness-target")
    wdir = os.path.join(VERIF, "witness")
    try:
        shutil.copy(os.path.join(prog_repo(chk), "Cargo.lock"), os.path.join(wdir, "Cargo.lock"))
    except OSError:
        pass
    env = dict(os.environ, CARGO_TARGET_DIR=tgt, CARGO_NET_OFFLINE="true")
    r = subprocess.run(["cargo", "+nightly", "test", "--doc", "--offline"], cwd=wdir, stdout=subprocess.PIPE, stderr=subprocess.STDOUT, text=True, env=env)
    import re
    m = re.search(r"test result: (\w+)\. (\d+) passed; (\d+) failed", r.stdout)
    ok = bool(m) and m.group(1) == "ok" and int(m.group(2)) >= 12 and int(m.group(3)) == 0
    failed = re.findall(r"---- (.*?) stdout ----", r.stdout)
    chk.ob("WITNESS", "compile_fail-witnesses-and-twins", ok, "witness/src/lib.rs",
           "8 compile_fail witnesses (f2/f3/f4/fst and d_tajima on the wrong state, private into_state_unchecked, no From<Array> for Sfs, sealed State) "
           "and 4 compiling twins under cargo +nightly test --doc: %s; failed: %s" % (m.group(0) if m else r.stdout[-300:], failed))
    return {"passed": int(m.group(2)) if m else 0, "failed": failed}
