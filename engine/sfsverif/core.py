"""Obligation bookkeeping, known findings, evidence writing, output contract."""
import json, os, sys, time

HERE = os.path.dirname(os.path.abspath(__file__))
VERIF = os.path.dirname(os.path.dirname(HERE))

TRUSTED_BASE = [
    "rustc nightly MIR construction and Instance resolution (cargo +nightly check, -Zmir-opt-level=0)",
    "the sfsmir fact extractor (engine/sfsmir) and the python rule engine (engine/sfsverif)",
    "std's documented contracts (read_exact, write_all, fill_buf empty <=> EOF, from_le_bytes . to_le_bytes = id, IndexMap insertion order)",
    "dependencies (noodles, nom, flate2, indexmap, clap, anyhow, env_logger, log) behave as documented and do not panic on the arguments they receive",
    "reviewed tables under /verif/tables (one-line reason per row)",
]


class Check:
    def __init__(self, pid, prog, tier, seed, factinfo):
        self.pid = pid
        self.prog = prog
        self.tier = tier
        self.seed = seed
        self.factinfo = factinfo
        self.t0 = time.time()
        self.obs = []  # obligations
        self.rule_counts = {}
        self.rule_floors = {}
        self.fns_analysed = set()
        self.call_sites = 0
        self.explanation = ""
        self.not_decided = ""
        self.extra = {}
        self.notes = []

    # -- obligations -------------------------------------------------------------------
    def ob(self, rule, key, ok, where="", detail="", nontrivial=True):
        """record one obligation. key must not contain line numbers."""
        self.obs.append({
            "id": "%s/%s" % (rule, key),
            "rule": rule,
            "key": key,
            "ok": bool(ok),
            "where": where,
            "detail": detail,
            "nontrivial": nontrivial,
        })
        self.rule_counts[rule] = self.rule_counts.get(rule, 0) + 1
        return bool(ok)

    def fail(self, rule, key, where, detail):
        return self.ob(rule, key, False, where, detail)

    def borrow(self, run, dst_rule, floor=1):
        """Evaluate rules that another property owns as obligations of this property (the clause is shared: e.g. C01's `a multiallelic
        sample contributes nothing` rests on the genotype classification that C08 decides).  `run()` records obligations under their home
        rule ids; they are re-labelled `dst_rule` (the home id is kept in the detail).  Rules with known findings must not be borrowed:
        findings are listed under their home id only."""
        before = len(self.obs)
        counts_before = dict(self.rule_counts)
        run()
        moved = 0
        for o in self.obs[before:]:
            src = o["rule"]
            if src in ("ANCHOR", "SHAPE") or src == dst_rule:
                continue
            o["detail"] = "[rule %s, shared] %s" % (src, o["detail"])
            o["rule"] = dst_rule
            o["id"] = "%s/%s" % (dst_rule, o["key"])
            moved += 1
        for r in list(self.rule_counts):
            if r in ("ANCHOR", "SHAPE") or r == dst_rule:
                continue
            if self.rule_counts[r] != counts_before.get(r, 0):
                if r in counts_before:
                    self.rule_counts[r] = counts_before[r]
                else:
                    del self.rule_counts[r]
        self.rule_counts[dst_rule] = self.rule_counts.get(dst_rule, 0) + moved
        self.floor(dst_rule, floor)
        return moved

    def borrow_check(self, check_fn, only, dst_rule, floor=1, keys=None):
        """Like `borrow`, for clauses that live inside another property's whole check function (e.g. C13.a/b on View::run): `check_fn(self)`
        is evaluated, the obligations of the home rules named in `only` (including their fail-closed FLOOR obligations) are kept and
        re-labelled `dst_rule`, everything else it recorded - and what it set on the checker (explanation, floors, extras) - is dropped."""
        saved = (self.explanation, self.not_decided, dict(self.rule_floors), dict(self.extra), list(self.notes))
        state = {}

        def run():
            before = len(self.obs)
            check_fn(self)
            new = self.obs[before:]
            kept = []
            for o in new:
                home = o["rule"]
                if home in ("ANCHOR", "SHAPE") or (home in only and (keys is None or o["key"] == "FLOOR" or keys(o["key"]))):
                    kept.append(o)
            self.obs = self.obs[:before] + kept
            # counts of dropped rules are rolled back by borrow(); counts of kept rules are recomputed there from `moved`
            state["kept"] = len(kept)

        n = self.borrow(run, dst_rule, floor)
        self.explanation, self.not_decided, floors, self.extra, self.notes = saved
        fl = self.rule_floors.get(dst_rule)
        self.rule_floors = floors
        if fl is not None:
            self.rule_floors[dst_rule] = fl
        return n

    def floor(self, rule, floor, count=None):
        """fail closed if a rule matched fewer instances than were confirmed by hand"""
        n = self.rule_counts.get(rule, 0) if count is None else count
        self.rule_floors[rule] = {"floor": floor, "count": n}
        if n < floor:
            self.ob(rule, "FLOOR", False, "",
                    "rule %s examined %d instance(s), below the confirmed floor %d: anchor drifted or rule is vacuous (fail closed)" % (rule, n, floor),
                    nontrivial=False)

    def fn(self, path, rule="ANCHOR"):
        f = self.prog.fn(path)
        if f is None:
            self.ob(rule, "ANCHOR-MISSING:" + path, False, "",
                    "anchor function %s not found in the facts (renamed/moved?) - fail closed" % path, nontrivial=False)
            return None
        self.fns_analysed.add(path)
        return f

    def saw_calls(self, n=1):
        self.call_sites += n

    # -- finish ------------------------------------------------------------------------
    def finish(self):
        known = load_known()
        open_keys = {}
        for k in known:
            if k.get("property") == self.pid and k.get("status") == "open":
                open_keys[k["key"]] = k
        violations = []
        kf_hit = []
        for o in self.obs:
            if o["ok"]:
                continue
            if o["id"] in open_keys:
                kf_hit.append((o, open_keys[o["id"]]))
            else:
                violations.append(o)
        out_dir = os.path.join(os.environ.get("VERIF_OUT_DIR") or os.path.join(VERIF, "out"), self.pid)
        for o, k in kf_hit:
            print("KNOWN-FINDING: property=%s %s %s" % (self.pid, o["id"], k.get("what_fails", "")))
        if violations:
            os.makedirs(out_dir, exist_ok=True)
        for o in violations:
            safe = "".join(c if c.isalnum() or c in "._-" else "_" for c in o["id"])[:150]
            rp = os.path.join(out_dir, safe + ".json")
            with open(rp, "w") as fh:
                json.dump({"property": self.pid, "obligation": o, "facts_key": self.factinfo.get("key"),
                           "explain": "re-run ./check %s; the obligation id is stable across line changes" % self.pid}, fh, indent=1)
            print("%s  rule=%s  instance=%s\n    %s" % (o["where"] or "-", o["rule"], o["key"], o["detail"]))
            print("VIOLATION property=%s replay=%s" % (self.pid, rp))
        n_ob = len(self.obs)
        n_ok = sum(1 for o in self.obs if o["ok"])
        distinct_nt = len({(o["rule"], o["key"]) for o in self.obs if o["nontrivial"]})
        samples = []
        seen_rules = set()
        for o in self.obs:
            if o["rule"] not in seen_rules and o["nontrivial"]:
                seen_rules.add(o["rule"])
                samples.append({"obligation": o["id"], "where": o["where"], "verdict": "discharged" if o["ok"] else "failed", "detail": o["detail"][:400]})
        for o in self.obs:
            if not o["ok"]:
                samples.append({"obligation": o["id"], "where": o["where"], "verdict": "failed", "detail": o["detail"][:400]})
        ev = {
            "property_id": self.pid,
            "tier": self.tier,
            "seed": self.seed,
            "level": "other",
            "coverage": {
                "explanation": self.explanation + ("  NOT DECIDED: " + self.not_decided if self.not_decided else ""),
                "obligations": n_ob,
                "discharged": n_ok,
                "evaluations": n_ob,
                "distinct_nontrivial": distinct_nt,
                "rule": "one obligation per (rule, construct) instance found in the MIR facts of /repo's current tree; "
                        "non-trivial = required a dominance/dataflow/table argument rather than mere presence; distinct = distinct (rule, key)",
                "samples": samples[:60],
                "rule_instances": self.rule_counts,
                "floors": self.rule_floors,
                "functions_analysed": len(self.fns_analysed),
                "functions": sorted(self.fns_analysed)[:200],
                "call_sites_examined": self.call_sites,
                "known_findings": [{"key": o["id"], "what_fails": k.get("what_fails")} for o, k in kf_hit],
                "checker_cmd": "./check %s --tier %s" % (self.pid, self.tier),
                "trusted_base": TRUSTED_BASE,
                "facts": self.factinfo,
                "exhaustive": True,
                "notes": self.notes,
            },
            "assumptions": TRUSTED_BASE,
            "wall_s": round(time.time() - self.t0 + self.factinfo.get("wall_s", 0), 3),
            "violations": len(violations),
        }
        ev["coverage"].update(self.extra)
        evdir = os.environ.get("VERIF_EVIDENCE_DIR") or os.path.join(VERIF, "evidence")
        os.makedirs(evdir, exist_ok=True)
        tmp = os.path.join(evdir, ".%s.json.tmp%d" % (self.pid, os.getpid()))
        with open(tmp, "w") as fh:
            json.dump(ev, fh, indent=1)
        os.replace(tmp, os.path.join(evdir, "%s.json" % self.pid))
        print("%s: %d obligations, %d discharged, %d known finding(s), %d violation(s) [%s tier, facts %s%s]" % (
            self.pid, n_ob, n_ok, len(kf_hit), len(violations), self.tier, self.factinfo.get("key"),
            ", driver ran" if self.factinfo.get("driver_ran") else ", cached"))
        return 1 if violations else 0


def load_known():
    p = os.path.join(VERIF, "known_findings.json")
    if not os.path.exists(p):
        return []
    with open(p) as fh:
        return json.load(fh).get("findings", [])
