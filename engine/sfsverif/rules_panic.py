"""C17 / C19: panic-site inventory, contracts, definite-failure rule, iterator obligations."""
import re, json, os
from facts import P, pstr, op_place, op_local, op_const, const_val, ostr, rvstr, callee_is, callee_name, rv_operands
import an
import names as N


def _root_defs_const(f, local, depth=0):
    """all (root local, bb, const value) definitions reaching `local` through copy chains; value None for non-constant defs"""
    out = []
    if depth > 6:
        return [(local, None, None)]
    for d in f.defs.get(local, []):
        if d[0] == "assign":
            rv = d[3]
            if rv["k"] == "use":
                cv = const_val(rv["op"])
                if isinstance(cv, int) and not isinstance(cv, bool):
                    out.append((local, d[1], cv))
                    continue
                l2 = op_local(rv["op"])
                if l2 is not None and len(f.defs.get(local, [])) == 1:
                    out.extend(_root_defs_const(f, l2, depth + 1))
                    continue
            out.append((local, d[1], None))
        else:
            out.append((local, d[1], None))
    return out


def definite_failures(chk, f):
    """DESIGN 3.6 definite-failure rule, constant case: an overflow/bounds assert whose failing condition is implied
    by a constant assigned on a feasible path that reaches the assert without redefinition.  Returns messages."""
    msgs = []
    for b, t in f.asserts():
        m = t["msg"]
        if m["kind"] == "Overflow" and m["op"] in ("Sub",):
            c = const_val(m["r"])
            l = op_local(m["l"])
            if not isinstance(c, int) or l is None:
                continue
            for rl, db, k in _root_defs_const(f, l):
                if k is None or db is None:
                    continue
                if k < c:
                    # path from db to b avoiding the other definitions of the root local
                    others = {d[1] for d in f.defs.get(rl, [])} - {db}
                    if (b in f.reachable_from(db, avoid=others) and b != db) or db == b:
                        msgs.append("%s: `%s - %d` must overflow on the path through %s where the operand is the constant %d" % (f.loc(b), pstr((l, ())), c, f.loc(db), k))
        if m["kind"] == "BoundsCheck":
            il = op_local(m["index"])
            ln = op_local(m["len"])
            if il is None:
                continue
            # index defined as (x - c) where x may be a constant < c was reported above; here: constant index vs constant len
            ic = an.const_of(f, m["index"])
            lc = an.const_of(f, m["len"])
            if ic is not None and lc is not None and isinstance(ic.get("val"), int) and isinstance(lc.get("val"), int) and ic["val"] >= lc["val"]:
                msgs.append("%s: constant index %d out of bounds for constant length %d" % (f.loc(b), ic["val"], lc["val"]))
    return msgs


# ------------------------------------------------------------------------------------
# site enumeration (DESIGN 3.6)
# ------------------------------------------------------------------------------------
PSET_EXACT = {
    "core::option::Option::<T>::unwrap", "core::option::Option::<T>::expect",
    "core::result::Result::<T, E>::unwrap", "core::result::Result::<T, E>::expect",
    "core::result::Result::<T, E>::unwrap_err", "core::result::Result::<T, E>::expect_err",
    "core::ops::index::Index::index", "core::ops::index::IndexMut::index_mut",
    "core::slice::<impl [T]>::split_at", "core::slice::<impl [T]>::split_at_mut", "core::slice::<impl [T]>::copy_from_slice",
    "core::slice::<impl [T]>::clone_from_slice", "core::slice::<impl [T]>::swap", "core::slice::<impl [T]>::windows",
    "core::slice::<impl [T]>::chunks", "core::slice::<impl [T]>::chunks_exact", "core::slice::<impl [T]>::rotate_left", "core::slice::<impl [T]>::rotate_right",
    "core::str::<impl str>::split_at",
    "alloc::vec::Vec::<T, A>::remove", "alloc::vec::Vec::<T, A>::insert", "alloc::vec::Vec::<T, A>::swap_remove", "alloc::vec::Vec::<T, A>::split_off",
    "alloc::vec::Vec::<T, A>::drain", "alloc::vec::Vec::<T, A>::truncate_front",
    "alloc::string::String::remove", "alloc::string::String::insert", "alloc::string::String::insert_str", "alloc::string::String::truncate", "alloc::string::String::split_off",
    "core::iter::traits::iterator::Iterator::sum", "core::iter::traits::iterator::Iterator::product", "core::iter::traits::iterator::Iterator::step_by",
    "core::ops::arith::Add::add", "core::ops::arith::Sub::sub", "core::ops::arith::Mul::mul", "core::ops::arith::Div::div", "core::ops::arith::Rem::rem",
    "core::ops::arith::AddAssign::add_assign", "core::ops::arith::SubAssign::sub_assign", "core::ops::arith::MulAssign::mul_assign",
    "core::ops::arith::DivAssign::div_assign", "core::ops::arith::RemAssign::rem_assign", "core::ops::arith::Neg::neg",
    "core::cell::RefCell::<T>::borrow", "core::cell::RefCell::<T>::borrow_mut",
    "core::char::methods::<impl char>::to_digit", "core::char::methods::<impl char>::from_digit",
    "core::num::nonzero::NonZero::<T>::new_unchecked",
    "core::iter::traits::iterator::Iterator::max_by", "alloc::slice::<impl [T]>::concat",
    "core::time::Duration::new", "std::time::Instant::duration_since",
}
PSET_RE = re.compile(r"^core::num::<impl [iu](8|16|32|64|128|size)>::(pow|abs|div_euclid|rem_euclid|next_power_of_two|isqrt|ilog|ilog2|ilog10)$")
PANIC_FNS = ("core::panicking::", "std::rt::begin_panic", "core::option::unwrap_failed", "core::option::expect_failed", "core::result::unwrap_failed", "std::process::abort")
INT_TYS = ("usize", "u8", "u16", "u32", "u64", "u128", "isize", "i8", "i16", "i32", "i64", "i128")
FLOAT_TYS = ("f32", "f64")


def strip_ref(t):
    t = t.strip()
    while t.startswith("&"):
        t = t[1:].lstrip()
        if t.startswith("mut "):
            t = t[4:]
        if t.startswith("'"):
            t = t.split(" ", 1)[1] if " " in t else t
    return t


def is_clap_generated(f):
    io = f.impl_of
    root = f
    return bool(io and io.get("trait") and str(io["trait"]).startswith("clap_builder::") and f.derived)


class Site:
    __slots__ = ("fn", "bb", "kind", "sig", "detail", "term")

    def __init__(self, fn, bb, kind, sig, detail, term):
        self.fn, self.bb, self.kind, self.sig, self.detail, self.term = fn, bb, kind, sig, detail, term

    def loc(self):
        return self.fn.loc(self.bb)


def opdesc(f, op):
    c = an.const_of(f, op)
    if c is not None and not isinstance(c.get("val"), (dict, list)) and c.get("val") is not None:
        return "const %s" % json.dumps(c["val"])
    p = op_place(op)
    if p is not None:
        return f.local_ty(p[0]) if not p[1] else "place"
    return "?"


def enumerate_sites(prog, f):
    """all panic-capable sites of one function body"""
    out = []
    for b, t in f.asserts():
        m = t["msg"]
        k = m["kind"]
        if k == "Overflow":
            lc = an.const_of(f, m["l"])
            rc = an.const_of(f, m["r"])
            ld = "c%s" % json.dumps(lc["val"]) if lc is not None and isinstance(lc.get("val"), int) else "v"
            rd = "c%s" % json.dumps(rc["val"]) if rc is not None and isinstance(rc.get("val"), int) else "v"
            sig = "Overflow(%s %s,%s)" % (m["op"], ld, rd)
        elif k == "BoundsCheck":
            ic = an.const_of(f, m["index"])
            sig = "BoundsCheck(idx=%s)" % ("c%d" % ic["val"] if ic is not None and isinstance(ic.get("val"), int) else "v")
        else:
            sig = k
        out.append(Site(f, b, "assert", sig, m, t))
    for b, t in f.calls():
        c = t["callee"]
        p = c.get("path")
        if p is None:
            continue
        if p.startswith(PANIC_FNS):
            # message
            msg = ""
            for a in t["args"]:
                s = an.const_str_of(f, a)
                if s:
                    msg = s
            if not msg:
                # panic_fmt(Arguments): look for the literal in the same function feeding it
                l = op_local(t["args"][0]) if t["args"] else None
                d = f.single_def(l) if l is not None else None
                if d and d[0] == "call":
                    for a in d[2]["args"]:
                        s = an.const_str_of(f, a)
                        if s:
                            msg = s
            out.append(Site(f, b, "panic", "panic:%s(%s)" % (p.split("::")[-1], msg[:60]), msg, t))
            continue
        if p in PSET_EXACT or PSET_RE.match(p):
            st = strip_ref(c.get("self_ty") or (c.get("args") or [""])[0])
            args = c.get("args") or []
            nm = p.split("::")[-1]
            # operator traits and sum/product: only integer instances can panic (overflow / division by zero)
            if p.startswith("core::ops::arith::"):
                tys = [strip_ref(a) for a in args[:2]]
                if not any(x in INT_TYS for x in tys):
                    continue
                sig = "call:%s<%s>" % (nm, ",".join(tys))
            elif nm in ("sum", "product"):
                ty = strip_ref(args[1]) if len(args) > 1 else "?"
                if ty not in INT_TYS:
                    continue
                sig = "call:%s<%s>" % (nm, ty)
            elif nm in ("index", "index_mut"):
                idx = args[1] if len(args) > 1 else "?"
                if "RangeFull" in idx:
                    continue
                # workspace Index impls are ordinary workspace functions: the call edge carries their sites
                if c.get("resolved_local") or (c.get("resolved") or "").startswith(("sfs_core::", "sfs::", "<sfs_core::", "<sfs::")):
                    continue
                sig = "call:%s<%s>[%s]" % (nm, _brief(st), _brief(idx))
            else:
                sig = "call:%s<%s>" % (nm, _brief(st))
            out.append(Site(f, b, "pset", sig, p, t))
    return out


def _brief(t):
    t = re.sub(r"sfs_core::(\w+::)*", "", t)
    t = re.sub(r"(core|alloc|std)::(\w+::)*", "", t)
    return t[:70]


# ------------------------------------------------------------------------------------
# local auto-discharge rules
# ------------------------------------------------------------------------------------
def _same_value(f, a, b):
    """do operands a and b denote the same (unmodified) value?  copy-chain equality of locals, or equal constants"""
    ca, cb = an.const_of(f, a), an.const_of(f, b)
    if ca is not None and cb is not None:
        return ca.get("val") == cb.get("val") and ca.get("val") is not None
    la, lb = op_local(a), op_local(b)
    if la is None or lb is None:
        pa, pb = op_place(a), op_place(b)
        return pa is not None and pa == pb
    ra, rb = f.copy_root(la), f.copy_root(lb)
    if ra == rb:
        return True
    # both are single-def copies of the same place (e.g. `_a = (*_1).x; _b = (*_1).x` with no intervening write is NOT assumed)
    da, db = f.single_def(ra), f.single_def(rb)
    if da and db and da[0] == db[0] == "assign" and da[3]["k"] == db[3]["k"] == "use":
        pa, pb = op_place(da[3]["op"]), op_place(db[3]["op"])
        if pa is not None and pa == pb and pa[0] <= f.argc and not pa[1]:
            return True
    return False


def guarded_sub(f, b, x, y):
    """is `x - y` at block b dominated by a branch edge implying x >= y ?"""
    for sb, st in f.switches():
        s = an.switch_subject(f, sb)
        if s["kind"] != "value" or s["root"] is None:
            continue
        d = f.single_def(s["root"])
        if not (d and d[0] == "assign" and d[3]["k"] == "binop" and d[3]["op"] in ("Gt", "Ge", "Lt", "Le")):
            continue
        op, l, r = d[3]["op"], d[3]["l"], d[3]["r"]
        t_true, t_false = st["otherwise"], an.edge_target(st, 0)
        # conditions under which x >= y is implied
        implied = []
        if _same_value(f, l, x) and _same_value(f, r, y):
            implied = {"Ge": [t_true], "Gt": [t_true], "Lt": [t_false], "Le": []}[op]
        elif _same_value(f, l, y) and _same_value(f, r, x):
            implied = {"Le": [t_true], "Lt": [t_true], "Gt": [t_false], "Ge": []}[op]
        for tgt in implied:
            if an.dominated_by_edge(f, sb, tgt, b):
                return f.loc(sb)
    return None


def auto_discharge(f, site):
    """returns a reason string if the site is discharged by a local rule, else None"""
    t = site.term
    if site.kind == "assert":
        m = site.detail
        k = m["kind"]
        if k in ("DivisionByZero", "RemainderByZero"):
            # cond is Eq(divisor, 0): constant non-zero divisor
            cl = op_local(t["cond"])
            d = f.single_def(cl) if cl is not None else None
            if d and d[0] == "assign" and d[3]["k"] == "binop" and d[3]["op"] == "Eq":
                c1, c2 = an.const_of(f, d[3]["l"]), an.const_of(f, d[3]["r"])
                if c1 is not None and c2 is not None and isinstance(c1.get("val"), int) and c1["val"] != 0 and c2.get("val") == 0:
                    return "constant non-zero divisor %s" % c1["val"]
        if k == "BoundsCheck":
            ic, lc = an.const_of(f, m["index"]), an.const_of(f, m["len"])
            if ic is not None and lc is not None and isinstance(ic.get("val"), int) and isinstance(lc.get("val"), int) and ic["val"] < lc["val"]:
                return "constant index %d into fixed-size array of length %d" % (ic["val"], lc["val"])
        if k == "Overflow" and m["op"] == "Sub":
            g = guarded_sub(f, site.bb, m["l"], m["r"])
            if g:
                return "dominated by the comparison at %s which implies lhs >= rhs" % g
            # ALIGN - rem with rem = x % ALIGN
            lc = an.const_of(f, m["l"])
            rl = op_local(m["r"])
            if lc is not None and isinstance(lc.get("val"), int) and rl is not None:
                d = f.single_def(f.copy_root(rl))
                if d and d[0] == "assign" and d[3]["k"] == "binop" and d[3]["op"] == "Rem":
                    rc = an.const_of(f, d[3]["r"])
                    if rc is not None and rc.get("val") == lc["val"]:
                        return "c - (x %% c): remainder is < %d" % lc["val"]
    if site.kind == "pset":
        p = site.detail
        if p in ("core::option::Option::<T>::unwrap", "core::option::Option::<T>::expect", "core::result::Result::<T, E>::unwrap", "core::result::Result::<T, E>::expect"):
            # NonZero::try_from(const nonzero).unwrap()
            l = op_local(t["args"][0])
            d = f.single_def(f.copy_root(l)) if l is not None else None
            if d and d[0] == "call":
                cp = d[2]["callee"].get("path") or ""
                if cp in ("core::convert::TryFrom::try_from", "core::num::nonzero::NonZero::<T>::new") and "NonZero" in t["dest_ty"]:
                    c = an.const_of(f, d[2]["args"][0])
                    if c is not None and isinstance(c.get("val"), int) and c["val"] != 0:
                        return "NonZero from the non-zero constant %d" % c["val"]
    return None
