"""The precomputed factorial table of sfs_core::utils::factorial, read as what it computes rather than how it is spelled.

ln_factorial(x) must be ln(x!) for x <= MAX from a table and ln Gamma(x + 1) beyond it.  The table is filled once (OnceLock) by an
initialiser; the rule evaluates the body of the fill iteration symbolically over a tiny term language

    idx            the position of the entry being written
    prev_acc       the value a running product had before this turn (fold accumulator, loop-carried local)
    table[idx-1]   the previous entry
    mul(a, b), ln(a), const c, float(idx)

and requires   entry[idx] = prev * float(idx)   (or ln of it, if the table stores logarithms)   with prev the running product
(started at 1.0, continued with this very product) or the previous entry (entry 0 being 1.0), for idx = 1 .. LEN-1, every idx.
Forms seen so far: iter_mut().enumerate().skip(1).fold(1.0, ..), `for i in 1..=MAX { t[i] = t[i-1] * i as f64 }`,
`for i in 1..LEN`, a running `factorial *= i as f64` with `t[i] = factorial` or `t[i] = factorial.ln()`,
`for (i, entry) in t.iter_mut().enumerate().skip(1)`.  Nothing is executed."""
import an
import iters as IT
from facts import P, op_local, op_place, const_val, callee_name, callee_is, pstr

FACT = "sfs_core::utils::factorial::"


def _f(c):
    return isinstance(c, dict) and c.get("f")


def _is_ln(t):
    nm = callee_name(t["callee"])
    return nm.endswith("f64>::ln") or nm.endswith("::ln") and "f64" in nm


def table_fill(prog, init):
    """dict describing how the initialiser `init` fills the array it returns, or (None, why)"""
    # the array: a `[c; N]` repeat assigned to a local of init
    arrs = [(p_[0], rv) for _, _, p_, rv, _ in init.assigns() if rv["k"] == "repeat" and not p_[1]]
    if len(arrs) != 1:
        return None, "expected one `[c; LEN]` array in the initialiser, found %d" % len(arrs)
    A, rep = arrs[0]
    c0 = _f(const_val(rep["op"]))
    N = rep.get("len")
    if N is None:
        import re
        m = re.search(r";\s*(\d+)\]", init.local_ty(A))
        N = int(m.group(1)) if m else None
    its = [it for it in IT.iterations(prog, init) if it.parent is init and it.kind in ("loop", "closure")]
    fills = []
    for it in its:
        r = _fill_of(prog, init, it, A, N)
        if r is not None:
            fills.append(r)
    if len(fills) != 1:
        return None, "expected one iteration writing the table, found %d (iterations: %s)" % (len(fills), [IT.chain_names(i.chain()) for i in its])
    r = fills[0]
    r.update({"init_const": c0, "len": N, "array": A})
    return r, None


def _range_window(fn, ch):
    """[lo, hi) of a loop over a constant integer range"""
    for name, t, sides in ch:
        if name == "new" and t is not None and "RangeInclusive" in callee_name(t["callee"]) and len(t["args"]) == 2:
            a, b = an.const_of(fn, t["args"][0]), an.const_of(fn, t["args"][1])
            if a and b and isinstance(a.get("val"), int) and isinstance(b.get("val"), int):
                return a["val"], b["val"] + 1
    src = ch[-1]
    if src[0] == "<source>" and src[1] is not None and not src[1][1]:
        d = fn.single_def(fn.copy_root(src[1][0]))
        if d and d[0] == "assign" and d[3]["k"] == "aggregate" and (d[3].get("adt") or "").endswith("ops::range::Range") and len(d[3]["ops"]) == 2:
            a, b = an.const_of(fn, d[3]["ops"][0]), an.const_of(fn, d[3]["ops"][1])
            if a and b and isinstance(a.get("val"), int) and isinstance(b.get("val"), int):
                return a["val"], b["val"]
    return None


def _fill_of(prog, init, it, A, N):
    g = it.body
    ch = it.chain()
    names = IT.chain_names(ch)
    win = None
    idx_path = slot_path = None
    if "iter_mut" in names:
        w = IT.value_window(init, ch, lambda pl, nms: pl[0] == A and not [e for e in pl[1] if e[0] != "deref"])
        if w is None or w["count"] is None or N is None:
            return None
        win = (w["first"], w["first"] + w["count"][0] * N + w["count"][1])
        slot_path = w["value_path"]
        idx_path = w["index_path"] if (w["index_path"] is not None and w["index_first"] == w["first"]) else None
    else:
        rw = _range_window(init, ch)
        if rw is None:
            return None
        win = rw
        idx_path = ()
    # forward evaluation of the body
    env = {}
    acc_local = None
    prev_acc_init = None
    stores = []          # (kind, index term, value term)
    problems = []

    def term_of_local(l, seen=()):
        if l in env:
            return env[l]
        if l in seen:
            return ("?", "cycle")
        ep = None
        try:
            ep = it.elem_path({"k": "copy", "place": {"l": l, "p": []}})
        except Exception:
            ep = None
        if ep is not None:
            if idx_path is not None and ep == idx_path:
                return ("idx",)
            if slot_path is not None and ep == slot_path:
                return ("slot",)
        if it.kind == "closure" and it.acc_local is not None:
            try:
                ap = it.acc_path({"k": "copy", "place": {"l": l, "p": []}})
            except Exception:
                ap = None
            if ap == ():
                return ("prev_acc",)
        ds = g.defs.get(l, [])
        if it.kind == "loop":
            inside = [d for d in ds if d[1] in it.blocks]
            outside = [d for d in ds if d[1] not in it.blocks]
            if inside and outside:
                # a loop-carried local read before this turn's write: its value from the previous turn
                return ("prev_acc", l)
            ds = outside if not inside else ds
        if len(ds) == 1 and ds[0][0] == "assign":
            return term_of_rv(ds[0][3], seen + (l,))
        if len(ds) == 1 and ds[0][0] == "call" and _is_ln(ds[0][2]):
            return ("ln", term_of_op(ds[0][2]["args"][0], seen + (l,)))
        return ("?", "local _%d" % l)

    def term_of_op(op, seen=()):
        if op["k"] == "const":
            v = const_val(op)
            return ("const", v.get("f") if isinstance(v, dict) else v)
        pl = op_place(op)
        if pl is None:
            return ("?", "operand")
        l, proj = pl
        if not proj:
            return term_of_local(l, seen)
        try:
            ep = it.elem_path(op)
        except Exception:
            ep = None
        if ep is not None:
            if idx_path is not None and ep == idx_path:
                return ("idx",)
            if slot_path is not None and ep == slot_path:
                return ("slot",)
        if it.kind == "closure" and it.acc_local is not None:
            try:
                if it.acc_path(op) == ():
                    return ("prev_acc",)
            except Exception:
                pass
        base = init.copy_root(l) if g is init else l
        idxs = [e for e in proj if e[0] == "index"]
        if idxs and (l == A or base == A or _points_to(g, l, A)):
            return ("table", term_of_local(idxs[0][1], seen))
        if proj == (("deref",),):
            t = term_of_local(l, seen)
            return ("deref", t) if t[0] in ("slot",) else t
        # field .0 of a checked arithmetic pair
        if len(proj) == 1 and proj[0][0] == "field" and proj[0][1] == 0:
            t = term_of_local(l, seen)
            return t
        return ("?", pstr(pl))

    def term_of_rv(rv, seen=()):
        k = rv["k"]
        if k == "use":
            return term_of_op(rv["op"], seen)
        if k == "cast":
            t = term_of_op(rv["op"], seen)
            return ("float", t) if "f64" in (rv.get("ty") or "") else t
        if k == "binop":
            op = rv["op"].replace("WithOverflow", "").replace("Unchecked", "")
            a, b = term_of_op(rv["l"], seen), term_of_op(rv["r"], seen)
            return (op.lower(), a, b)
        if k == "ref":
            pl = P(rv["place"])
            if pl[1] and all(e == ("deref",) for e in pl[1]):
                return term_of_local(pl[0], seen)
        return ("?", k)

    def _points_to(fn, l, target):
        tg = fn.resolve_ptr(l)
        return tg is not None and tg[0] == target

    # walk the body once, in control-flow order (straight line apart from panic edges)
    if it.kind == "loop":
        cur = it.some_t if hasattr(it, "some_t") else None
        if cur is None:
            oc = an.option_outcomes(g, it.bb)
            cur = oc[1] if oc else None
        blocks_order = []
        seenb = set()
        while cur is not None and cur in it.blocks and cur not in seenb and cur != it.bb:
            seenb.add(cur)
            blocks_order.append(cur)
            t = g.term(cur)
            if t["k"] == "switch":
                problems.append("the body of the fill branches at %s" % g.loc(cur))
                break
            nxt = [s_ for s_ in g.succ.get(cur, []) if g.term(s_)["k"] not in ("resume", "abort", "unreachable") and not _is_cleanup(g, s_)]
            tgt = t.get("target") if t["k"] in ("call", "assert", "drop") else (nxt[0] if nxt else None)
            if isinstance(tgt, list):
                tgt = tgt[0] if tgt else None
            cur = tgt if tgt is not None else (nxt[0] if nxt else None)
    else:
        blocks_order = sorted(g.nodes())
        if any(g.term(b)["k"] == "switch" for b in blocks_order):
            problems.append("the fill closure branches")
    acc_next = None
    for b in blocks_order:
        for s_ in g.stmts(b):
            if s_["k"] != "assign":
                continue
            pl = P(s_["place"])
            l, proj = pl
            val = term_of_rv(s_["rv"])
            idxs = [e for e in proj if e[0] == "index"]
            if idxs and (l == A or _points_to(g, l, A)):
                stores.append(("index", term_of_local(idxs[0][1]), val))
                continue
            if proj and proj[-1] == ("deref",) and term_of_local(l)[0] == "slot":
                stores.append(("slot", ("idx",) if idx_path is not None else ("?", "position unknown"), val))
                continue
            if not proj:
                # a loop-carried local written this turn: remember its new value
                if it.kind == "loop":
                    ds = g.defs.get(l, [])
                    if [d for d in ds if d[1] not in it.blocks] and [d for d in ds if d[1] in it.blocks]:
                        if acc_local not in (None, l):
                            problems.append("more than one loop-carried value")
                        acc_local = l
                        acc_next = val
                        outs = [d for d in ds if d[1] not in it.blocks]
                        if len(outs) == 1 and outs[0][0] == "assign" and outs[0][3]["k"] == "use":
                            prev_acc_init = _f(const_val(outs[0][3]["op"]))
                env[l] = val
        t = g.term(b)
        if t["k"] == "call" and _is_ln(t):
            d = an.call_dest_local(t)
            if d is not None:
                env[d] = ("ln", term_of_op(t["args"][0]))
    if it.kind == "closure":
        acc_next = term_of_local(0)
        if it.consumer == "fold":
            prev_acc_init = _f(const_val(it.term["args"][1])) if len(it.term["args"]) > 1 else None
    if not stores:
        return None
    return {"it": it, "window": win, "stores": stores, "acc_next": acc_next, "acc_local": acc_local, "acc_init": prev_acc_init, "problems": problems,
            "idx_aligned": idx_path is not None}


def _is_cleanup(g, b):
    return bool(g.raw["blocks"][b].get("cleanup")) if isinstance(g.raw.get("blocks"), list) and b < len(g.raw["blocks"]) else False


def _strip(t):
    """drop casts to float of the index and loop-carried tags"""
    if t[0] == "float":
        return ("float", _strip(t[1]))
    if t[0] == "prev_acc":
        return ("prev_acc",)
    if t[0] in ("mul", "add", "sub"):
        return (t[0], _strip(t[1]), _strip(t[2]))
    if t[0] in ("ln", "table", "deref"):
        return (t[0], _strip(t[1]))
    return t


def judge_fill(r):
    """(ok, stores_ln, why)"""
    if r["problems"]:
        return False, None, "; ".join(r["problems"])
    if len(r["stores"]) != 1:
        return False, None, "expected one store per turn into the table, found %d" % len(r["stores"])
    kind, at, val = r["stores"][0]
    at, val = _strip(at), _strip(val)
    if at != ("idx",):
        return False, None, "the entry written is not the one at the loop's own position (%s)" % (at,)
    stores_ln = val[0] == "ln"
    prod = val[1] if stores_ln else val
    IDXF = ("float", ("idx",))
    PREV_T = ("table", ("sub", ("idx",), ("const", 1)))
    acc_next = _strip(r["acc_next"]) if r["acc_next"] is not None else None

    def is_product(p, prev):
        return p in (("mul", prev, IDXF), ("mul", IDXF, prev))
    how = None
    if is_product(prod, ("prev_acc",)):
        # the running product: started at 1.0 and continued with this very product
        if acc_next is None or not is_product(acc_next, ("prev_acc",)):
            return False, stores_ln, "the running product is not carried on as prev * i (next value: %s)" % (acc_next,)
        if r["acc_init"] != "1.0":
            return False, stores_ln, "the running product does not start at 1.0 (= 0!): %s" % r["acc_init"]
        how = "running product prev * i, started at 1.0"
    elif prod == ("prev_acc",) and acc_next is not None and False:
        pass
    elif is_product(prod, PREV_T) and not stores_ln:
        if r["init_const"] != "1.0":
            return False, stores_ln, "entry 0 is %s, not 1.0 (= 0!)" % r["init_const"]
        how = "entry[i-1] * i with entry[0] = 1.0"
    else:
        # `factorial *= i; t[i] = factorial`: the stored value is the already updated running product
        if acc_next is not None and is_product(acc_next, ("prev_acc",)) and prod == acc_next:
            if r["acc_init"] != "1.0":
                return False, stores_ln, "the running product does not start at 1.0 (= 0!): %s" % r["acc_init"]
            how = "running product, stored after its update"
        else:
            return False, stores_ln, "the value written is %s, not previous * i" % (val,)
    want0 = "0.0" if stores_ln else "1.0"
    if r["init_const"] != want0:
        return False, stores_ln, "entry 0 (the array's initial value) is %s, expected %s" % (r["init_const"], want0)
    lo, hi = r["window"]
    if lo != 1 or hi != r["len"]:
        return False, stores_ln, "entries %s..%s are written, expected 1..%s (every entry after 0!)" % (lo, hi - 1 if hi is not None else "?", (r["len"] - 1) if r["len"] else "?")
    return True, stores_ln, "%s; entries 1..%d written; the table stores %s" % (how, r["len"] - 1, "ln(i!)" if stores_ln else "i!")


def lookup_applies_ln(prog, lf, table_fn_path):
    """number of ln() calls in ln_factorial (and its closures) applied to a value read from the table"""
    n = 0
    unit = [lf] + prog.closures_of(lf.path)
    for g in unit:
        for b, t in g.calls():
            if not _is_ln(t):
                continue
            sl, info = g.slice_locals(t["args"][0])
            from_table = any(callee_is(x[1]["callee"], table_fn_path) for x in info["calls"]) or g is not lf
            if from_table:
                n += 1
    return n


# ---- ln_gamma: the branch used for factorials (x = n + 1 >= 0.5) as an expression ---------------------------------------------
def _gterm(prog, g, op, env, depth=0):
    """expression term of an f64 operand of g: ("c", text) constants, leaves from env {local: term}, add/sub/mul/div, ln/sin, ("DK", k),
    ("fold", init, closure term, adaptors, skip count); ("?", why) otherwise"""
    if depth > 60:
        return ("?", "depth")
    if op["k"] == "const":
        v = const_val(op)
        if isinstance(v, dict) and "f" in v:
            return ("c", v["f"])
        if op.get("item"):
            return ("item", op["item"])
        return ("c", str(v))
    pl = op_place(op)
    if pl is None:
        return ("?", "operand")
    l, proj = pl
    key = (l, tuple((e[0], e[1] if len(e) > 1 else None) for e in proj if e[0] in ("field", "deref")))
    for cand in (key, (l, tuple(x for x in key[1] if x[0] == "field"))):
        if cand in env:
            return env[cand]
    ix = [e for e in proj if e[0] in ("index", "constindex")]
    if ix:
        base = g.single_def(l)
        kk = ix[0][1] if ix[0][0] == "constindex" else (an.const_of(g, {"k": "copy", "place": {"l": ix[0][1], "p": []}}) or {}).get("val")
        if base and base[0] == "assign" and base[3]["k"] == "use" and base[3]["op"]["k"] == "const" and "DK" in str(base[3]["op"].get("item") or base[3]["op"]):
            return ("DK", kk)
        return ("?", "index")
    d = g.single_def(l)
    if d is None:
        return ("?", "multi-def")
    if d[0] == "assign":
        rv = d[3]
        k = rv["k"]
        if k == "use":
            return _gterm(prog, g, _with_proj(rv["op"], proj), env, depth + 1)
        if k in ("ref", "copyforderef"):
            p2 = P(rv["place"])
            return _gterm(prog, g, {"k": "copy", "place": {"l": p2[0], "p": _raw_proj(p2[1]) + _raw_proj(tuple(e for e in proj if e[0] != "deref"))}}, env, depth + 1)
        if k == "cast":
            return _gterm(prog, g, rv["op"], env, depth + 1)
        if k == "binop":
            o = rv["op"].replace("WithOverflow", "").lower()
            if o in ("add", "sub", "mul", "div"):
                return (o, _gterm(prog, g, rv["l"], env, depth + 1), _gterm(prog, g, rv["r"], env, depth + 1))
            return ("?", rv["op"])
        return ("?", k)
    if d[0] == "call":
        t = d[2]
        nm = callee_name(t["callee"])
        cp = t["callee"].get("path") or ""
        last = nm.split("::")[-1]
        if cp.startswith("core::ops::arith::") and last in ("add", "sub", "mul", "div") and len(t["args"]) == 2:
            return (last, _gterm(prog, g, t["args"][0], env, depth + 1), _gterm(prog, g, t["args"][1], env, depth + 1))
        if last in ("ln", "sin") and "f64" in nm:
            return (last, _gterm(prog, g, t["args"][0], env, depth + 1))
        if last == "fold" and len(t["args"]) == 3:
            ch = IT.receiver_chain(g, t["args"][0])
            names = IT.chain_names(ch)
            sk = IT.chain_get(ch, "skip")
            skn = (an.const_of(g, sk["args"][1]) or {}).get("val") if sk is not None else None
            src = ch[-1][1]
            srcd = g.single_def(src[0]) if src is not None else None
            over_dk = bool(srcd and srcd[0] == "assign" and srcd[3]["k"] == "use" and srcd[3]["op"]["k"] == "const" and "DK" in str(srcd[3]["op"].get("item") or srcd[3]["op"]))
            cpth = an.closure_of_operand(g, t["args"][2])
            c = prog.fn(cpth) if cpth else None
            cterm = ("?", "closure")
            if c is not None:
                # fold closure: _2 = accumulator, _3 = (k, &DK[k]); the captured x is upvar 0
                cenv = {(2, ()): ("acc",), (3, (("field", 0),)): ("k",), (3, (("field", 1),)): ("dk",), (3, (("field", 1), ("deref", None))): ("dk",)}
                caps = an.closure_captures(g, cpth) or []
                for i_, cp_ in enumerate(caps):
                    if cp_ is not None:
                        ct = _gterm(prog, g, {"k": "copy", "place": {"l": cp_[0], "p": _raw_proj(cp_[1])}}, env, depth + 1)
                        cenv[(1, (("deref", None), ("field", i_)))] = ct
                        cenv[(1, (("field", i_),))] = ct
                        cenv[(1, (("deref", None), ("field", i_), ("deref", None)))] = ct
                cterm = _gterm(prog, c, {"k": "copy", "place": {"l": 0, "p": []}}, cenv, depth + 1)
            return ("fold", _gterm(prog, g, t["args"][1], env, depth + 1), cterm, tuple(names), skn, over_dk)
        return ("?", "call " + last)
    return ("?", d[0])


def _raw_proj(proj):
    """normal-form projection elements back into the raw list form of the facts"""
    out = []
    for e in proj:
        if e[0] == "deref":
            out.append(["deref"])
        elif e[0] == "field":
            out.append(["field", e[1], e[2] if len(e) > 2 else None, e[3] if len(e) > 3 else None])
        elif e[0] == "index":
            out.append(["index", e[1]])
        elif e[0] == "constindex":
            out.append(["constindex", e[1], e[2] if len(e) > 2 else None, e[3] if len(e) > 3 else None])
        elif e[0] == "downcast":
            out.append(["downcast", e[1], e[2] if len(e) > 2 else None])
    return out


def _with_proj(op, proj):
    if not proj or op["k"] == "const":
        return op
    pl = op_place(op)
    return {"k": "copy", "place": {"l": pl[0], "p": _raw_proj(pl[1]) + _raw_proj(proj)}}


def _nrm(t):
    if not isinstance(t, tuple) or not t:
        return t
    if t[0] in ("add", "mul"):
        parts = []
        def flat(x):
            x = _nrm(x)
            if isinstance(x, tuple) and x and x[0] == ("sum" if t[0] == "add" else "prod"):
                parts.extend(x[1])
            else:
                parts.append(x)
        flat(t[1]); flat(t[2])
        return ("sum" if t[0] == "add" else "prod", tuple(sorted(parts, key=repr)))
    if t[0] in ("sub", "div"):
        return (t[0], _nrm(t[1]), _nrm(t[2]))
    if t[0] in ("ln", "sin"):
        return (t[0], _nrm(t[1]))
    if t[0] == "fold":
        return ("fold", _nrm(t[1]), _nrm(t[2])) + t[3:]
    return t


def ln_gamma_upper_branch(prog, f):
    """(ok, why): on x >= 0.5 ln_gamma returns  ln(S) + C + (x - 0.5) * ln((x - 0.5 + R) / e)  with  S = DK[0] + sum_{k>=1} DK[k] / (x + k - 1)
    (the Lanczos form the coefficients belong to); C and R are read from the constants and reported"""
    X = ("x",)
    env = {(1, ()): X}
    # the return value assigned on the `x < 0.5` == false edge
    br = None
    for sb, st in f.switches():
        s_ = an.switch_subject(f, sb)
        d_ = f.single_def(s_["root"]) if s_["kind"] == "value" and s_["root"] is not None else None
        if d_ and d_[0] == "assign" and d_[3]["k"] == "binop" and d_[3]["op"] == "Lt":
            c = const_val(d_[3]["r"])
            if isinstance(c, dict) and c.get("f") == "0.5":
                br = (sb, an.edge_target(st, 0))
    if br is None:
        return False, "the `x < 0.5` test was not found"
    defs0 = [x for x in f.defs.get(0, []) if an.dominated_by_edge(f, br[0], br[1], x[1])]
    if len(defs0) != 1 or defs0[0][0] != "assign":
        return False, "the value returned for x >= 0.5 is not a single expression"
    got = _nrm(_gterm_rv(prog, f, defs0[0][3], env))
    half = ("c", "0.5")
    def want(C, R):
        s = ("fold", ("DK", 0), _nrm(("add", ("acc",), ("div", ("dk",), ("sub", ("add", X, ("k",)), ("c", "1.0"))))), ("skip", "enumerate", "iter"), 1, True)
        xm = ("sub", X, half)
        return _nrm(("add", ("add", ("ln", s), ("c", C)), ("mul", xm, ("ln", ("div", ("add", xm, ("c", R)), ("c", "2.718281828459045"))))))
    C = (prog.consts.get("sfs_core::utils::gamma::LN_2_SQRT_E_OVER_PI") or {}).get("val") or {}
    R = (prog.consts.get("sfs_core::utils::gamma::R") or {}).get("val") or {}
    w = want(C.get("f"), R.get("f"))
    consts_ok = C.get("f") == "0.6207822376352452" and R.get("f") == "10.900511"
    # the coefficients d_0..d_10 of that approximation (g = 10.900511, n = 11; as published with it)
    DK_REF = ["2.4857408913875355e-5", "1.0514237858172197", "-3.4568709722201625", "4.512277094668948", "-2.9828522532357664", "1.056397115771267",
              "-0.19542877319164587", "0.01709705434044412", "-0.0005719261174043057", "4.633994733599057e-6", "-2.7199490848860772e-9"]
    dk = ((prog.consts.get("sfs_core::utils::gamma::DK") or {}).get("val") or {}).get("floats")
    dk_ok = dk is not None and [x.get("f") for x in dk] == DK_REF
    consts_ok = consts_ok and dk_ok
    ok = got == w and consts_ok
    if got != w and "'?'" in repr(got) and consts_ok:
        # the expression uses a construct this reader does not model (a series summed by a loop in a helper, ..): nothing is concluded
        # about its form; the constants are still pinned
        return None, "the x >= 0.5 expression is written in a form that is not read (%s); the constants equal the reviewed ones" % (
            [x for x in repr(got).split("('?', ")[1:2]],)
    return ok, "expression matches=%s; ln(2 sqrt(e/pi)) = %s, r = %s (reviewed values 0.6207822376352452, 10.900511), the 11 coefficients equal the reviewed table=%s: %s%s" % (
        got == w, C.get("f"), R.get("f"), dk_ok, consts_ok, "" if got == w else "; found %s" % (got,))


def _gterm_rv(prog, g, rv, env):
    k = rv["k"]
    if k == "use":
        return _gterm(prog, g, rv["op"], env)
    if k == "binop":
        o = rv["op"].replace("WithOverflow", "").lower()
        return (o, _gterm(prog, g, rv["l"], env), _gterm(prog, g, rv["r"], env))
    return ("?", k)
