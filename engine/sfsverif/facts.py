"""Fact loading and the shared analyses of DESIGN.md section 3 (CFG, dominators, places,
def-use, backward slices, call graph).  Pure python3 stdlib."""
import json, os, sys, hashlib, subprocess, time
from collections import defaultdict, deque

HERE = os.path.dirname(os.path.abspath(__file__))
VERIF = os.path.dirname(os.path.dirname(HERE))
REPO = os.environ.get("SFS_REPO", "/repo")
CACHE = os.path.join(VERIF, ".cache")


# ------------------------------------------------------------------------------------
# places / operands
# ------------------------------------------------------------------------------------
def P(pl):
    """Normal form of a place: (local, ((kind, a, b...), ...))"""
    proj = []
    for e in pl["p"]:
        k = e[0]
        if k == "field":
            proj.append(("field", e[1], e[2], e[3]))
        elif k == "deref":
            proj.append(("deref",))
        elif k == "index":
            proj.append(("index", e[1]))
        elif k == "downcast":
            proj.append(("downcast", e[1], e[2]))
        elif k == "constindex":
            proj.append(("constindex", e[1], e[2], e[3]))
        elif k == "subslice":
            proj.append(("subslice", e[1], e[2], e[3]))
        else:
            proj.append((k,))
    return (pl["l"], tuple(proj))


def pstr(p):
    l, proj = p
    s = "_%d" % l
    for e in proj:
        if e[0] == "deref":
            s = "(*%s)" % s
        elif e[0] == "field":
            s = "%s.%s" % (s, e[2] if e[2] is not None else e[1])
        elif e[0] == "index":
            s = "%s[_%d]" % (s, e[1])
        elif e[0] == "downcast":
            s = "(%s as %s)" % (s, e[1])
        elif e[0] == "constindex":
            s = "%s[%s%d of %d]" % (s, "-" if e[3] else "", e[1], e[2])
        elif e[0] == "subslice":
            s = "%s[%d..%s%d]" % (s, e[1], "-" if e[3] else "", e[2])
        else:
            s = "%s.?%s" % (s, e[0])
    return s


def op_place(op):
    if op is None:
        return None
    if op["k"] in ("copy", "move"):
        return P(op["place"])
    return None


def op_local(op):
    """local if operand is a bare local copy/move"""
    p = op_place(op)
    if p is not None and not p[1]:
        return p[0]
    return None


def op_const(op):
    if op is not None and op["k"] == "const":
        return op
    return None


def const_val(op):
    c = op_const(op)
    if c is None:
        return None
    return c.get("val")


def ostr(op):
    if op["k"] in ("copy", "move"):
        return ("move " if op["k"] == "move" else "") + pstr(P(op["place"]))
    if op["k"] == "const":
        if "fn" in op:
            return "fn:" + op["fn"]
        if "closure" in op:
            return "closure:" + op["closure"]
        v = op.get("val")
        if v is not None and not isinstance(v, (dict, list)):
            return "const %s" % (json.dumps(v))
        if isinstance(v, dict) and "str" in v:
            return "const %s" % json.dumps(v["str"])
        if isinstance(v, dict) and "f" in v:
            return "const %sf" % v["f"]
        if "promoted" in op:
            return "promoted[%d]" % op["promoted"]
        return "const<%s>" % op["disp"]
    return "?" + op["k"]


def rvstr(rv):
    k = rv["k"]
    if k == "use":
        return ostr(rv["op"])
    if k == "ref":
        return ("&mut " if rv["mut"] else "&") + pstr(P(rv["place"]))
    if k == "rawptr":
        return "&raw " + pstr(P(rv["place"]))
    if k == "binop":
        return "%s(%s, %s)" % (rv["op"], ostr(rv["l"]), ostr(rv["r"]))
    if k == "unop":
        return "%s(%s)" % (rv["op"], ostr(rv["operand"]))
    if k == "cast":
        return "%s as %s [%s]" % (ostr(rv["op"]), rv["ty"], rv["kind"])
    if k == "discr":
        return "discriminant(%s)" % pstr(P(rv["place"]))
    if k == "aggregate":
        ak = rv["akind"]
        ops = ", ".join(ostr(o) for o in rv["ops"])
        if ak == "adt":
            return "%s::%s(%s)" % (rv["adt"], rv["variant"], ops)
        if ak == "closure":
            return "closure %s [%s]" % (rv["closure"], ops)
        return "%s(%s)" % (ak, ops)
    if k == "repeat":
        return "[%s; %s]" % (ostr(rv["op"]), rv["n"])
    return "?%s %s" % (k, rv.get("dbg", ""))


# ------------------------------------------------------------------------------------
# function wrapper
# ------------------------------------------------------------------------------------
class Fn:
    def __init__(self, raw, crate):
        self.raw = raw
        self.crate = crate
        self.path = raw["path"]
        self.name = raw["name"]
        self.kind = raw["kind"]
        self.blocks = raw["blocks"]
        self.locals = raw["locals"]
        self.argc = raw["argc"]
        self.file = raw["span"]["file"]
        self.line = raw["span"]["line"]
        self.derived = raw["derived"]
        self.impl_of = raw["impl_of"]
        self.encl = raw["encl"]
        self.vis = raw["vis"]
        self.from_expansion = raw["span"]["exp"]
        self._succ = None
        self._pred = None
        self._dom = None
        self._pdom = None
        self._defs = None
        self._ptr = None

    # -- CFG over non-cleanup blocks ------------------------------------------------
    def term(self, b):
        return self.blocks[b]["term"]

    def succs_of(self, b, include_unwind=False):
        t = self.blocks[b]["term"]
        k = t["k"]
        out = []
        if k == "goto":
            out = [t["target"]]
        elif k == "switch":
            out = [a[1] for a in t["arms"]] + [t["otherwise"]]
        elif k in ("call", "drop", "assert"):
            if t.get("target") is not None:
                out = [t["target"]]
            if include_unwind and isinstance(t.get("unwind"), int):
                out.append(t["unwind"])
        # dedupe preserving order
        seen = []
        for x in out:
            if x not in seen:
                seen.append(x)
        return seen

    @property
    def succ(self):
        if self._succ is None:
            self._succ = {}
            for b in range(len(self.blocks)):
                if self.blocks[b]["cleanup"]:
                    continue
                self._succ[b] = [s for s in self.succs_of(b) if not self.blocks[s]["cleanup"]]
            # restrict to blocks reachable from entry
            reach = set()
            st = [0]
            while st:
                x = st.pop()
                if x in reach:
                    continue
                reach.add(x)
                st.extend(self._succ.get(x, []))
            self._succ = {b: s for b, s in self._succ.items() if b in reach}
        return self._succ

    @property
    def pred(self):
        if self._pred is None:
            self._pred = defaultdict(list)
            for b, ss in self.succ.items():
                for s in ss:
                    self._pred[s].append(b)
        return self._pred

    def nodes(self):
        return sorted(self.succ.keys())

    def _dominators(self, entry_nodes, succ, pred, nodes):
        # classic iterative set-based dominators (graphs are tiny)
        allset = set(nodes)
        dom = {n: set(allset) for n in nodes}
        for e in entry_nodes:
            dom[e] = {e}
        changed = True
        order = list(nodes)
        while changed:
            changed = False
            for n in order:
                if n in entry_nodes:
                    continue
                ps = [p for p in pred.get(n, []) if p in dom]
                if ps:
                    new = set.intersection(*[dom[p] for p in ps])
                else:
                    new = set()
                new = new | {n}
                if new != dom[n]:
                    dom[n] = new
                    changed = True
        return dom

    @property
    def dom(self):
        """dom[b] = set of blocks dominating b (incl. b)"""
        if self._dom is None:
            self._dom = self._dominators([0], self.succ, self.pred, self.nodes())
        return self._dom

    @property
    def pdom(self):
        """post-dominators w.r.t. normal exits (return) and diverging blocks; a virtual
        exit node -1 joins every block without successors."""
        if self._pdom is None:
            nodes = self.nodes() + [-1]
            rsucc = defaultdict(list)  # reversed graph: succ in reversed = pred in orig
            rpred = defaultdict(list)
            for b, ss in self.succ.items():
                if not ss:
                    # exit block -> virtual exit
                    rsucc[-1].append(b)
                    rpred[b].append(-1)
                for s in ss:
                    rsucc[s].append(b)
                    rpred[b].append(s)
            self._pdom = self._dominators([-1], rsucc, rpred, nodes)
        return self._pdom

    def dominates(self, a, b):
        return a in self.dom.get(b, ())

    def postdominates(self, a, b):
        return a in self.pdom.get(b, ())

    def reachable_from(self, b, avoid=()):
        seen = set()
        st = [b]
        while st:
            x = st.pop()
            if x in seen or x in avoid:
                continue
            seen.add(x)
            st.extend(self.succ.get(x, []))
        return seen

    def reaches(self, a, b):
        """is there a path of length >= 1 from block a to block b?"""
        for s in self.succ.get(a, []):
            if b in self.reachable_from(s):
                return True
        return False

    def edge_dominates(self, src, dst, b):
        """does the CFG edge src->dst dominate block b?  (every path entry->b uses the edge)"""
        if dst not in self.succ.get(src, []):
            return False
        # remove the edge and test reachability of b from entry
        seen = set()
        st = [0]
        while st:
            x = st.pop()
            if x in seen:
                continue
            seen.add(x)
            for s in self.succ.get(x, []):
                if x == src and s == dst:
                    continue
                st.append(s)
        return b not in seen and b in self.succ

    def return_blocks(self):
        return [b for b in self.nodes() if self.term(b)["k"] == "return"]

    # -- statements -------------------------------------------------------------------
    def stmts(self, b):
        return self.blocks[b]["stmts"]

    def assigns(self):
        """yield (bb, idx, place, rvalue, stmt) over non-cleanup reachable blocks"""
        for b in self.nodes():
            for i, s in enumerate(self.blocks[b]["stmts"]):
                if s["k"] == "assign":
                    yield b, i, P(s["place"]), s["rv"], s

    def calls(self):
        """yield (bb, term) for every call terminator in reachable non-cleanup blocks"""
        for b in self.nodes():
            t = self.blocks[b]["term"]
            if t["k"] == "call":
                yield b, t

    def asserts(self):
        for b in self.nodes():
            t = self.blocks[b]["term"]
            if t["k"] == "assert":
                yield b, t

    def switches(self):
        for b in self.nodes():
            t = self.blocks[b]["term"]
            if t["k"] == "switch":
                yield b, t

    # -- def-use ----------------------------------------------------------------------
    @property
    def defs(self):
        """defs[local] = list of ('assign', bb, idx, rv) | ('call', bb, term) for whole-local defs"""
        if self._defs is None:
            d = defaultdict(list)
            for b in self.nodes():
                for i, s in enumerate(self.blocks[b]["stmts"]):
                    if s["k"] == "assign":
                        p = P(s["place"])
                        if not p[1]:
                            d[p[0]].append(("assign", b, i, s["rv"]))
                        elif p[1][0] != ("deref",):
                            # a store through a pointer does not (re)define the pointer local itself
                            d[p[0]].append(("partial", b, i, s["rv"], p))
                t = self.blocks[b]["term"]
                if t["k"] == "call":
                    p = P(t["dest"])
                    if not p[1]:
                        d[p[0]].append(("call", b, t))
                    elif p[1][0] != ("deref",):
                        d[p[0]].append(("partialcall", b, t, p))
            self._defs = d
        return self._defs

    def single_def(self, local):
        ds = [x for x in self.defs.get(local, []) if x[0] in ("assign", "call")]
        allds = self.defs.get(local, [])
        if len(ds) == 1 and len(allds) == 1:
            return ds[0]
        return None

    def resolve_ptr(self, local, depth=0):
        """if `local` is a single-def temporary holding &place / &mut place (possibly through
        copies/reborrows), return the pointee place in terms of root locals; else None."""
        if depth > 12:
            return None
        d = self.single_def(local)
        if d is None or d[0] != "assign":
            return None
        rv = d[3]
        if rv["k"] in ("ref", "rawptr"):
            return self.canon(P(rv["place"]), depth + 1)
        if rv["k"] == "use":
            p = op_place(rv["op"])
            if p is not None and not p[1]:
                return self.resolve_ptr(p[0], depth + 1)
        if rv["k"] == "cast" and rv["kind"].startswith("PointerCoercion"):
            p = op_place(rv["op"])
            if p is not None and not p[1]:
                return self.resolve_ptr(p[0], depth + 1)
        return None

    def canon(self, p, depth=0):
        """rewrite (*_t).f... where _t is a reborrow temporary into the root place"""
        l, proj = p
        if proj and proj[0] == ("deref",) and l > self.argc:
            base = self.resolve_ptr(l, depth + 1)
            if base is not None:
                return (base[0], base[1] + proj[1:])
        return p

    def copy_root(self, local, depth=0):
        """follow `_a = move _b` / `copy _b` chains of single-def temporaries"""
        if depth > 16:
            return local
        d = self.single_def(local)
        if d and d[0] == "assign" and d[3]["k"] == "use":
            l2 = op_local(d[3]["op"])
            if l2 is not None:
                return self.copy_root(l2, depth + 1)
            # `let (a, b) = (x, y);`: a field read of a tuple built once from plain values is that value
            pl = op_place(d[3]["op"])
            if pl is not None and len(pl[1]) == 1 and pl[1][0][0] == "field":
                td = self.single_def(self.copy_root(pl[0], depth + 1))
                if td and td[0] == "assign" and td[3]["k"] == "aggregate" and td[3].get("akind") == "tuple" and pl[1][0][1] < len(td[3]["ops"]):
                    l3 = op_local(td[3]["ops"][pl[1][0][1]])
                    if l3 is not None:
                        return self.copy_root(l3, depth + 1)
        return local

    # -- slices -------------------------------------------------------------------------
    def mut_calls(self):
        """{local: [(bb, call term)]}: calls that receive `&mut local` (or a reborrow of it) and may therefore write it (`v.push(x)`)"""
        if getattr(self, "_mutcalls", None) is None:
            m = {}
            for b, t in self.calls():
                for a in t["args"]:
                    l = op_local(a)
                    if l is None or not self.local_ty(l).startswith("&mut"):
                        continue
                    tgt = self.resolve_ptr(l)
                    # the whole local (or what it points to) is borrowed: `v.push(x)`; a borrow of one field (`self.writer`) says
                    # nothing about the other fields and is not attributed to the local
                    if tgt is not None and all(e[0] == "deref" for e in tgt[1]):
                        m.setdefault(tgt[0], []).append((b, t))
            self._mutcalls = m
        return self._mutcalls

    def slice_locals(self, op_or_local, through_calls=True, stop=None, maxn=4000, mut_calls=False):
        """backward slice: set of locals the operand (transitively) depends on.  Crossing
        calls: result depends on all arguments.  `stop(local)` prunes.  With mut_calls, a local also depends on the
        arguments of every call that borrows it mutably (`v.push(x)` makes v depend on x)."""
        seen = set()
        work = []
        info = {"calls": [], "consts": [], "binops": [], "fields": set()}
        if isinstance(op_or_local, int):
            work.append(op_or_local)
        else:
            self._op_deps(op_or_local, work, info)
        while work and len(seen) < maxn:
            l = work.pop()
            if l in seen:
                continue
            seen.add(l)
            if stop and stop(l):
                continue
            for d in self.defs.get(l, []):
                if d[0] in ("assign", "partial"):
                    self._rv_deps(d[3], work, info)
                elif d[0] in ("call", "partialcall") and through_calls:
                    t = d[2]
                    info["calls"].append((d[1], t))
                    for a in t["args"]:
                        self._op_deps(a, work, info)
            if mut_calls and through_calls and (mut_calls is True or mut_calls(l)):
                for b, t in self.mut_calls().get(l, []):
                    if (b, t) not in info["calls"]:
                        info["calls"].append((b, t))
                        for a in t["args"]:
                            self._op_deps(a, work, info)
        return seen, info

    def _place_deps(self, p, work, info):
        """field-sensitive for single-def tuple/array/struct aggregates: `_t.i` depends on operand i only"""
        l, proj = p
        for e in proj:
            if e[0] == "index":
                work.append(e[1])
            if e[0] == "field":
                info["fields"].add((e[3], e[2]))
        if proj and proj[0][0] == "field":
            d = self.single_def(l)
            if d and d[0] == "assign" and d[3]["k"] == "aggregate" and d[3]["akind"] in ("tuple", "array", "closure"):
                idx = proj[0][1]
                ops = d[3]["ops"]
                if idx < len(ops):
                    info.setdefault("via_aggregate", []).append(l)
                    self._op_deps(ops[idx], work, info)
                    return
        work.append(l)

    def _op_deps(self, op, work, info):
        if op["k"] in ("copy", "move"):
            self._place_deps(P(op["place"]), work, info)
        elif op["k"] == "const":
            info["consts"].append(op)

    def _rv_deps(self, rv, work, info):
        k = rv["k"]
        if k in ("use", "cast", "repeat"):
            self._op_deps(rv["op"], work, info)
        elif k in ("ref", "rawptr", "discr"):
            self._place_deps(P(rv["place"]), work, info)
        elif k == "binop":
            info["binops"].append(rv)
            self._op_deps(rv["l"], work, info)
            self._op_deps(rv["r"], work, info)
        elif k == "unop":
            self._op_deps(rv["operand"], work, info)
        elif k == "aggregate":
            for o in rv["ops"]:
                self._op_deps(o, work, info)

    # -- misc -----------------------------------------------------------------------------
    def loc(self, b=None):
        if b is None:
            return "%s:%d" % (self.file, self.line)
        return "%s:%d" % (self.file, self.blocks[b]["term"]["line"])

    def stmt_loc(self, b, i):
        return "%s:%d" % (self.file, self.blocks[b]["stmts"][i].get("line", 0))

    def local_ty(self, l):
        return self.locals[l]["ty"]

    def pp(self, out=sys.stdout, cleanup=False):
        print("fn %s  [%s:%d] argc=%d" % (self.path, self.file, self.line, self.argc), file=out)
        for i, l in enumerate(self.locals):
            nm = (" // " + l["name"]) if l["name"] else ""
            print("    let _%d: %s;%s" % (i, l["ty"], nm), file=out)
        for b, blk in enumerate(self.blocks):
            if blk["cleanup"] and not cleanup:
                continue
            print("  bb%d%s:" % (b, " (cleanup)" if blk["cleanup"] else ""), file=out)
            for s in blk["stmts"]:
                if s["k"] == "assign":
                    print("      %s = %s;   // L%s" % (pstr(P(s["place"])), rvstr(s["rv"]), s.get("line")), file=out)
                elif s["k"] == "setdiscr":
                    print("      discriminant(%s) = %d;" % (pstr(P(s["place"])), s["variant"]), file=out)
            t = blk["term"]
            k = t["k"]
            if k == "goto":
                ts = "goto -> bb%d" % t["target"]
            elif k == "switch":
                ts = "switchInt(%s) -> [%s, otherwise: bb%d]" % (
                    ostr(t["discr"]), ", ".join("%d: bb%d" % (a[0], a[1]) for a in t["arms"]), t["otherwise"])
            elif k == "call":
                c = t["callee"]
                nm = c.get("full") or c.get("path") or ("indirect " + c.get("indirect_ty", ""))
                res = c.get("resolved_full")
                if res and res != nm:
                    nm += "  {=> %s}" % res
                ts = "%s = %s(%s) -> %s" % (pstr(P(t["dest"])), nm, ", ".join(ostr(a) for a in t["args"]),
                                            ("bb%d" % t["target"]) if t["target"] is not None else "!")
            elif k == "assert":
                m = t["msg"]
                ts = "assert(%s%s, %s %s) -> bb%d" % ("" if t["expected"] else "!", ostr(t["cond"]), m["kind"],
                                                     " ".join(ostr(m[x]) for x in ("len", "index", "l", "r") if x in m) + (" " + m.get("op", "")), t["target"])
            elif k == "drop":
                ts = "drop(%s) -> bb%d" % (pstr(P(t["place"])), t["target"])
            else:
                ts = k
            print("      %s   // L%s" % (ts, t.get("line")), file=out)


# ------------------------------------------------------------------------------------
# program = both crates
# ------------------------------------------------------------------------------------
class Program:
    def __init__(self, factdir):
        self.factdir = factdir
        self.crates = {}
        self.fns = {}
        self.fn_list = []
        self.adts = {}
        self.impls = []
        self.consts = {}
        self.traits = {}
        raws = {}
        for fname, key in (("sfs_core.lib.json", "sfs_core"), ("sfs.bin.json", "sfs")):
            path = os.path.join(factdir, fname)
            with open(path) as fh:
                raws[key] = json.load(fh)
        self.canon_report = {"renamed": [], "inlined": [], "new_functions_kept": [], "gone": {}}
        if not os.environ.get("SFSVERIF_NO_CANON"):
            import canon
            raws, self.canon_report = canon.canonicalise(raws)
        for key in ("sfs_core", "sfs"):
            raw = raws[key]
            self.crates[key] = raw
            for f in raw["fns"]:
                fn = Fn(f, key)
                if fn.path in self.fns:
                    # closures etc. have unique paths; generic dup should not happen
                    fn.path = fn.path + "#dup"
                self.fns[fn.path] = fn
                self.fn_list.append(fn)
            for a in raw["adts"]:
                self.adts[a["path"]] = a
            for i in raw["impls"]:
                i["crate"] = key
                self.impls.append(i)
            for c in raw["consts"]:
                self.consts[c["path"]] = c
            for t in raw["traits"]:
                self.traits[t["path"]] = t
        self.entry = "sfs::main"
        self._cg = None

    def fn(self, path):
        f = self.fns.get(path)
        if f is None:
            # an inventoried helper that was merged into its only caller: the caller's body is where its code now lives
            callers = (self.canon_report.get("gone") or {}).get(path)
            if callers and len(callers) == 1:
                return self.fns.get(callers[0])
        return f

    def find(self, suffix):
        """functions whose path ends with suffix (on a :: boundary)"""
        out = []
        for p, f in self.fns.items():
            if p == suffix or p.endswith("::" + suffix) or p.endswith(suffix) and suffix.startswith("<"):
                out.append(f)
        return out

    def closures_of(self, path):
        return [f for f in self.fn_list if f.kind == "Closure" and f.encl == path]

    def impl_methods(self, trait_path, name):
        """local functions implementing trait method `name`"""
        out = []
        for f in self.fn_list:
            io = f.impl_of
            if io and io.get("trait") == trait_path and f.name == name and f.kind != "Closure":
                out.append(f)
        return out

    def trait_default(self, trait_path, name):
        for f in self.fn_list:
            io = f.impl_of
            if io and io.get("trait_default") == trait_path and f.name == name and f.kind != "Closure":
                return f
        return None

    # -- call graph ---------------------------------------------------------------------
    def call_targets(self, fn, t):
        """workspace functions a call terminator may reach (DESIGN 3.4)"""
        c = t["callee"]
        out = []
        path = c.get("path")
        if path is None:
            return out
        res = c.get("resolved")
        if res and res in self.fns and not c.get("virtual"):
            out.append(self.fns[res])
            return out
        tr = c.get("trait")
        if tr and tr in self.traits:
            # unresolved or virtual call to a workspace trait method -> all impls (+ default)
            name = path.split("::")[-1]
            ims = self.impl_methods(tr, name)
            out.extend(ims)
            d = self.trait_default(tr, name)
            if d is not None:
                out.append(d)
            return out
        if path in self.fns:
            out.append(self.fns[path])
        return out

    @property
    def callgraph(self):
        if self._cg is None:
            cg = defaultdict(set)
            adt_impl_fns = defaultdict(list)  # adt path -> trait-impl methods
            for f in self.fn_list:
                io = f.impl_of
                if io and io.get("trait") and io.get("self_adt") and f.kind != "Closure":
                    adt_impl_fns[io["self_adt"]].append(f)
            adt_paths = sorted(self.adts.keys(), key=len, reverse=True)
            for f in self.fn_list:
                for b, t in f.calls():
                    for g in self.call_targets(f, t):
                        cg[f.path].add(g.path)
                    c = t["callee"]
                    # fn items / closures passed as values
                    for a in t["args"]:
                        if a["k"] == "const":
                            if a.get("fn") in self.fns:
                                cg[f.path].add(a["fn"])
                            elif a.get("fn"):
                                self._escape_fn_value(f, a, cg)
                    # workspace ADTs escaping into external generic code
                    if c.get("path") and not c.get("local"):
                        for ga in c.get("args", []):
                            for ap in adt_paths:
                                if ap in ga:
                                    for m in adt_impl_fns.get(ap, []):
                                        cg[f.path].add(m.path)
                # closures and fn items mentioned anywhere in the body
                for b, i, p, rv, s in f.assigns():
                    if rv["k"] == "aggregate" and rv["akind"] == "closure":
                        if rv["closure"] in self.fns:
                            cg[f.path].add(rv["closure"])
                    for op in rv_operands(rv):
                        if op["k"] == "const":
                            if op.get("fn") in self.fns:
                                cg[f.path].add(op["fn"])
                            elif op.get("fn"):
                                self._escape_fn_value(f, op, cg)
                            if op.get("closure") in self.fns:
                                cg[f.path].add(op["closure"])
                    if rv["k"] == "cast" and "Unsize" in rv["kind"]:
                        for ap in adt_paths:
                            if ap in rv["from"]:
                                for m in adt_impl_fns.get(ap, []):
                                    cg[f.path].add(m.path)
                # closure bodies belong to their parent
                for c in self.closures_of(f.path):
                    cg[f.path].add(c.path)
            self._cg = cg
        return self._cg

    def _escape_fn_value(self, f, op, cg):
        """a trait-method fn item used as a value, e.g. `.map(Into::into)`, `.map(Scs::from)`:
        resolve through the trait to workspace impls by self type when possible"""
        fnp = op["fn"]
        name = fnp.split("::")[-1]
        args = op.get("fn_args", [])
        for g in self.fn_list:
            io = g.impl_of
            if not io or not io.get("trait") or g.name != name or g.kind == "Closure":
                continue
            tr = io["trait"]
            if fnp == tr + "::" + name:
                # match on self type text when available
                if args and io.get("self_ty") and (io["self_ty"] == args[0] or io.get("self_adt") and io["self_adt"] in args[0]):
                    cg[f.path].add(g.path)

    def reachable(self, entries):
        seen = set()
        st = list(entries)
        parent = {}
        while st:
            x = st.pop()
            if x in seen:
                continue
            seen.add(x)
            for y in self.callgraph.get(x, ()):
                if y not in seen:
                    parent.setdefault(y, x)
                    st.append(y)
        return seen, parent

    def callers_of(self, path):
        """(fn, bb, term) for every call whose possible targets include path"""
        out = []
        for f in self.fn_list:
            for b, t in f.calls():
                for g in self.call_targets(f, t):
                    if g.path == path:
                        out.append((f, b, t))
        return out

    def calls_to(self, pred):
        """(fn, bb, term) for every call whose callee path/resolved satisfies pred(callee dict)"""
        out = []
        for f in self.fn_list:
            for b, t in f.calls():
                if pred(t["callee"]):
                    out.append((f, b, t))
        return out


def rv_operands(rv):
    k = rv["k"]
    if k in ("use", "cast", "repeat"):
        return [rv["op"]]
    if k == "binop":
        return [rv["l"], rv["r"]]
    if k == "unop":
        return [rv["operand"]]
    if k == "aggregate":
        return list(rv["ops"])
    return []


def callee_name(c):
    """best path for a callee: resolved impl when known, else declared path"""
    return c.get("resolved") or c.get("path") or ""


def callee_is(c, *names):
    """does the callee (declared or resolved) equal one of the given def paths?"""
    return (c.get("path") in names) or (c.get("resolved") in names)


# ------------------------------------------------------------------------------------
# fact acquisition (freshness keyed by source hash)
# ------------------------------------------------------------------------------------
def tree_hash(repo):
    h = hashlib.sha256()
    files = []
    for root, dirs, fs in os.walk(repo):
        dirs[:] = sorted(d for d in dirs if d not in ("target", ".git"))
        for f in sorted(fs):
            files.append(os.path.join(root, f))
    for p in files:
        rel = os.path.relpath(p, repo)
        if not (rel.endswith(".rs") or rel.endswith(".toml") or rel.endswith(".lock")):
            continue
        h.update(rel.encode())
        h.update(b"\0")
        try:
            with open(p, "rb") as fh:
                h.update(fh.read())
        except OSError:
            pass
        h.update(b"\0")
    drv = os.path.join(VERIF, "engine", "sfsmir", "target", "release", "sfsmir")
    try:
        with open(drv, "rb") as fh:
            h.update(hashlib.sha256(fh.read()).digest())
    except OSError:
        h.update(b"nodriver")
    return h.hexdigest()[:24]


def get_facts(repo=None, verbose=True):
    """returns (Program, info) for the repo's *current* working tree, re-running the driver
    unless facts for exactly this tree (content hash) are cached.  Safe under concurrent runs: extraction and pruning happen under one
    lock, a cache entry that disappears between the freshness test and the load (pruned by another process) is extracted again."""
    repo = repo or REPO
    t0 = time.time()
    key = tree_hash(repo)
    fdir = os.path.join(CACHE, "facts", key)
    names = ("sfs_core.lib.json", "sfs.bin.json", "OK")
    ran = False
    last = None
    for attempt in range(3):
        ok = all(os.path.exists(os.path.join(fdir, n)) for n in names)
        if not ok:
            os.makedirs(fdir, exist_ok=True)
            import fcntl
            lock = open(os.path.join(CACHE, "extract.lock"), "w")
            fcntl.flock(lock, fcntl.LOCK_EX)
            try:
                os.makedirs(fdir, exist_ok=True)
                ok = all(os.path.exists(os.path.join(fdir, n)) for n in names)
                if not ok:
                    tgt = os.path.join(CACHE, "target")
                    r = subprocess.run([os.path.join(VERIF, "engine", "extract.sh"), repo, fdir, tgt],
                                       stdout=subprocess.PIPE, stderr=subprocess.STDOUT, text=True)
                    if r.returncode != 0:
                        raise FactError("fact extraction failed (exit %d):\n%s" % (r.returncode, r.stdout[-3000:]))
                    with open(os.path.join(fdir, "OK"), "w") as fh:
                        fh.write(key)
                    ran = True
                    _prune_cache(os.path.join(CACHE, "facts"), keep=key)
            finally:
                fcntl.flock(lock, fcntl.LOCK_UN)
                lock.close()
        try:
            os.utime(fdir, None)   # recently used: not a candidate for pruning
        except OSError:
            pass
        try:
            prog = Program(fdir)
            break
        except (FileNotFoundError, json.JSONDecodeError) as e:
            last = e
            try:
                os.remove(os.path.join(fdir, "OK"))
            except OSError:
                pass
            continue
    else:
        raise FactError("facts for this tree could not be loaded after three attempts: %s" % last)
    info = {"key": key, "factdir": fdir, "driver_ran": ran, "wall_s": round(time.time() - t0, 2)}
    return prog, info


def _prune_cache(root, keep, maxn=6):
    try:
        ds = [os.path.join(root, d) for d in os.listdir(root)]
        ds = [d for d in ds if os.path.isdir(d) and os.path.basename(d) != keep]
        ds.sort(key=lambda d: os.path.getmtime(d))
        import shutil
        now = time.time()
        for d in ds[:-maxn] if len(ds) > maxn else []:
            # entries another process touched in the last ten minutes may be in use
            if now - os.path.getmtime(d) < 600:
                continue
            shutil.rmtree(d, ignore_errors=True)
    except OSError:
        pass


class FactError(Exception):
    pass
