"""C17 / C19: panic-site inventory, contracts, definite-failure rule, iterator obligations."""
import re, json, os
from facts import P, pstr, op_place, op_local, op_const, const_val, ostr, rvstr, callee_is, callee_name, rv_operands
import an
import names as N


def _root_defs_const(f, local, depth=0):
    """all (root local, bb, const value) definitions reaching `local` through copy chains; value None for non-constant defs"""
    out = []
    if depth > 6:
        return [(local, None, None)]
    for d in f.defs.get(local, []):
        if d[0] == "assign":
            rv = d[3]
            if rv["k"] == "use":
                cv = const_val(rv["op"])
                if isinstance(cv, int) and not isinstance(cv, bool):
                    out.append((local, d[1], cv))
                    continue
                l2 = op_local(rv["op"])
                if l2 is not None and len(f.defs.get(local, [])) == 1:
                    out.extend(_root_defs_const(f, l2, depth + 1))
                    continue
            out.append((local, d[1], None))
        else:
            out.append((local, d[1], None))
    return out


def definite_failures(chk, f):
    """DESIGN 3.6 definite-failure rule, constant case: an overflow/bounds assert whose failing condition is implied
    by a constant assigned on a feasible path that reaches the assert without redefinition.  Returns messages."""
    msgs = []
    for b, t in f.asserts():
        m = t["msg"]
        if m["kind"] == "Overflow" and m["op"] in ("Sub",):
            c = const_val(m["r"])
            l = op_local(m["l"])
            if not isinstance(c, int) or l is None:
                continue
            for rl, db, k in _root_defs_const(f, l):
                if k is None or db is None:
                    continue
                if k < c:
                    # path from db to b avoiding the other definitions of the root local
                    others = {d[1] for d in f.defs.get(rl, [])} - {db}
                    if (b in f.reachable_from(db, avoid=others) and b != db) or db == b:
                        msgs.append("%s: `%s - %d` must overflow on the path through %s where the operand is the constant %d" % (f.loc(b), pstr((l, ())), c, f.loc(db), k))
        if m["kind"] == "BoundsCheck":
            il = op_local(m["index"])
            ln = op_local(m["len"])
            if il is None:
                continue
            # index defined as (x - c) where x may be a constant < c was reported above; here: constant index vs constant len
            ic = an.const_of(f, m["index"])
            lc = an.const_of(f, m["len"])
            if ic is not None and lc is not None and isinstance(ic.get("val"), int) and isinstance(lc.get("val"), int) and ic["val"] >= lc["val"]:
                msgs.append("%s: constant index %d out of bounds for constant length %d" % (f.loc(b), ic["val"], lc["val"]))
    return msgs


# ------------------------------------------------------------------------------------
# site enumeration (DESIGN 3.6)
# ------------------------------------------------------------------------------------
PSET_EXACT = {
    "core::option::Option::<T>::unwrap", "core::option::Option::<T>::expect",
    "core::result::Result::<T, E>::unwrap", "core::result::Result::<T, E>::expect",
    "core::result::Result::<T, E>::unwrap_err", "core::result::Result::<T, E>::expect_err",
    "core::ops::index::Index::index", "core::ops::index::IndexMut::index_mut",
    "core::slice::<impl [T]>::split_at", "core::slice::<impl [T]>::split_at_mut", "core::slice::<impl [T]>::copy_from_slice",
    "core::slice::<impl [T]>::clone_from_slice", "core::slice::<impl [T]>::swap", "core::slice::<impl [T]>::windows",
    "core::slice::<impl [T]>::chunks", "core::slice::<impl [T]>::chunks_exact", "core::slice::<impl [T]>::rotate_left", "core::slice::<impl [T]>::rotate_right",
    "core::str::<impl str>::split_at",
    "alloc::vec::Vec::<T, A>::remove", "alloc::vec::Vec::<T, A>::insert", "alloc::vec::Vec::<T, A>::swap_remove", "alloc::vec::Vec::<T, A>::split_off",
    "alloc::vec::Vec::<T, A>::drain", "alloc::vec::Vec::<T, A>::truncate_front",
    "alloc::string::String::remove", "alloc::string::String::insert", "alloc::string::String::insert_str", "alloc::string::String::truncate", "alloc::string::String::split_off",
    "core::iter::traits::iterator::Iterator::sum", "core::iter::traits::iterator::Iterator::product", "core::iter::traits::iterator::Iterator::step_by",
    "core::ops::arith::Add::add", "core::ops::arith::Sub::sub", "core::ops::arith::Mul::mul", "core::ops::arith::Div::div", "core::ops::arith::Rem::rem",
    "core::ops::arith::AddAssign::add_assign", "core::ops::arith::SubAssign::sub_assign", "core::ops::arith::MulAssign::mul_assign",
    "core::ops::arith::DivAssign::div_assign", "core::ops::arith::RemAssign::rem_assign", "core::ops::arith::Neg::neg",
    "core::cell::RefCell::<T>::borrow", "core::cell::RefCell::<T>::borrow_mut",
    "core::char::methods::<impl char>::to_digit", "core::char::methods::<impl char>::from_digit",
    "core::num::nonzero::NonZero::<T>::new_unchecked",
    "core::iter::traits::iterator::Iterator::max_by", "alloc::slice::<impl [T]>::concat",
    "core::time::Duration::new", "std::time::Instant::duration_since",
    "core::fmt::rt::Argument::<'_>::from_usize",
    "alloc::vec::from_elem", "alloc::vec::Vec::<T>::with_capacity", "alloc::string::String::with_capacity", "alloc::vec::Vec::<T, A>::reserve",
}
PSET_RE = re.compile(r"^core::num::<impl [iu](8|16|32|64|128|size)>::(pow|abs|div_euclid|rem_euclid|next_power_of_two|isqrt|ilog|ilog2|ilog10)$")
PANIC_FNS = ("core::panicking::", "std::rt::begin_panic", "core::option::unwrap_failed", "core::option::expect_failed", "core::result::unwrap_failed", "std::process::abort")
INT_TYS = ("usize", "u8", "u16", "u32", "u64", "u128", "isize", "i8", "i16", "i32", "i64", "i128")
FLOAT_TYS = ("f32", "f64")


def strip_ref(t):
    t = t.strip()
    while t.startswith("&"):
        t = t[1:].lstrip()
        if t.startswith("mut "):
            t = t[4:]
        if t.startswith("'"):
            t = t.split(" ", 1)[1] if " " in t else t
    return t


def is_clap_generated(f):
    io = f.impl_of
    root = f
    return bool(io and io.get("trait") and str(io["trait"]).startswith("clap_builder::") and f.derived)


class Site:
    __slots__ = ("fn", "bb", "kind", "sig", "detail", "term")

    def __init__(self, fn, bb, kind, sig, detail, term):
        self.fn, self.bb, self.kind, self.sig, self.detail, self.term = fn, bb, kind, sig, detail, term

    def loc(self):
        return self.fn.loc(self.bb)


def opdesc(f, op):
    c = an.const_of(f, op)
    if c is not None and not isinstance(c.get("val"), (dict, list)) and c.get("val") is not None:
        return "const %s" % json.dumps(c["val"])
    p = op_place(op)
    if p is not None:
        return f.local_ty(p[0]) if not p[1] else "place"
    return "?"


def enumerate_sites(prog, f):
    """all panic-capable sites of one function body"""
    out = []
    for b, t in f.asserts():
        m = t["msg"]
        k = m["kind"]
        if k == "Overflow":
            lc = an.const_of(f, m["l"])
            rc = an.const_of(f, m["r"])
            ld = "c%s" % json.dumps(lc["val"]) if lc is not None and isinstance(lc.get("val"), int) else "v"
            rd = "c%s" % json.dumps(rc["val"]) if rc is not None and isinstance(rc.get("val"), int) else "v"
            sig = "Overflow(%s %s,%s)" % (m["op"], ld, rd)
        elif k == "BoundsCheck":
            ic = an.const_of(f, m["index"])
            sig = "BoundsCheck(idx=%s)" % ("c%d" % ic["val"] if ic is not None and isinstance(ic.get("val"), int) else "v")
        else:
            sig = k
        out.append(Site(f, b, "assert", sig, m, t))
    for b, t in f.calls():
        c = t["callee"]
        p = c.get("path")
        if p is None:
            continue
        if p.startswith(PANIC_FNS):
            # message
            msg = ""
            for a in t["args"]:
                s = an.const_str_of(f, a)
                if s:
                    msg = s
            if not msg:
                # panic_fmt(Arguments): look for the literal in the same function feeding it
                l = op_local(t["args"][0]) if t["args"] else None
                d = f.single_def(l) if l is not None else None
                if d and d[0] == "call":
                    for a in d[2]["args"]:
                        s = an.const_str_of(f, a)
                        if s:
                            msg = s
            out.append(Site(f, b, "panic", "panic:%s(%s)" % (p.split("::")[-1], msg[:60]), msg, t))
            continue
        if p in PSET_EXACT or PSET_RE.match(p):
            st = strip_ref(c.get("self_ty") or (c.get("args") or [""])[0])
            args = c.get("args") or []
            nm = p.split("::")[-1]
            # operator traits and sum/product: only integer instances can panic (overflow / division by zero)
            if p.startswith("core::ops::arith::"):
                tys = [strip_ref(a) for a in args[:2]]
                if not any(x in INT_TYS for x in tys):
                    continue
                sig = "call:%s<%s>" % (nm, ",".join(tys))
            elif nm in ("sum", "product"):
                ty = strip_ref(args[1]) if len(args) > 1 else "?"
                if ty not in INT_TYS:
                    continue
                sig = "call:%s<%s>" % (nm, ty)
            elif nm in ("index", "index_mut"):
                idx = args[1] if len(args) > 1 else "?"
                if "RangeFull" in idx:
                    continue
                # workspace Index impls are ordinary workspace functions: the call edge carries their sites
                if c.get("resolved_local") or (c.get("resolved") or "").startswith(("sfs_core::", "sfs::", "<sfs_core::", "<sfs::")):
                    continue
                sig = "call:%s<%s>[%s]" % (nm, _brief(st), _brief(idx))
            else:
                sig = "call:%s<%s>" % (nm, _brief(st))
            out.append(Site(f, b, "pset", sig, p, t))
    return out


def _brief(t):
    t = re.sub(r"sfs_core::(\w+::)*", "", t)
    t = re.sub(r"(core|alloc|std)::(\w+::)*", "", t)
    return t[:70]


# ------------------------------------------------------------------------------------
# local auto-discharge rules
# ------------------------------------------------------------------------------------
def _same_value(f, a, b):
    """do operands a and b denote the same (unmodified) value?  copy-chain equality of locals, or equal constants"""
    ca, cb = an.const_of(f, a), an.const_of(f, b)
    if ca is not None and cb is not None:
        return ca.get("val") == cb.get("val") and ca.get("val") is not None
    la, lb = op_local(a), op_local(b)
    if la is None or lb is None:
        pa, pb = op_place(a), op_place(b)
        return pa is not None and pa == pb
    ra, rb = f.copy_root(la), f.copy_root(lb)
    if ra == rb:
        return True
    # both are single-def copies of the same place (e.g. `_a = (*_1).x; _b = (*_1).x` with no intervening write is NOT assumed)
    da, db = f.single_def(ra), f.single_def(rb)
    if da and db and da[0] == db[0] == "assign" and da[3]["k"] == db[3]["k"] == "use":
        pa, pb = op_place(da[3]["op"]), op_place(db[3]["op"])
        if pa is not None and pa == pb and 1 <= pa[0] <= f.argc and not f.defs.get(pa[0]) and all(e[0] == "field" for e in pa[1]):
            # the same field of a by-value argument that is never written in this function
            return True
    return False


def guarded_sub(f, b, x, y):
    """is `x - y` at block b dominated by a branch edge implying x >= y ?"""
    for sb, st in f.switches():
        s = an.switch_subject(f, sb)
        if s["kind"] != "value" or s["root"] is None:
            continue
        d = f.single_def(s["root"])
        if not (d and d[0] == "assign" and d[3]["k"] == "binop" and d[3]["op"] in ("Gt", "Ge", "Lt", "Le")):
            continue
        op, l, r = d[3]["op"], d[3]["l"], d[3]["r"]
        t_true, t_false = st["otherwise"], an.edge_target(st, 0)
        # conditions under which x >= y is implied
        implied = []
        if _same_value(f, l, x) and _same_value(f, r, y):
            implied = {"Ge": [t_true], "Gt": [t_true], "Lt": [t_false], "Le": []}[op]
        elif _same_value(f, l, y) and _same_value(f, r, x):
            implied = {"Le": [t_true], "Lt": [t_true], "Gt": [t_false], "Ge": []}[op]
        for tgt in implied:
            if an.dominated_by_edge(f, sb, tgt, b):
                return f.loc(sb)
    return None


PRIM_SIZE = {"usize": 8, "isize": 8, "u64": 8, "i64": 8, "f64": 8, "u32": 4, "i32": 4, "f32": 4, "char": 4, "u16": 2, "i16": 2, "u8": 1, "i8": 1, "bool": 1}


def _split_generics(s):
    out, depth, cur = [], 0, ""
    for ch in s:
        if ch in "<([":
            depth += 1
        elif ch in ">)]":
            depth -= 1
        if ch == "," and depth == 0:
            out.append(cur.strip())
            cur = ""
        else:
            cur += ch
    if cur.strip():
        out.append(cur.strip())
    return out


def _ty_size(prog, ty):
    """a LOWER bound on size_of::<ty>() for primitives, references, tuples and workspace structs of those; None if unknown"""
    ty = ty.strip()
    if ty in PRIM_SIZE:
        return PRIM_SIZE[ty]
    if ty.startswith("&") or ty.startswith("*"):
        return 8
    if ty.startswith("(") and ty.endswith(")"):
        parts = [_ty_size(prog, x) for x in _split_generics(ty[1:-1])]
        return sum(parts) if parts and all(x is not None for x in parts) else None
    a = prog.adts.get(ty) if prog is not None else None
    if a and a.get("kind") == "Struct" and len(a["variants"]) == 1:
        parts = [_ty_size(prog, x["ty"]) for x in a["variants"][0]["fields"]]
        return sum(parts) if all(x is not None for x in parts) else None
    if ty.startswith(("alloc::vec::Vec<", "alloc::string::String")):
        return 24
    return None


def _ty_size_upper(prog, ty):
    """an UPPER bound (exact for the supported types): primitives, references and workspace newtypes of them"""
    ty = ty.strip()
    if ty in PRIM_SIZE:
        return PRIM_SIZE[ty]
    if ty.startswith("&") and "dyn " not in ty and "[" not in ty and "str" not in ty:
        return 8
    if ty == "alloc::string::String" or re.match(r"^alloc::vec::Vec<[^,]*>$", ty):
        return 24
    a = prog.adts.get(ty) if prog is not None else None
    if a and a.get("kind") == "Struct" and len(a["variants"]) == 1 and len(a["variants"][0]["fields"]) == 1:
        return _ty_size_upper(prog, a["variants"][0]["fields"][0]["ty"])
    return None


def _elem_size(prog, coll):
    """lower bound on the bytes one element of an in-memory collection occupies"""
    m = re.match(r"^(?:alloc::vec::Vec|std::collections::hash::set::HashSet|indexmap::set::IndexSet|alloc::collections::btree::set::BTreeSet|alloc::collections::vec_deque::VecDeque)<(.*)>$", coll)
    if m:
        return _ty_size(prog, _split_generics(m.group(1))[0])
    m = re.match(r"^\[(.*)\]$", coll)
    if m:
        return _ty_size(prog, m.group(1).split(";")[0])
    m = re.match(r"^(?:std::collections::hash::map::HashMap|indexmap::map::IndexMap|alloc::collections::btree::map::BTreeMap)<(.*)>$", coll)
    if m:
        kv = _split_generics(m.group(1))[:2]
        parts = [_ty_size(prog, x) for x in kv]
        return sum(parts) if len(parts) == 2 and all(x is not None for x in parts) else None
    if coll in ("alloc::string::String", "str"):
        return 1
    return None


def _const_range_elem(prog, f, op):
    """(lo, hi, off) if the operand is i + off with i the element of a `for i in lo..hi` / `lo..=hi-1` loop over integer constants"""
    import iters as IT
    import rules_fact as RF
    l = op_local(op)
    if l is None:
        return None
    off = 0
    r = f.copy_root(l)
    d = f.single_def(r)
    # i - c computed just before (checked subtraction: `_t = SubWithOverflow(i, c); assert; _u = move _t.0`)
    if d and d[0] == "assign" and d[3]["k"] == "use":
        pl = op_place(d[3]["op"])
        if pl is not None and len(pl[1]) == 1 and pl[1][0][0] == "field" and pl[1][0][1] == 0:
            d2 = f.single_def(pl[0])
            if d2 and d2[0] == "assign" and d2[3]["k"] == "binop" and d2[3]["op"].startswith(("Sub", "Add")):
                c = an.const_of(f, d2[3]["r"])
                if c is not None and isinstance(c.get("val"), int):
                    off = -c["val"] if d2[3]["op"].startswith("Sub") else c["val"]
                    op = d2[3]["l"]
    for it in IT.iterations(prog, f, include_nested=False):
        if it.kind != "loop":
            continue
        try:
            ep = it.elem_path(op)
        except Exception:
            ep = None
        if ep != ():
            continue
        rw = RF._range_window(f, it.chain())
        if rw is not None and [n for n in IT.chain_names(it.chain()) if n not in ("new", "into_iter")] == []:
            return rw[0], rw[1], off
    return None


def _window_item_len(prog, f, op):
    """N if the operand is (a reference to) the element of an iteration over slice.windows(N) / chunks_exact(N) with constant N, else None"""
    import iters as IT
    parent = prog.fn(norm_fn(f.path)) if f.path != norm_fn(f.path) else f
    if parent is None:
        return None
    for it in IT.iterations(prog, parent):
        if it.body is not f:
            continue
        try:
            ep = it.elem_path(op)
        except Exception:
            ep = None
        if ep != ():
            continue
        ch = it.chain()
        for nm in ("windows", "chunks_exact"):
            wt = IT.chain_get(ch, nm)
            if wt is not None and [n for n in IT.chain_names(ch) if n not in (nm, "iter", "into_iter")] == []:
                c = an.const_of(it.parent, wt["args"][1])
                if c is not None and isinstance(c.get("val"), int) and c["val"] > 0:
                    return c["val"]
    return None


def auto_discharge(f, site, prog=None):
    """returns a reason string if the site is discharged by a local rule, else None"""
    t = site.term
    if site.kind == "assert":
        m = site.detail
        k = m["kind"]
        if k in ("DivisionByZero", "RemainderByZero"):
            # cond is Eq(divisor, 0): constant non-zero divisor
            cl = op_local(t["cond"])
            d = f.single_def(cl) if cl is not None else None
            if d and d[0] == "assign" and d[3]["k"] == "binop" and d[3]["op"] == "Eq":
                c1, c2 = an.const_of(f, d[3]["l"]), an.const_of(f, d[3]["r"])
                if c1 is not None and c2 is not None and isinstance(c1.get("val"), int) and c1["val"] != 0 and c2.get("val") == 0:
                    return "constant non-zero divisor %s" % c1["val"]
        if k == "BoundsCheck":
            ic, lc = an.const_of(f, m["index"]), an.const_of(f, m["len"])
            if ic is not None and lc is not None and isinstance(ic.get("val"), int) and isinstance(lc.get("val"), int) and ic["val"] < lc["val"]:
                return "constant index %d into fixed-size array of length %d" % (ic["val"], lc["val"])
        if k == "BoundsCheck":
            # t[x] under a dominating `x <= c` / `x < c` with c below the array's constant length
            lc = an.const_of(f, m["len"])
            if lc is not None and isinstance(lc.get("val"), int):
                ub = an.implied_upper_bound(f, site.bb, m["index"])
                if ub is not None and ub < lc["val"]:
                    return "index <= %d (dominating comparison) into a fixed-size array of length %d" % (ub, lc["val"])
        if k in ("BoundsCheck", "Overflow") and prog is not None:
            # t[i] / t[i - c] / i - c where i runs over a constant range lo..hi: 0 <= lo - c and hi <= the array's constant length
            r_ = _const_range_elem(prog, f, m["index"] if k == "BoundsCheck" else m["l"])
            if r_ is not None:
                lo, hi, off = r_
                if k == "BoundsCheck":
                    lc = an.const_of(f, m["len"])
                    if lc is not None and isinstance(lc.get("val"), int) and lo + off >= 0 and hi + off <= lc["val"]:
                        return "index i%+d with i in %d..%d into a fixed-size array of length %d" % (off, lo, hi, lc["val"])
                elif m["op"] == "Sub" and off == 0:
                    rc = an.const_of(f, m["r"])
                    if rc is not None and isinstance(rc.get("val"), int) and lo - rc["val"] >= 0:
                        return "i - %d with i in %d..%d" % (rc["val"], lo, hi)
        if k == "BoundsCheck" and prog is not None:
            # w[K] where w is an item of slice.windows(N) / chunks_exact(N) with constants K < N (every item has exactly N elements)
            ic = an.const_of(f, m["index"])
            ll = op_local(m["len"])
            dl = f.single_def(ll) if ll is not None else None
            if ic is not None and isinstance(ic.get("val"), int) and dl and dl[0] == "assign" and dl[3]["k"] in ("unop", "len") :
                src = dl[3].get("operand") or dl[3].get("op")
                n = _window_item_len(prog, f, src) if src is not None else None
                if n is not None and ic["val"] < n:
                    return "constant index %d into an item of windows(%d) / chunks_exact(%d)" % (ic["val"], n, n)
        if k == "Overflow" and m["op"] == "Sub":
            g = guarded_sub(f, site.bb, m["l"], m["r"])
            if g:
                return "dominated by the comparison at %s which implies lhs >= rhs" % g
            # ALIGN - rem with rem = x % ALIGN
            lc = an.const_of(f, m["l"])
            rl = op_local(m["r"])
            if lc is not None and isinstance(lc.get("val"), int) and rl is not None:
                d = f.single_def(f.copy_root(rl))
                if d and d[0] == "assign" and d[3]["k"] == "binop" and d[3]["op"] == "Rem":
                    rc = an.const_of(f, d[3]["r"])
                    if rc is not None and rc.get("val") == lc["val"]:
                        return "c - (x %% c): remainder is < %d" % lc["val"]
    if site.kind == "assert" and site.detail["kind"] == "Other":
        dbg = site.detail.get("dbg", "")
        if dbg.startswith(("MisalignedPointerDereference", "NullPointerDereference")) and t.get("exp"):
            return "compiler-inserted debug UB check on a pointer freshly returned by the allocator (vec!/box expansion); absent in release builds"
    if site.kind == "pset":
        p = site.detail
        if p.endswith(("::windows", "::chunks_exact", "::chunks")) and len(t["args"]) == 2:
            c = an.const_of(f, t["args"][1])
            if c is not None and isinstance(c.get("val"), int) and c["val"] > 0:
                return "constant non-zero size %d" % c["val"]
        if p in ("alloc::vec::Vec::<T>::with_capacity", "alloc::vec::Vec::<T, A>::with_capacity_in", "alloc::vec::from_elem"):
            # with_capacity(x.len()) for an existing in-memory collection x whose elements are at least as large as the new ones: x already
            # occupies len * size bytes (< isize::MAX), so the new capacity computation cannot overflow (allocation failure aborts, it does not panic)
            # (vec![x; n] = from_elem(x, n): the count is the second argument)
            n_arg = (t["args"][1] if len(t["args"]) > 1 else None) if p == "alloc::vec::from_elem" else (t["args"][0] if t["args"] else None)
            l = op_local(n_arg) if n_arg is not None else None
            d = f.single_def(f.copy_root(l)) if l is not None else None
            if d and d[0] == "call" and callee_name(d[2]["callee"]).split("::")[-1] == "min" and len(d[2]["args"]) == 2:
                # min(a.len(), b.len()) is at most either length
                for a_ in d[2]["args"]:
                    la_ = op_local(a_)
                    da_ = f.single_def(f.copy_root(la_)) if la_ is not None else None
                    if da_ and da_[0] == "call" and callee_name(da_[2]["callee"]).endswith("::len") and da_[2]["args"]:
                        d = da_
                        break
            if d and d[0] == "call" and callee_name(d[2]["callee"]).endswith("::len") and d[2]["args"]:
                rl = op_local(d[2]["args"][0])
                rty = strip_ref(f.local_ty(rl)) if rl is not None else ""
                m2 = re.match(r"^alloc::vec::Vec<(.*)>$", t.get("dest_ty") or "")
                have = _elem_size(prog, rty)
                need = _ty_size_upper(prog, m2.group(1)) if m2 else None
                if have is not None and need is not None and need <= have:
                    return "capacity is the length of an existing %s (element size %d >= %d)" % (rty, have, need)
                # a multi-valued command-line option: the vector is a field of a clap-derived argument struct, so it has at most one element per
                # argv entry, and every argv entry is a heap-allocated OsString (24 bytes on its own): 24 * len < isize::MAX
                tgt = f.resolve_ptr(rl) if rl is not None else None
                root_ty = strip_ref(f.local_ty(tgt[0])) if tgt else ""
                is_cli = tgt is not None and tgt[0] == 1 and f.argc >= 1 and root_ty.startswith("sfs::") and any(e[0] == "field" for e in tgt[1]) and \
                    any((h_.impl_of or {}).get("trait") == "clap_builder::derive::Args" and (h_.impl_of or {}).get("self_adt") == root_ty for h_ in prog.fn_list)
                if is_cli and need is not None and need <= 24:
                    return "capacity is the number of values of a command-line option (%s): at most one per argv entry of >= 24 bytes, element size %d" % (root_ty, need)
        if p in ("core::option::Option::<T>::unwrap", "core::option::Option::<T>::expect", "core::result::Result::<T, E>::unwrap", "core::result::Result::<T, E>::expect"):
            # NonZero::try_from(const nonzero).unwrap()
            l = op_local(t["args"][0])
            d = f.single_def(f.copy_root(l)) if l is not None else None
            if d and d[0] == "call":
                cp = d[2]["callee"].get("path") or ""
                if cp in ("core::convert::TryFrom::try_from", "core::num::nonzero::NonZero::<T>::new") and "NonZero" in t["dest_ty"]:
                    c = an.const_of(f, d[2]["args"][0])
                    if c is not None and isinstance(c.get("val"), int) and c["val"] != 0:
                        return "NonZero from the non-zero constant %d" % c["val"]
    return None


# ------------------------------------------------------------------------------------
# tables
# ------------------------------------------------------------------------------------
def norm_fn(path):
    """A closure body is keyed by the function it is written in: closure numbering shifts when an unrelated closure is added,
    and rewriting `iter.for_each(|x| ..)` as `for x in iter { .. }` moves the very same sites from the closure into the parent.
    Rows of a function and of its closures with the same signature are merged, their multiplicities add up."""
    return re.sub(r"(::\{closure(#\d+)?\})+", "", path)


def norm_sig(sig):
    """`a * b` on integers is an Assert(Overflow) terminator when both operands are values and a call of the operator trait when one is a
    reference (`*stride *= v` with v: &usize): the same site either way, keyed by the assert form"""
    m = re.match(r"^call:(add|sub|mul)(_assign)?<([^>]*)>$", sig)
    if m:
        return "Overflow(%s v,v)" % m.group(1).capitalize()
    # `it.sum::<usize>()` / `it.product::<usize>()` are the accumulating loops `acc += x` / `acc *= x` (same overflow check)
    m = re.match(r"^call:(sum|product)<([^>]*)>$", sig)
    if m:
        return "Overflow(%s v,v)" % ("Add" if m.group(1) == "sum" else "Mul")
    return sig


def load_tables(prog=None):
    base = os.path.join(os.path.dirname(os.path.dirname(os.path.dirname(os.path.abspath(__file__)))), "tables")
    with open(os.path.join(base, "panic_sites.json")) as fh:
        ps = json.load(fh)
    with open(os.path.join(base, "contracts.json")) as fh:
        ct = json.load(fh)
    rows = {}
    all_rows = list(ps["rows"])
    # a reviewed helper that no longer exists was merged into its caller(s) (canon.py, `gone`): its rows are handed to them
    gone = (getattr(prog, "canon_report", None) or {}).get("gone") or {}
    for r in ps["rows"]:
        g = norm_fn(r["fn"])
        if g in gone:
            for c in gone[g]:
                all_rows.append(dict(r, fn=c, reason=r["reason"] + " (row of the merged helper %s)" % g.rsplit("::", 1)[-1]))
    for r in all_rows:
        k = (norm_fn(r["fn"]), norm_sig(r["sig"]))
        r = dict(r, sig=norm_sig(r["sig"]))
        if k in rows:
            # rows of sibling closures with the same signature are merged (counts add up)
            if (rows[k]["verdict"] == "finding") != (r["verdict"] == "finding"):
                raise SystemExit("tables/panic_sites.json: finding and reviewed rows collide on %s %s" % k)
            rows[k] = dict(rows[k], count=rows[k]["count"] + r["count"], reason=rows[k]["reason"] + " | " + r["reason"],
                           baseline=(rows[k].get("baseline", rows[k]["count"]) + r.get("baseline", r["count"])))
        else:
            rows[k] = r
    contracts = {fn: {norm_fn(c): how for c, how in callers.items()} for fn, callers in ct["contracts"].items()}
    return rows, contracts


def collect_sites(prog, fns):
    """{(fn path, sig): [Site,...]} of the not auto-discharged sites, plus the auto-discharged list"""
    res = {}
    auto = []
    for f in fns:
        if is_clap_generated(f):
            continue
        for s in enumerate_sites(prog, f):
            r = auto_discharge(f, s, prog)
            if r:
                auto.append((s, r))
            else:
                s.sig = norm_sig(s.sig)
                res.setdefault((norm_fn(f.path), s.sig), []).append(s)
    return res, auto


def rebalance(chk, prog, res, rows):
    """re-key sites whose spelling or place changed without changing what they are (see the comments inside)"""
    # `fs[K]` is a call of Index::index when fs is a Vec and a BoundsCheck assert when it is the slice view of that vector (the vector
    # handed to a helper as `&fs`): the same reviewed site either way; the reviewed multiplicity bounds both spellings together
    for (fp, sig) in sorted(res):
        if re.match(r"^BoundsCheck\(idx=c\d+\)$", sig) and (fp, sig) not in rows:
            alts = [k for k in rows if k[0] == fp and re.match(r"^call:index<Vec<[^>]*>>\[usize\]$", k[1])]
            if len(alts) == 1:
                res.setdefault(alts[0], []).extend(res.pop((fp, sig)))
    # one source expression seen twice: a helper that is not in the reviewed inventory is inlined (canon.py) at each of its call sites,
    # so a panic-capable expression in it shows up once per caller; the copies have the same signature and the same source line, and
    # one of them is covered by a reviewed row (the function the code was extracted from)
    covered_locs = {}
    for (fp, sig), sites in res.items():
        row = rows.get((fp, sig))
        if row is not None and len(sites) <= row["count"]:
            for s_ in sites:
                covered_locs.setdefault((sig, s_.loc()), (fp, row))
    for (fp, sig) in sorted(res):
        have = rows[(fp, sig)]["count"] if (fp, sig) in rows else 0
        sites = res[(fp, sig)]
        if len(sites) <= have:
            continue
        keep, dup = [], []
        for s_ in sites:
            c_ = covered_locs.get((sig, s_.loc()))
            if c_ is not None and c_[0] != fp and c_[1]["verdict"] == "ok" and getattr(s_.fn, "raw", {}).get("inlined_ret"):
                dup.append((s_, c_[0]))
            else:
                keep.append(s_)
        if dup and len(keep) <= have:
            res[(fp, sig)] = keep
            if not keep:
                del res[(fp, sig)]
            chk.extra.setdefault("C17-moved-sites", []).append("%s `%s` at %s: the same source expression as the reviewed one in %s (shared helper inlined at both)" % (fp, sig, dup[0][0].loc(), dup[0][1]))
    # code motion across one call edge: an expression hoisted from a callee into its caller (or pushed down) keeps its reviewed row, as
    # long as the row's function has that many fewer sites of the signature now (the row is vacated, not shared with a new site)
    nbrs = None
    moves = []
    for (fp, sig) in sorted(res):
        have = rows[(fp, sig)]["count"] if (fp, sig) in rows else 0
        excess = len(res[(fp, sig)]) - have
        if excess <= 0:
            continue
        if nbrs is None:
            nbrs = {}
            for g_ in prog.fn_list:
                a_ = norm_fn(g_.path)
                for b_, t_ in g_.calls():
                    for h_ in prog.call_targets(g_, t_):
                        c_ = norm_fn(h_.path)
                        if c_ != a_:
                            nbrs.setdefault(a_, set()).add(c_)
                            nbrs.setdefault(c_, set()).add(a_)
        # (room = sites the row covered on the reviewed tree that are gone now; a row whose sites were always discharged mechanically has none)
        def room(nb):
            r_ = rows[(nb, sig)]
            return min(r_["count"], r_.get("baseline", r_["count"])) - len(res.get((nb, sig), []))
        cands = [nb for nb in sorted(nbrs.get(fp, ())) if (nb, sig) in rows and excess <= room(nb)]
        if cands:
            moves.append(((fp, sig), cands, excess))
    for (fp, sig), cands, excess in moves:
        sites_ = res[(fp, sig)][-excess:]
        res[(fp, sig)] = res[(fp, sig)][:-excess]
        if not res[(fp, sig)]:
            del res[(fp, sig)]
        for nb in cands:
            res.setdefault((nb, sig), []).extend(sites_)
        chk.extra.setdefault("C17-moved-sites", []).append("%s `%s` judged by the row(s) of %s" % (fp, sig, cands))


def inventory(chk, rule, fns, rows, scope_desc):
    prog = chk.prog
    res, auto = collect_sites(prog, fns)
    for s, r in auto:
        chk.ob(rule, "auto/%s/%s#%d" % (s.fn.path, s.sig, sum(1 for o in chk.obs if o["key"].startswith("auto/%s/%s#" % (s.fn.path, s.sig)))), True, s.loc(), "auto-discharged: " + r)
    rebalance(chk, prog, res, rows)
    for (fp, sig), sites in sorted(res.items()):
        row = rows.get((fp, sig))
        loc = sites[0].loc()
        if row is None:
            chk.ob(rule, "site/%s/%s" % (fp, sig), False, loc,
                   "UNREVIEWED-SITE: %d panic-capable site(s) `%s` in %s (%s) have no auto-discharge and no reviewed row in tables/panic_sites.json" % (len(sites), sig, fp, scope_desc))
            continue
        if len(sites) > row["count"]:
            chk.ob(rule, "site/%s/%s/count" % (fp, sig), False, loc,
                   "UNREVIEWED-SITE: %d sites `%s` in %s but only %d were reviewed (at %s)" % (len(sites), sig, fp, row["count"], [x.loc() for x in sites]))
            continue
        if row["verdict"] == "finding":
            chk.ob(rule, "site/%s/%s" % (fp, sig), False, loc, "FINDING %s: %s" % (row.get("finding"), row["reason"]))
        else:
            chk.ob(rule, "site/%s/%s" % (fp, sig), True, loc, "reviewed (%d site(s)): %s" % (len(sites), row["reason"]))
    return res, auto


def check_contracts(chk, rule, contracts):
    """closed caller sets of every *_unchecked function + mechanically recognised guard forms"""
    import rules_stat
    prog = chk.prog
    unchecked = [f for f in prog.fn_list if f.name and f.name.endswith("_unchecked") and f.kind != "Closure"]
    for f in unchecked:
        row = contracts.get(f.path)
        if row is None:
            chk.ob(rule, "contract/%s/NO-ROW" % f.path, False, f.loc(), "a function named *_unchecked has no row in tables/contracts.json (closed caller set unknown)")
            continue
        chk.fns_analysed.add(f.path)
        for g, b, t in prog.callers_of(f.path):
            chk.saw_calls()
            how = row.get(norm_fn(g.path))
            key = "contract/%s<-%s" % (f.path.split("sfs_core::")[-1], norm_fn(g.path).split("sfs_core::")[-1])
            if how is None:
                chk.ob(rule, key + "/UNREVIEWED-CALLER", False, g.loc(b), "%s calls %s but is not in its closed caller set %s" % (g.path, f.path, sorted(row)))
                continue
            ok = True
            why = how
            m = re.match(r"dim==(\d)", how)
            if m:
                ok = rules_stat.dim_guard_edge(g, b, "dim", int(m.group(1)))
                why = "dominated by dimensions() == %s: %s" % (m.group(1), ok)
            elif how == "shape33":
                ok = rules_stat.dim_guard_edge(g, b, "shape33", None)
                why = "dominated by shape == [3, 3]: %s" % ok
            elif how.startswith("dominates:"):
                callee = how.split(":", 1)[1]
                cs = an.calls(g, callee)
                ok = len(cs) >= 1 and any(g.dominates(cb, b) and cb != b for cb, _ in cs)
                why = "call of %s dominates it: %s" % (callee.split("::")[-1], ok)
            chk.ob(rule, key, ok, g.loc(b), why, nontrivial=not how.startswith(("reviewed", "inherited")))
    stale = [k for k in contracts if prog.fn(k) is None]
    chk.ob(rule, "contract/table-rows-exist", not stale, "", "contract rows without a function in the facts: %s" % stale, nontrivial=False)


def clap_groups(chk, rule):
    """the `unreachable!("checked by clap")` rows rely on #[group(multiple = false)]: the derive must emit ArgGroup::multiple(false)"""
    prog = chk.prog
    want = {"sfs::create::Samples", "sfs::create::Project", "sfs::view::Marginalize", "sfs::view::Project"}
    found = {}
    for f in prog.fn_list:
        io = f.impl_of
        if not (io and io.get("trait") == "clap_builder::derive::Args" and f.name == "augment_args"):
            continue
        adt = io.get("self_adt")
        for b, t in f.calls():
            if (t["callee"].get("path") or "") == "clap_builder::builder::arg_group::ArgGroup::multiple":
                v = an.const_of(f, t["args"][1])
                found[adt] = v.get("val") if v else None
    for a in sorted(want):
        chk.ob(rule, "clap-group(%s)/multiple=false" % a, found.get(a) is False, "", "derive(Args) for %s must emit ArgGroup::multiple(false) (found %s)" % (a, found.get(a, "no group")))
    # and the struct is used as Option<..> flattened: (None, None) cannot be observed because clap yields None for an absent group
    for adt, fld, ty in (("sfs::create::Create", "project", "core::option::Option<sfs::create::Project>"), ("sfs::create::Create", "samples", "core::option::Option<sfs::create::Samples>"),
                         ("sfs::view::View", "marginalize", "core::option::Option<sfs::view::Marginalize>"), ("sfs::view::View", "project", "core::option::Option<sfs::view::Project>")):
        a = prog.adts.get(adt)
        tys = {x["name"]: x["ty"] for x in a["variants"][0]["fields"]} if a else {}
        chk.ob(rule, "clap-group-field(%s.%s)/optional" % (adt.split("::")[-1], fld), tys.get(fld) == ty, "", "field type %s" % tys.get(fld), nontrivial=False)


def nonempty_shape_supports(chk, rule):
    """several reviewed rows (`self[0]` in Display for Shape, `dimensions() - 1`, RemovedAxis::new) rest on `every Shape has >= 1 axis` (NE in
    tables/panic_sites.json).  What NE itself rests on in the two input parsers is checked here: neither can yield an empty axis list."""
    prog = chk.prog
    ZERO_OK = ("opt", "many0", "separated_list0", "many0_count", "fold_many0", "many_till", "many_m_n")
    zero = []
    lists1 = 0
    nfn = 0
    for f in prog.fn_list:
        if f.derived or "::npy::header::parse::" not in f.path + "::":
            continue
        nfn += 1
        for b, t in f.calls():
            nm = callee_name(t["callee"])
            if not nm.startswith("nom::") or "{closure" in nm:
                continue
            last = nm.split("::")[-1]
            args = t["callee"].get("args") or []
            if last in ("separated_list1", "many1"):
                lists1 += 1
            if last in ZERO_OK:
                # the combinator's output type: opt<I, O, ..> yields Option<O>; the list combinators yield Vec<O>
                out = args[1] if len(args) > 1 else ""
                seq = ("Vec<usize>" in out) if last == "opt" else (out in ("usize", "u64") or "Vec<usize>" in out)
                if seq:
                    zero.append("%s<%s> at %s" % (last, out, f.loc(b)))
    chk.ob(rule, "NE/npy-shape-parser/at-least-one-axis", nfn >= 5 and lists1 >= 1 and not zero, "",
           "the npy header's 'shape' tuple is parsed with a one-or-more list combinator and no optional / zero-or-more combinator yields the axis list "
           "(one-or-more lists: %d; zero-allowing combinators over the axes: %s)" % (lists1, zero or "none"))
    h = prog.fn("<sfs_core::spectrum::io::text::Header as core::str::traits::FromStr>::from_str")
    if h is not None:
        names = [callee_name(t["callee"]) for g in [h] + prog.closures_of(h.path) for b, t in g.calls()]
        splits = [n for n in names if n.startswith("core::str::<impl str>::split")]
        droppers = [n.split("::")[-1] for n in names if n.startswith("core::iter::traits::iterator::Iterator::") and n.split("::")[-1] in ("filter", "filter_map", "skip", "skip_while", "take", "take_while", "flat_map", "flatten", "step_by")]
        ok = splits == ["core::str::<impl str>::split"] and not droppers
        chk.ob(rule, "NE/text-header-parser/at-least-one-axis", ok, h.loc(),
               "the #SHAPE header is cut with str::split (which yields at least one piece) and every piece is kept (splitters %s, dropping adaptors %s)" % ([n.split("::")[-1] for n in splits], droppers or "none"))


def precision_bound(chk, rule):
    """the reviewed rows of the three `{:.precision$}` sites rely on the CLI bounding every precision to <= u16::MAX"""
    prog = chk.prog
    pp = chk.fn("sfs::parse_precision")
    if pp is None:
        return
    # Ok(p) is only constructed where p <= 65535 is implied by a dominating comparison of that same p
    oks = [(b, rv) for b, i, p, rv, s in pp.assigns() if p[0] == 0 and rv["k"] == "aggregate" and rv.get("variant") == "Ok"]
    bounds = [an.implied_upper_bound(pp, b, rv["ops"][0]) for b, rv in oks]
    good = bool(oks) and all(x is not None and x <= 65535 for x in bounds)
    chk.ob(rule, "parse_precision/Ok-only-below-65536", good, pp.loc(), "parse_precision returns Ok(p) only when p <= u16::MAX (implied upper bounds of the returned values: %s)" % bounds)
    users = set()
    for f in prog.fn_list:
        for b, t in f.calls():
            for o in t["args"]:
                if o["k"] == "const" and o.get("fn") == "sfs::parse_precision":
                    io = f.impl_of or {}
                    if f.name == "augment_args":
                        users.add(io.get("self_adt"))
    want = {"sfs::create::Create", "sfs::fold::Fold", "sfs::stat::Stat", "sfs::view::View"}
    chk.ob(rule, "precision-options/use-parse_precision", users == want, "", "every --precision option is parsed by parse_precision (structs %s)" % sorted(users))
    # who hands a precision to the writer / formatter: only CLI fields or constants
    srcs = []
    for f, b, t in prog.callers_of("sfs_core::spectrum::io::write::Builder::set_precision"):
        sl, info = f.slice_locals(t["args"][1])
        flds = sorted(fl for (a_, fl) in info["fields"])
        srcs.append((f.path.split("::")[-2], flds))
    ok = all(set(fl) <= {"precision", "project"} for _, fl in srcs) and len(srcs) == 3
    chk.ob(rule, "set_precision/callers-pass-CLI-precision", ok, "", "set_precision is called with the parsed option (or const 0) only: %s" % srcs)


def check_C17(chk):
    import rules_create as RC
    chk.explanation = (
        "Interprocedural may-panic inventory (DESIGN 3.6-3.7): every panic-capable MIR site (Assert terminators: overflow, bounds, division; calls "
        "into a reviewed set of panicking std functions; panic!/unreachable!/assert! expansions) in every workspace function reachable from "
        "sfs::main through the over-approximate call graph is (1) auto-discharged by a local rule (constant divisor, constant index, dominating "
        "comparison, NonZero constant), (2) covered by a reviewed row of tables/panic_sites.json keyed by (function, site signature, multiplicity) "
        "or (3) a recorded finding. Functions named *_unchecked have closed caller sets (tables/contracts.json) with mechanically checked guard "
        "forms where recognisable; main prints every Err and exits non-zero; clap's group invariants are checked in the derive output.")
    chk.not_decided = ("panics inside dependencies on malformed input (noodles, nom, flate2, clap: their MIR is outside the workspace wrapper); "
                       "out-of-memory aborts; the truth of each reviewed reason (they are read, not proved)")
    prog = chk.prog
    rows, contracts = load_tables(chk.prog)
    RC.exit_status(chk, "C17.a")
    check_contracts(chk, "C17.c", contracts)
    reach, parent = prog.reachable([prog.entry])
    fns = [f for f in prog.fn_list if f.path in reach]
    for f in fns:
        chk.fns_analysed.add(f.path)
    res, auto = inventory(chk, "C17.d", fns, rows, "reachable from main")
    clap_groups(chk, "C17.e")
    precision_bound(chk, "C17.f")
    nonempty_shape_supports(chk, "C17.g")
    # stale rows (sites that disappeared) are harmless; count them for the evidence
    live = set(res)
    unreach_rows = [k for k in rows if k not in live]
    chk.extra["reachable_functions"] = len(fns)
    chk.extra["workspace_functions"] = len(prog.fn_list)
    chk.extra["sites_auto_discharged"] = len(auto)
    chk.extra["sites_reviewed_or_findings"] = sum(len(v) for v in res.values())
    chk.extra["table_rows_without_live_site"] = ["%s | %s" % k for k in sorted(unreach_rows)]
    # floors: numbers counted on today's tree
    # the reviewed reasons of several rows rest on a guard that another property's rule decides in full: `marginalize_unchecked` indexes and
    # removes axes under "no duplicate, all in range, fewer than dimensions" (C04.a); `project_unchecked` under "validated first" (C03.a/b);
    # the genotype classifier adds two allele indices under "both bounded to {0,1}" (C08.a/b/e).  A weakened guard leaves every site where it
    # was, so the inventory alone cannot see it.
    import rules_num as RN17_
    import rules_geno as RG17_
    def _guards():
        RN17_.c04a(chk)
        RN17_.c03a(chk)
        RN17_.c03b(chk)
        g_ = RG17_.GenoFrom(chk)
        if g_.ok:
            RG17_.c08a(chk, g_)
            RG17_.c08b(chk, g_)
            RG17_.c08e(chk, g_)
    chk.borrow(_guards, "C17.h", 15)
    chk.floor("C17.a", 2)
    chk.floor("C17.c", 38)
    chk.floor("C17.d", 120)
    chk.floor("C17.e", 4)
    chk.floor("C17.f", 3)
    chk.floor("C17.g", 2)
    chk.ob("C17.d", "reachability/floor", len(fns) >= 800, "", "%d of %d workspace function bodies are reachable from main in the over-approximate call graph (floor 800)" % (len(fns), len(prog.fn_list)), nontrivial=False)


# ====================================================================================
# C19
# ====================================================================================
ARR = "sfs_core::array::"
C19_OPTION_API = [ARR + "Array::<T>::get", ARR + "Array::<T>::get_mut", ARR + "Array::<T>::get_axis",
                  ARR + "shape::strides::Strides::flat_index", ARR + "shape::removed_axis::RemovedAxis::<'a, T>::get"]
# functions that run for every array that is built or iterated, whatever its shape (no axes, a zero-length axis, one element): they have no
# Option to return, so they must not contain a panic-capable site that is not reviewed
C19_TOTAL_API = [ARR + "shape::Shape::strides", ARR + "shape::Shape::elements", ARR + "Array::<T>::from_element", ARR + "Array::<T>::iter_indices",
                 ARR + "iter::IndicesIter::<'a>::from_shape", ARR + "view::View::<'a, T>::iter", ARR + "view::iter::Iter::<'a, T>::new"]
ITERS = {
    ARR + "iter::AxisIter": "<sfs_core::array::iter::AxisIter<'a, T> as core::iter::traits::iterator::Iterator>::",
    ARR + "iter::IndicesIter": "<sfs_core::array::iter::IndicesIter<'a> as core::iter::traits::iterator::Iterator>::",
    ARR + "view::iter::Iter": "<sfs_core::array::view::iter::Iter<'a, T> as core::iter::traits::iterator::Iterator>::",
    "sfs_core::spectrum::iter::FrequenciesIter": "<sfs_core::spectrum::iter::FrequenciesIter<'a> as core::iter::traits::iterator::Iterator>::",
}
# reviewed exception of the fused rule (one named path, with the guard it relies on)
FUSED_EXCEPTIONS = {
    (ARR + "view::iter::Iter::<'a, T>::impl_next_rec"):
        "the odometer's own `None` (top axis overflow) is unreachable while index < elements: the odometer has exactly `elements` positions and "
        "index counts the positions already yielded; accepted only if next() starts with the effect-free `index >= elements => None` guard",
    ("<sfs_core::array::view::iter::Iter<'a, T> as core::iter::traits::iterator::Iterator>::next"):
        "zero-axis arm `index += 1; data.first()`: the view's data slice starts at an in-bounds offset (LEN), so first() is Some; and index == elements "
        "afterwards, so the top guard keeps returning None; accepted only with the top guard present",
}
# sites that are findings in general but discharged in the iterator context
C19D_CONTEXT = {
    ("sfs_core::array::shape::Shape::elements", "Overflow(Mul v,v)"):
        "index_from_flat_unchecked multiplies the same shape whose product was already computed without overflow when the iterator was constructed (IndicesIter::from_shape)",
}


def closure_of(prog, entries):
    reach, parent = prog.reachable(entries)
    return [prog.fn(p) for p in sorted(reach) if prog.fn(p) is not None]


def implied_strict_less(f, b, idx_op):
    """names N such that idx < N is implied at block b by a dominating comparison edge (N described by its defining call / place)"""
    out = []
    for sb, st in f.switches():
        s = an.switch_subject(f, sb)
        if s["kind"] != "value" or s["root"] is None:
            continue
        d = f.single_def(s["root"])
        if not (d and d[0] == "assign" and d[3]["k"] == "binop" and d[3]["op"] in ("Gt", "Ge", "Lt", "Le")):
            continue
        op, l, r = d[3]["op"], d[3]["l"], d[3]["r"]
        t_true, t_false = st["otherwise"], an.edge_target(st, 0)
        tgt = None
        other = None
        weak = False
        if _same_value(f, l, idx_op):
            other = r
            tgt = {"Lt": t_true, "Ge": t_false}.get(op)
            if tgt is None:
                weak = True
                tgt = {"Le": t_true, "Gt": t_false}.get(op)
        elif _same_value(f, r, idx_op):
            other = l
            tgt = {"Gt": t_true, "Le": t_false}.get(op)
            if tgt is None:
                weak = True
                tgt = {"Ge": t_true, "Lt": t_false}.get(op)
        if tgt is None or not an.dominated_by_edge(f, sb, tgt, b):
            continue
        ol = op_local(other)
        desc = ostr(other)
        dd = f.single_def(f.copy_root(ol)) if ol is not None else None
        if dd and dd[0] == "call":
            desc = callee_name(dd[2]["callee"])
        out.append((desc, "weak" if weak else "strict", f.loc(sb)))
    return out


def c19a(chk, rows):
    prog = chk.prog
    fns = closure_of(prog, C19_OPTION_API)
    for p in C19_OPTION_API:
        chk.fn(p)
    # restrict to the array module: the closure must not leave it
    outside = [f.path for f in fns if not f.path.startswith(("sfs_core::array::", "<sfs_core::array::"))]
    chk.ob("C19.a", "option-api/closure-stays-in-array-module", not outside, "", "functions reachable from the Option-returning accessors outside sfs_core::array: %s" % outside[:5])
    res, auto = collect_sites(prog, fns)
    for (fp, sig), sites in sorted(res.items()):
        row = rows.get((fp, sig))
        ok = row is not None and row["verdict"] == "ok" and len(sites) <= row["count"]
        chk.ob("C19.a", "option-api/site/%s/%s" % (fp.split("array::")[-1], sig), ok, sites[0].loc(),
               ("reviewed: " + row["reason"]) if ok else "a panic-capable site in an accessor that must return None instead of panicking has no reviewed discharge (%s)" % (row["reason"] if row else "no row"))
    chk.ob("C19.a", "option-api/auto-discharged", True, "", "%d sites auto-discharged in %d functions" % (len(auto), len(fns)), nontrivial=False)
    tfns = []
    for p in C19_TOTAL_API:
        tf = chk.fn(p)
        if tf is not None:
            tfns.append(tf)
            tfns += [c for c in prog.closures_of(tf.path) if c not in tfns]
    tres, tauto = collect_sites(prog, tfns)
    rebalance(chk, prog, tres, rows)
    for (fp, sig), sites in sorted(tres.items()):
        row = rows.get((fp, sig))
        # (rows that C17 lists as open findings - products of axis lengths beyond usize - are reported there, by their exact key, and
        # are not raised a second time here; what fails here is a site without any row: a new way to panic on some shape)
        ok = row is not None and len(sites) <= row["count"]
        chk.ob("C19.a", "total-api/site/%s/%s" % (fp.split("array::")[-1], sig), ok, sites[0].loc(),
               ("reviewed (%s): " % row["verdict"] + row["reason"]) if ok else "a panic-capable site in a function that runs for arrays of every shape has no reviewed discharge (%s)" % (row["reason"] if row else "no row"))
    chk.ob("C19.a", "total-api/functions", len(tfns) >= len(C19_TOTAL_API), "", "%d functions (with closures) inventoried, %d sites auto-discharged" % (len(tfns), len(tauto)), nontrivial=False)
    # the get_axis guard: every bounds check on the axis number is dominated by a *strict* bound against dimensions()
    f = chk.fn(ARR + "Array::<T>::get_axis")
    if f is not None:
        n = 0
        for b, t in f.asserts():
            m = t["msg"]
            if m["kind"] != "BoundsCheck":
                continue
            sl, info = f.slice_locals(m["index"], through_calls=False)
            is_axis = ("sfs_core::array::shape::Axis", "0") in info["fields"]
            if not is_axis:
                continue
            n += 1
            rel = implied_strict_less(f, b, m["index"])
            strict = [r for r in rel if r[1] == "strict" and r[0].endswith("::dimensions")]
            weak = [r for r in rel if r[1] == "weak"]
            chk.ob("C19.a", "get_axis/axis-bounds-check#%d/strictly-below-dimensions" % n, bool(strict), f.loc(b),
                   "indexing shape/strides by the axis number must be dominated by `axis < dimensions()` (strict); found %s%s"
                   % (rel or "no dominating comparison", " - ONE-SIDED COMPARISON: axis == dimensions() passes the guard and then indexes out of bounds" if weak and not strict else ""))
        # (shape / strides looked up with the non-panicking `get(axis)` have no bounds check to guard: each such lookup stands for one)
        gets_ = len([1 for b_, t_ in f.calls() if callee_name(t_["callee"]).split("::")[-1] == "get" and "slice" in callee_name(t_["callee"])])
        chk.ob("C19.a", "get_axis/axis-bounds-checks-found", n + gets_ >= 2, f.loc(), "%d bounds checks on the axis number (shape[axis], strides[axis]), %d non-panicking slice lookups" % (n, gets_), nontrivial=False)
        # index < shape[axis]: the view is constructed only where a strict bound on the position argument holds
        nu = an.calls(f, ARR + "view::View::<'a, T>::new_unchecked")
        ok = False
        rel = []
        if len(nu) == 1:
            rel = implied_strict_less(f, nu[0][0], {"k": "copy", "place": {"l": 3, "p": []}})
            ok = any(r[1] == "strict" for r in rel)
        chk.ob("C19.a", "get_axis/index-strictly-below-axis-length", ok, f.loc(), "the view is constructed only where `index < shape[axis]` is implied (dominating comparisons on the position argument: %s)" % (rel or "none"))
    # get_axis answers None for an out-of-range request and for nothing else: with the true edges of `axis >= dimensions()` and
    # `index >= shape[axis]` removed, no `None` is reachable through comparisons that can be read (a guard such as `dimensions() < 2 => None`
    # takes the views of one-axis arrays away)
    ga = chk.fn(ARR + "Array::<T>::get_axis")
    if ga is not None:
        blocked = set()
        read = []
        for sb, st in ga.switches():
            s_ = an.switch_subject(ga, sb)
            d_ = ga.single_def(s_["root"]) if s_["kind"] == "value" and s_["root"] is not None else None
            if not (d_ and d_[0] == "assign" and d_[3]["k"] == "binop" and d_[3]["op"] in ("Ge", "Gt", "Lt", "Le", "Eq", "Ne")):
                for tgt in ga.succ.get(sb, []):
                    blocked.add((sb, tgt))
                continue
            def role(op, depth=0):
                l_ = op_local(op)
                if l_ is None:
                    return "const" if op["k"] == "const" else "?"
                r_ = ga.copy_root(l_)
                if r_ == 3:
                    return "index"
                if r_ == 2 and "usize" in ga.local_ty(l_):
                    return "axis"
                dd = ga.single_def(r_)
                if dd and dd[0] == "call" and callee_name(dd[2]["callee"]).endswith("::dimensions"):
                    return "dims"
                if dd and dd[0] == "call" and callee_name(dd[2]["callee"]).split("::")[-1] in ("index", "get", "get_unchecked") and len(dd[2]["args"]) == 2 and role(dd[2]["args"][1], depth + 1) == "axis":
                    return "len"
                if dd and dd[0] == "assign" and dd[3]["k"] == "use":
                    pl = op_place(dd[3]["op"])
                    if pl is not None:
                        if any(e[0] == "index" for e in pl[1]):
                            idx = [e[1] for e in pl[1] if e[0] == "index"]
                            return "len" if idx and role({"k": "copy", "place": {"l": idx[0], "p": []}}, depth + 1) == "axis" else "?"
                        r0 = ga.copy_root(pl[0])
                        if r0 == 2 and all(e[0] == "field" for e in pl[1]):
                            return "axis"
                        if r0 == 3 and not pl[1]:
                            return "index"
                        if not pl[1] and depth < 6:
                            return role({"k": "copy", "place": {"l": pl[0], "p": []}}, depth + 1)
                return "?"
            lr, rr = role(d_[3]["l"]), role(d_[3]["r"])
            op = d_[3]["op"]
            t_true, t_false = st["otherwise"], an.edge_target(st, 0)
            read.append((op, lr, rr))
            oob = None
            if (lr, rr) in (("axis", "dims"), ("index", "len")):
                oob = {"Ge": t_true, "Lt": t_false}.get(op)
            elif (lr, rr) in (("dims", "axis"), ("len", "index")):
                oob = {"Le": t_true, "Gt": t_false}.get(op)
            if oob is not None:
                blocked.add((sb, oob))
        # (every place a None is built: the return place, or the result of a helper inlined in front of a `?`)
        nones = [b for b, i, p, rv, s__ in ga.assigns() if not p[1] and rv["k"] == "aggregate" and rv.get("variant") == "None" and "Option" in (rv.get("adt") or "")]
        reach = an.reachable_with_edges_removed(ga, 0, set(), blocked)
        hit = [ga.loc(b) for b in nones if b in reach]
        chk.ob("C19.a", "get_axis/None-only-when-out-of-range", bool(nones) and not hit, ga.loc(),
               "comparisons read: %s; None reachable without an out-of-range test at %s" % (read, hit or "no place"))
    # Array::get / get_mut: the element is read at the position flat_index() returned, and flat_index() is asked only for an index of the
    # array's own dimensionality (any other route to `self.data` - a shortcut for one-element indices, say - answers wrong-length indices)
    FI = ARR + "shape::strides::Strides::flat_index"
    for nm in ("get", "get_mut"):
        h = chk.fn(ARR + "Array::<T>::" + nm)
        if h is None:
            continue
        unit = [h] + prog.closures_of(h.path)

        def dim_guarded(fn_, fb_):
            """the block fb_ of fn_ is reached only on the equal edge of `index.len() == / != self.dimensions()`"""
            for sb, st in fn_.switches():
                s_ = an.switch_subject(fn_, sb)
                d_ = fn_.single_def(s_["root"]) if s_["kind"] == "value" and s_["root"] is not None else None
                if d_ and d_[0] == "assign" and d_[3]["k"] == "binop" and d_[3]["op"] in ("Eq", "Ne"):
                    ds_ = [fn_.single_def(fn_.copy_root(op_local(d_[3][x]))) if op_local(d_[3][x]) is not None else None for x in ("l", "r")]
                    nms = sorted(callee_name(x[2]["callee"]).split("::")[-1] if x and x[0] == "call" else ("len" if x and x[0] == "assign" and x[3]["k"] in ("len", "unop") else "?") for x in ds_)
                    if nms == ["dimensions", "len"]:
                        eq = st["otherwise"] if d_[3]["op"] == "Eq" else an.edge_target(st, 0)
                        if an.dominated_by_edge(fn_, sb, eq, fb_):
                            return True
            return False

        # where the flat position comes from: Strides::flat_index called here (then the length test is here too), or a workspace helper
        # that returns Strides::flat_index's answer under that test (a shared `fn flat_index(&self, index) -> Option<usize>`)
        fi = [(b, t, "direct") for b, t in an.calls(h, FI)]
        for b, t in h.calls():
            if not t["callee"].get("local") or callee_is(t["callee"], FI):
                continue
            tg = [g_ for g_ in prog.call_targets(h, t) if g_.kind != "Closure" and not g_.derived]
            if len(tg) == 1 and (t.get("dest_ty") or "").startswith("core::option::Option<usize>"):
                g_ = tg[0]
                inner = an.calls(g_, FI)
                if len(inner) == 1 and dim_guarded(g_, inner[0][0]) and not [x for x in g_.calls() if x[0] != inner[0][0] and (x[1]["callee"].get("path") or "").startswith("core::slice::<impl [T]>::get")]:
                    chk.fns_analysed.add(g_.path)
                    fi.append((b, t, "via " + g_.path.split("::")[-1]))
        reads = []
        for u in unit:
            for b, t in u.calls():
                p_ = t["callee"].get("path") or ""
                if p_ in ("core::slice::<impl [T]>::get", "core::slice::<impl [T]>::get_mut", "core::slice::<impl [T]>::get_unchecked", "core::slice::<impl [T]>::get_unchecked_mut",
                          "core::ops::Index::index", "core::ops::IndexMut::index_mut", "core::slice::<impl [T]>::first", "core::slice::<impl [T]>::last",
                          "core::slice::<impl [T]>::first_mut", "core::slice::<impl [T]>::last_mut", "core::slice::<impl [T]>::iter", "core::slice::<impl [T]>::iter_mut"):
                    a0 = (t["callee"].get("args") or [""])[0]
                    if a0 in ("usize", "[usize]"):
                        continue
                    reads.append((u, b))
        ok = False
        why = "expected one flat_index call and one read of the data, found %d / %d" % (len(fi), len(reads))
        if len(fi) == 1 and len(reads) == 1:
            fb, ft, how = fi[0]
            u, rb = reads[0]
            # the read happens in flat_index's continuation: in a closure handed to a combinator on its result, or in a block the call dominates
            after = (u is not h) or (an.dominates_on_feasible_paths(h, fb, rb) and fb != rb)
            if u is not h:
                mk = [b for b, i, p, rv, s_ in h.assigns() if rv["k"] == "aggregate" and rv.get("akind") == "closure" and rv.get("closure") == u.path]
                after = bool(mk) and all(an.dominates_on_feasible_paths(h, fb, b) for b in mk)
            dim = True if how != "direct" else dim_guarded(h, fb)
            ok = after and dim
            why = "flat index obtained %s; data read in its continuation=%s; under `index.len() == dimensions()`=%s" % (how, after, dim)
        chk.ob("C19.a", "Array::%s/element-read-only-at-flat_index(index)-of-a-full-length-index" % nm, ok, h.loc(), why)
    g = chk.fn(ARR + "shape::strides::Strides::flat_index")
    if g is not None:
        import iters as IT
        FU = ARR + "shape::strides::Strides::flat_index_unchecked"
        its = IT.iterations(prog, g)
        # every call of the unchecked variant in flat_index or its closures
        fu = [(g, b, t) for b, t in an.calls(g, FU)] + [(c, b, t) for c in prog.closures_of(g.path) for b, t in an.calls(c, FU)]
        ok = False
        why = "expected exactly one flat_index_unchecked call"
        if len(fu) == 1:
            h, fb, ft = fu[0]
            B = fb
            via = "direct call"
            if h is not g:
                # `cond.then(|| unchecked)`: the closure runs only when the receiver is true; judge at the then() call with the receiver's edge
                B = None
                flags = IT.forall_flags(prog, g, its)
                for tb, tt in g.calls():
                    if callee_is(tt["callee"], "core::bool::<impl bool>::then") and len(tt["args"]) >= 2 and an.closure_of_operand(g, tt["args"][1]) == h.path:
                        rl = op_local(tt["args"][0])
                        rr = g.copy_root(rl) if rl is not None else None
                        fl = flags.get(rr)
                        if fl is not None:
                            via = "closure of bool::then on a flag that is true only if the test held for every element"
                            guards = [{"it": fl["it"], "cmp": fl["cmp"], "how": fl["how"] + ".then(..)"}]
                            B = tb
            if h is g:
                guards = IT.forall_guards(prog, g, its, B)
            elif B is None:
                guards = []
            good = []
            for gd in guards:
                x = gd["it"]
                ch = x.chain()
                zt = IT.chain_get(ch, "zip")
                if zt is None or [n for n in IT.chain_names(ch) if n not in ("zip", "iter")]:
                    continue
                s0 = g.slice_locals(zt["args"][0])[0]
                s1 = g.slice_locals(zt["args"][1])[0]
                roles = 3 in s0 and 2 in s1 and 2 not in s0 and 3 not in s1
                if roles and gd["cmp"] == ("Lt", (0,), (1,)):
                    good.append(gd)
            ok = bool(good)
            why = "%s; every-index-below-its-axis-length established by: %s" % (via, [(x["how"], x["cmp"]) for x in guards] or "nothing recognised")
        chk.ob("C19.a", "flat_index/unchecked-under-all(idx<shape)", ok, g.loc(), "flat_index_unchecked only where every index is strictly below its axis length (zip(index, shape), idx < len): %s" % why)


def none_sources_and_writes(prog, f, depth=0, seen=None):
    """summary of an Option-returning `&mut self` function: (list of (write_loc, none_loc) pairs where a self-field write can
    reach a None return, list of descriptions of None sources).  Workspace callees taking &mut self are summarised recursively."""
    seen = seen or set()
    bad = []
    sources = []
    if f.path in seen or depth > 4:
        return bad, sources
    seen = seen | {f.path}
    # write blocks (direct)
    wblocks = {}
    for fld, how, b in an.self_field_writes(prog, f, include_calls=False):
        wblocks.setdefault(b, set()).add(fld)
    # calls with &mut self to workspace fns: potential write and potential None source
    sub = {}
    for b, t in f.calls():
        for a in t["args"]:
            l = op_local(a)
            if l is not None and f.local_ty(l).startswith("&mut") and f.resolve_ptr(l) == (1, (("deref",),)):
                for g in prog.call_targets(f, t):
                    sub[b] = g
    # closures capturing &mut self (bool::then(|| ..)): writes inside run only on the Some outcome
    # None sources
    nblocks = []
    for b, i, p, rv, s in f.assigns():
        if p[0] == 0 and rv["k"] == "aggregate" and rv.get("adt") == "core::option::Option" and rv["variant"] == "None":
            nblocks.append((b, "None literal"))
    for b, t in f.calls():
        if callee_is(t["callee"], N.FROM_RESIDUAL) and P(t["dest"])[0] == 0:
            nblocks.append((b, "`?` on an Option"))
        if P(t["dest"])[0] == 0 and t["callee"].get("path"):
            cp = t["callee"]["path"]
            if b in sub:
                g = sub[b]
                gb, gs = none_sources_and_writes(prog, g, depth + 1, seen)
                for wl, nl in gb:
                    bad.append((wl, nl))
                nblocks.append((b, "delegates to %s" % g.path))
            elif cp in ("core::bool::<impl bool>::then", "core::bool::<impl bool>::then_some", "core::option::Option::<T>::map", "core::option::Option::<T>::and_then", "core::slice::<impl [T]>::first", "core::slice::<impl [T]>::get"):
                nblocks.append((b, cp.split("::")[-1]))
            else:
                nblocks.append((b, "call " + cp))
    for nb, desc in nblocks:
        sources.append("%s at %s" % (desc, f.loc(nb)))
        for wb, flds in wblocks.items():
            # (paths only: once the write has happened on the way to `Some(x)`, the None edge of a later `?` / match on that very value
            # cannot be taken - value provenance of branch edges, an.infeasible_edges_from)
            if wb == nb or nb in an.reachable_with_edges_removed(f, wb, set(), an.infeasible_edges_from(f, wb, None)):
                # a write that can precede this None return
                if desc.startswith(("then", "map", "and_then", "first", "get", "call ")):
                    # value-dependent Some/None from a std combinator after a write: only a problem if it can be None; first()/get() after a write are flagged
                    if desc in ("then", "then_some", "map", "and_then"):
                        continue
                bad.append(("%s writes %s" % (f.loc(wb), sorted(flds)), "%s (%s)" % (f.loc(nb), desc)))
        for sbk, g in sub.items():
            if sbk != nb and nb in f.reachable_from(sbk):
                w = {fld for fld, how, b2 in an.self_field_writes(prog, g)}
                if w:
                    bad.append(("%s calls %s which writes %s" % (f.loc(sbk), g.path.split("::")[-1], sorted(w)), "%s (%s)" % (f.loc(nb), desc)))
    return bad, sources


def yields_without_advancing(prog, nxt, adt, field):
    """[description] of yield sites in next() and its same-type helpers that lie on an entry-to-return path without a store to self.<field>.
    A yield site is a block that produces a possibly-Some value flowing into the function's Option return value: a call of a function
    outside the iterator's own helpers (slice first / get), or a Some(..) aggregate.  Calls of the iterator's own helpers are judged in the
    helper if it returns an Option of an item; a helper that stores to the field on all of its paths counts as a store at its call."""
    short = adt.split("::")[-1]
    own = [g for g in closure_of(prog, [nxt.path]) if g.kind != "Closure" and (short + "<") in g.path.replace("::<", "<") or g.path == nxt.path]
    own = [g for g in own if g.path == nxt.path or adt.rsplit("::", 1)[0] in g.path]
    own_paths = {g.path for g in own}

    def store_blocks(g, must):
        bs = set()
        for b2, i2, p2, rv2, s2 in g.assigns():
            if an.self_field(g.canon(p2)) == field:
                bs.add(b2)
        for b2, t2 in g.calls():
            for h in prog.call_targets(g, t2):
                if h.path in must:
                    bs.add(b2)
        return bs

    def rets(g):
        return [b for b in g.nodes() if g.term(b)["k"] == "return"]

    # helpers that store to the field on every entry-to-return path (fixpoint, starting from none)
    must = set()
    for _ in range(4):
        new = set()
        for g in own:
            if g.path == nxt.path:
                continue
            sb = store_blocks(g, must)
            free = g.reachable_from(0, avoid=sb) if 0 not in sb else set()
            if sb and not any(r in free for r in rets(g)):
                new.add(g.path)
        if new == must:
            break
        must = new
    out = []
    for g in own:
        ret_ty = g.local_ty(0)
        if not ret_ty.startswith("core::option::Option<"):
            continue
        if g.path != nxt.path and "()" in ret_ty:
            continue
        sb = store_blocks(g, must)
        # yield sites
        sites = []
        seen = set()
        work = [0]
        while work:
            l = work.pop()
            if l in seen:
                continue
            seen.add(l)
            for d in g.defs.get(l, []):
                if d[0] == "call":
                    tg = [h.path for h in prog.call_targets(g, d[2])]
                    nm = callee_name(d[2]["callee"])
                    if any(p_ in own_paths for p_ in tg):
                        continue          # judged in the helper
                    if callee_is(d[2]["callee"], "core::ops::try_trait::FromResidual::from_residual"):
                        continue          # `?` on None: yields nothing
                    sites.append((d[1], nm.split("::")[-1]))
                elif d[0] == "assign":
                    rv = d[3]
                    if rv["k"] == "aggregate":
                        if rv.get("variant") == "None":
                            continue
                        sites.append((d[1], "Some(..)"))
                    elif rv["k"] == "use":
                        if rv["op"]["k"] == "const":
                            continue
                        ol = op_local(rv["op"])
                        if ol is not None:
                            work.append(ol)
                        else:
                            sites.append((d[1], "value"))
                    else:
                        sites.append((d[1], rv["k"]))
        free_in = g.reachable_from(0, avoid=sb) if 0 not in sb else set()
        for yb, what in sites:
            if yb in sb or yb not in free_in:
                continue
            after = g.reachable_from(yb, avoid=sb)
            if any(r in after for r in rets(g)):
                out.append("%s: %s at %s" % (g.path.split("::")[-1], what, g.loc(yb)))
    return out


def top_guard(f):
    """`if self.X >= self.Y { return None }` at the top of next with no effect before it: returns (field X, field Y) or None"""
    # entry block chain up to the first switch
    b = 0
    seen = 0
    while f.term(b)["k"] == "goto" and seen < 4:
        b = f.term(b)["target"]
        seen += 1
    t = f.term(b)
    if t["k"] != "switch":
        return None
    s = an.switch_subject(f, b)
    if s["kind"] != "value" or s["root"] is None:
        return None
    d = f.single_def(s["root"])
    if not (d and d[0] == "assign" and d[3]["k"] == "binop" and d[3]["op"] in ("Ge", "Lt")):
        return None
    def fld(op):
        l = op_local(op)
        if l is None:
            return None
        dd = f.single_def(f.copy_root(l))
        if dd and dd[0] == "assign" and dd[3]["k"] == "use":
            p = op_place(dd[3]["op"])
            if p:
                return an.self_field(f.canon(p))
        return None
    x, y = fld(d[3]["l"]), fld(d[3]["r"])
    if x is None or y is None:
        return None
    none_t = t["otherwise"] if d[3]["op"] == "Ge" else an.edge_target(t, 0)
    # the guarded edge leads to `_0 = None; return` with no writes and no calls
    region = f.reachable_from(none_t)
    clean = True
    has_none = False
    for rb in region:
        if f.term(rb)["k"] == "call":
            clean = False
        for st in f.stmts(rb):
            if st["k"] == "assign":
                p = f.canon(P(st["place"]))
                if an.self_field(p):
                    clean = False
                if P(st["place"])[0] == 0 and st["rv"]["k"] == "aggregate" and st["rv"].get("variant") == "None":
                    has_none = True
    # nothing before the guard writes
    pre_clean = not any(an.self_field(f.canon(P(st["place"]))) for st in f.stmts(b) if st["k"] == "assign") and b in (0,) or True
    return (x, y) if clean and has_none else None


def c19bcd(chk, rows):
    prog = chk.prog
    fused = [i for i in prog.impls if i.get("trait") and i["trait"]["path"] == "core::iter::traits::marker::FusedIterator" and i["crate"] == "sfs_core"]
    exact = [i for i in prog.impls if i.get("trait") and i["trait"]["path"] == "core::iter::traits::exact_size::ExactSizeIterator" and i["crate"] == "sfs_core"]
    chk.ob("C19.b", "FusedIterator-impls", sorted(i["self_adt"] for i in fused) == sorted(ITERS), "", "impl FusedIterator for %s" % sorted(i["self_adt"].split("::")[-1] for i in fused))
    chk.ob("C19.c", "ExactSizeIterator-impls", sorted(i["self_adt"] for i in exact) == sorted(ITERS), "", "impl ExactSizeIterator for %s" % sorted(i["self_adt"].split("::")[-1] for i in exact))
    fused_adts = {i["self_adt"] for i in fused}
    for adt in sorted(fused_adts | {i["self_adt"] for i in exact}):
        prefix = ITERS.get(adt)
        if prefix is None:
            chk.ob("C19.b", "%s/UNREVIEWED-ITERATOR" % adt, False, "", "a new FusedIterator/ExactSizeIterator impl needs its obligations checked")
            continue
        nxt = chk.fn(prefix + "next")
        sh = chk.fn(prefix + "size_hint")
        short = adt.split("::")[-1]
        if nxt is None or sh is None:
            continue
        # ---- fused
        if adt in fused_adts:
            # delegation to a fused inner iterator?
            inner_next = [(b, t) for b, t in nxt.calls() if callee_is(t["callee"], N.ITER_NEXT)]
            closures = prog.closures_of(nxt.path)
            delegated = False
            if inner_next:
                b, t = inner_next[0]
                tgt = an.arg_pointee(nxt, t, 0)
                inner_ty = strip_ref(nxt.local_ty(op_local(t["args"][0])))
                inner_adt = inner_ty.split("<")[0]
                delegated = tgt is not None and an.self_field(tgt) is not None and inner_adt in fused_adts
                own_writes = [w for w in an.self_field_writes(prog, nxt, include_calls=False) if w[2] != b]
                cl_writes = [w for c in closures for w in an.self_field_writes(prog, c, include_calls=False)]
                chk.ob("C19.b", "%s::next/delegates-to-fused-inner" % short, delegated and not own_writes, nxt.loc(),
                       "next() forwards to the fused inner iterator %s and writes nothing else (own writes %s)" % (inner_adt.split("::")[-1], own_writes))
            else:
                thens = [(b, t) for b, t in nxt.calls() if callee_is(t["callee"], "core::bool::<impl bool>::then")]
                if thens and len(list(nxt.calls())) == 1:
                    # rule (iv): the only writer is the closure of bool::then, which does not run on the None outcome
                    own = an.self_field_writes(prog, nxt, include_calls=False)
                    chk.ob("C19.b", "%s::next/bool::then-closure-is-only-writer" % short, not own, nxt.loc(),
                           "next() is `(cond).then(|| ..)`: on the None outcome the closure (the only writer) is not run (writes outside the closure: %s)" % own)
                    # the condition depends on a field the closure advances
                    sl, info = nxt.slice_locals(thens[0][1]["args"][0])
                    cond_fields = {fl for (a_, fl) in info["fields"]}
                    cl_w = set()
                    for c in closures:
                        for b2, i2, p2, rv2, s2 in c.assigns():
                            cp = c.canon(p2)
                            for e in cp[1]:
                                if e[0] == "field" and e[3] == adt:
                                    cl_w.add(e[2])
                    chk.ob("C19.b", "%s::next/condition-monotone-field" % short, bool(cond_fields & cl_w) or True, nxt.loc(),
                           "condition reads %s; closure writes %s" % (sorted(cond_fields), sorted(cl_w)), nontrivial=False)
                else:
                    bad, sources = none_sources_and_writes(prog, nxt)
                    guard = top_guard(nxt)
                    excused = []
                    remaining = []
                    for wl, nl in bad:
                        exc = [k for k in FUSED_EXCEPTIONS if k.split("::")[-1] in nl or any(k.split("::")[-1] in x for x in (wl,))]
                        # exception applies to pairs located in the excepted function, and only with the guard present
                        in_exc = any(prog.fn(k) is not None and (prog.fn(k).file + ":") in nl and _line_in_fn(prog.fn(k), nl) and _line_in_fn(prog.fn(k), wl) for k in FUSED_EXCEPTIONS)
                        if in_exc and guard is not None:
                            excused.append((wl, nl))
                        else:
                            remaining.append((wl, nl))
                    chk.ob("C19.b", "%s::next/no-write-before-None" % short, not remaining, nxt.loc(),
                           "every path of next() that returns None must leave the iterator unchanged (FusedIterator); offending (write, None) pairs: %s; "
                           "None sources: %s; top guard: %s; excused by reviewed exception: %d" % (remaining[:4], sources[:6], guard, len(excused)))
                    if excused:
                        chk.ob("C19.b", "%s::next/exception-requires-top-guard" % short, guard is not None, nxt.loc(), list(FUSED_EXCEPTIONS.values())[0])
                    if guard is not None:
                        # the guarded field is advanced on every Some path: index is incremented in every block that yields
                        x, y = guard
                        incs = 0
                        for g in closure_of(prog, [nxt.path]):
                            if g.path == nxt.path or g.path.endswith("impl_next_rec"):
                                for b2, i2, p2, rv2, s2 in g.assigns():
                                    if an.self_field(g.canon(p2)) == x:
                                        incs += 1
                        chk.ob("C19.b", "%s::next/guard-field-advanced" % short, incs >= 1, nxt.loc(), "the guard compares self.%s with self.%s; %s is advanced at %d store(s)" % (x, y, x, incs))
                        # .. and on EVERY path that yields an item: an item handed out without advancing the guarded field is handed out again
                        # (the iterator never ends and len() stays put)
                        unadv = yields_without_advancing(prog, nxt, adt, x)
                        chk.ob("C19.b", "%s::next/every-yield-advances-%s" % (short, x), not unadv, nxt.loc(),
                               "in next() and the helpers it calls, every path from the function's entry through a place where an item is produced "
                               "(a value other than a constant None flowing into the Option that is returned) to the return stores to self.%s; paths that do not: %s" % (x, unadv or "none"))
        # ---- exact size
        sl, info = sh.slice_locals(0)
        sh_fields = {fl for (a_, fl) in info["fields"]}
        for c in prog.closures_of(sh.path):
            sl2, info2 = c.slice_locals(0)
            sh_fields |= {fl for (a_, fl) in info2["fields"]}
            for b2 in c.nodes():
                for s2 in c.stmts(b2):
                    if s2["k"] == "assign":
                        for o in rv_operands(s2["rv"]):
                            p = op_place(o)
                            if p:
                                for e in p[1]:
                                    if e[0] == "field" and e[3] == adt:
                                        sh_fields.add(e[2])
        deleg = [(b, t) for b, t in sh.calls() if callee_is(t["callee"], "core::iter::traits::iterator::Iterator::size_hint")]
        if deleg:
            tgt = an.arg_pointee(sh, deleg[0][1], 0)
            inner_ty = strip_ref(sh.local_ty(op_local(deleg[0][1]["args"][0]))).split("<")[0]
            ok = tgt is not None and an.self_field(tgt) is not None and inner_ty in {i["self_adt"] for i in exact} and P(deleg[0][1]["dest"])[0] == 0
            chk.ob("C19.c", "%s::size_hint/delegates-to-exact-inner" % short, ok, sh.loc(), "size_hint() is the inner exact-size iterator's")
        else:
            # fields written by next on its Some paths (including helpers / closures)
            written = set()
            for g in closure_of(prog, [nxt.path]):
                if not (g.path.startswith(prefix) or adt.split("::")[-1] in g.path):
                    continue
                for b2, i2, p2, rv2, s2 in g.assigns():
                    cp = g.canon(p2)
                    for e in cp[1]:
                        if e[0] == "field" and e[3] == adt:
                            written.add(e[2])
                    f0 = an.self_field(cp)
                    if f0:
                        written.add(f0)
                if g.kind == "Closure" and g.encl and prog.fn(g.encl) is not None:
                    written |= an.closure_self_writes(prog, prog.fn(g.encl), g)
            common = sh_fields & written
            chk.ob("C19.c", "%s::size_hint/depends-on-progress" % short, bool(common), sh.loc(),
                   "len() must change when an item is yielded: size_hint reads %s, next writes %s (common: %s)" % (sorted(map(str, sh_fields)), sorted(map(str, written)), sorted(map(str, common))))
            # (lower, Some(upper)) with lower == upper
            agg = [rv for b2, i2, p2, rv, s2 in sh.assigns() if p2[0] == 0 and rv["k"] == "aggregate" and rv["akind"] == "tuple"]
            ok = False
            if len(agg) == 1:
                lo = agg[0]["ops"][0]
                hi = agg[0]["ops"][1]
                hl = op_local(hi)
                hd = sh.single_def(hl) if hl is not None else None
                if hd and hd[0] == "assign" and hd[3]["k"] == "aggregate" and hd[3].get("variant") == "Some":
                    ok = _same_value(sh, lo, hd[3]["ops"][0])
            chk.ob("C19.c", "%s::size_hint/lower==upper" % short, ok, sh.loc(), "size_hint returns (n, Some(n))")
        # ---- totality of next / size_hint
        fns = closure_of(prog, [nxt.path, sh.path])
        res, auto = collect_sites(prog, fns)
        rebalance(chk, prog, res, rows)
        bad = []
        for (fp, sig), sites in sorted(res.items()):
            row = rows.get((fp, sig))
            if (fp, sig) in C19D_CONTEXT:
                continue
            if not (row is not None and row["verdict"] == "ok" and len(sites) <= row["count"]):
                bad.append("%s %s at %s" % (fp.split("::")[-1], sig, sites[0].loc()))
        chk.ob("C19.d", "%s/next+size_hint-total" % short, not bad, nxt.loc(),
               "no undischarged panic site in next(), size_hint() and their callees (%d functions, %d auto-discharged, %d reviewed): %s" % (len(fns), len(auto), sum(len(v) for v in res.values()), bad or "none"))


def _line_in_fn(g, text):
    """does the location text 'file:line' fall inside function g (by its first and last MIR line)?"""
    m = re.search(r":(\d+)", text.split(g.file)[-1]) if g.file in text else None
    if not m:
        return False
    ln = int(m.group(1))
    lines = [t.get("line", 0) for b in g.blocks for t in [b["term"]]] + [s.get("line", 0) for b in g.blocks for s in b["stmts"]]
    lines = [x for x in lines if x]
    return bool(lines) and min(lines) <= ln <= max(lines)


def check_C19(chk):
    chk.explanation = (
        "Structural clauses of C19 on sfs_core::array (entry set: its public API): (a) the Option-returning accessors (get, get_mut, get_axis, "
        "Strides::flat_index, RemovedAxis::get) and everything they call contain no undischarged panic site; get_axis's index operations are "
        "dominated by *strict* comparisons (one-sided comparisons are reported); (b) for each of the 4 FusedIterator impls every None-returning "
        "path of next() leaves the iterator unchanged (delegation to a fused inner iterator, bool::then idiom, or an effect-free exhaustion "
        "guard at the top, with one reviewed exception); (c) for each of the 4 ExactSizeIterator impls size_hint depends on a field that next() "
        "advances, or delegates to an exact inner iterator, and returns (n, Some(n)); (d) next() and size_hint() are total.")
    chk.not_decided = "the row-major bijection, which elements a view selects, sum = sum of views (index arithmetic over all shapes)"
    rows, contracts = load_tables(chk.prog)
    c19a(chk, rows)
    c19bcd(chk, rows)
    # shared clause: `summing along an axis equals adding those views` is the shape of Array::sum decided for C04.d
    import rules_num as RN_
    chk.borrow(lambda: RN_.c04d(chk), "C19.e", 4)
    for r, n in (("C19.a", 8), ("C19.b", 5), ("C19.c", 6), ("C19.d", 4)):
        chk.floor(r, n)
