"""Canonicalisation of the extracted facts against the function inventory of the reviewed tree (tables/functions.json).

Two behaviour-preserving edits would otherwise move every anchor of the rules without changing what the program does:

  * a function is RENAMED:    the body is the same, only its path changed.  When exactly one inventoried function of a scope
                              (module / impl) disappeared and exactly one new function with the same signature appeared in that
                              scope, the new path is rewritten to the inventoried one throughout the facts.
  * a helper is EXTRACTED:    part of an inventoried function moved into a new private function.  Every direct call to a function
                              that is not in the inventory is inlined into its caller (MIR inlining on the fact level: the callee's
                              locals and blocks are appended to the caller, arguments are assigned, `return` becomes an assignment
                              of the return place to the call's destination followed by a jump to the call's target).

Both rewrites preserve the semantics of the program the rules look at, so a verdict on the canonicalised facts is a verdict on the
source.  Nothing is rewritten on the reviewed tree itself (no function is missing or new there).  What was rewritten is reported in
the evidence (`canonicalised`)."""
import copy, json, os, re

HERE = os.path.dirname(os.path.abspath(__file__))
INVENTORY = os.path.join(os.path.dirname(os.path.dirname(HERE)), "tables", "functions.json")


def signature(f):
    return (f.get("ret"), tuple(l["ty"] for l in f["locals"][1:1 + f["argc"]]), f.get("kind"), bool(f.get("impl_of") and f["impl_of"].get("trait")))


def scope_of(path):
    return path.rsplit("::", 1)[0] if "::" in path else ""


def load_inventory():
    if not os.path.exists(INVENTORY):
        return None
    with open(INVENTORY) as fh:
        return json.load(fh)


def make_inventory(raws):
    inv = {}
    for key, raw in raws.items():
        for f in raw["fns"]:
            if f["kind"] == "Closure" or f.get("derived"):
                continue
            inv[f["path"]] = {"ret": f.get("ret"), "args": [l["ty"] for l in f["locals"][1:1 + f["argc"]]], "crate": key, "callers": []}
    # direct callers (a closure's calls count for the function it is written in): used to hand the reviewed rows of a helper that
    # was merged into its caller over to that caller
    for key, raw in raws.items():
        for f in raw["fns"]:
            owner = re.sub(r"(::\{closure#\d+\})+$", "", f["path"])
            for b in f["blocks"]:
                t = b["term"]
                if t["k"] == "call":
                    tgt = t["callee"].get("resolved") or t["callee"].get("path")
                    if tgt in inv and owner in inv and owner != tgt and owner not in inv[tgt]["callers"]:
                        inv[tgt]["callers"].append(owner)
    return inv


# -----------------------------------------------------------------------------------------------
def _remap(o, lmap, bmap, pmap):
    """deep copy of a statement / terminator with locals, blocks and promoted indices renumbered"""
    if isinstance(o, dict):
        if "l" in o and "p" in o and isinstance(o["p"], list):
            return {"l": lmap(o["l"]), "p": [(["index", lmap(e[1])] if e[0] == "index" else list(e)) for e in o["p"]]}
        out = {}
        for k, v in o.items():
            if k == "local" and isinstance(v, int):
                out[k] = lmap(v)
            elif k == "promoted" and isinstance(v, int) and "item" in o:
                out[k] = pmap(v)
            else:
                out[k] = _remap(v, lmap, bmap, pmap)
        return out
    if isinstance(o, list):
        return [_remap(v, lmap, bmap, pmap) for v in o]
    return o


def _remap_term(t, lmap, bmap, pmap):
    t2 = _remap(t, lmap, bmap, pmap)
    for k in ("target", "otherwise"):
        if isinstance(t.get(k), int):
            t2[k] = bmap(t[k])
    if "arms" in t:
        t2["arms"] = [[a[0], bmap(a[1])] for a in t["arms"]]
    if isinstance(t.get("unwind"), int):
        t2["unwind"] = bmap(t["unwind"])
    return t2


_CLONE_SEQ = [0]


def _clone_closures(callee, caller, all_fns):
    """each inlined copy of a helper gets its own copies of the helper's closures (and their nested closures), re-parented to the caller:
    returns {old closure path: new closure path}"""
    prefix = callee["path"] + "::{closure#"
    mapping = {}
    olds = [f for f in all_fns if f["kind"] == "Closure" and f["path"].startswith(prefix)]
    if not olds:
        return mapping
    _CLONE_SEQ[0] += 1
    seq = _CLONE_SEQ[0]
    croot = caller["path"]
    for f in olds:
        rest = f["path"][len(callee["path"]):]             # ::{closure#k}[::{closure#j}...]
        first = re.match(r"^::\{closure#(\d+)\}", rest)
        newp = croot + "::{closure#%d%02d}" % (100 + seq, int(first.group(1))) + rest[first.end():]
        mapping[f["path"]] = newp
    for f in olds:
        g = json.loads(json.dumps(f))
        blob = json.dumps(g)
        for o, n in sorted(mapping.items(), key=lambda kv: -len(kv[0])):
            blob = blob.replace(json.dumps(o)[1:-1], json.dumps(n)[1:-1])
        g = json.loads(blob)
        g["path"] = mapping[f["path"]]
        if g.get("encl") == callee["path"] or (g.get("encl") or "").startswith(callee["path"]):
            g["encl"] = caller.get("encl") or caller["path"] if caller["kind"] == "Closure" else caller["path"]
        if g.get("parent") == callee["path"]:
            g["parent"] = caller["path"]
        g["cloned_from"] = "closure of " + callee["path"].rsplit("::", 1)[-1]
        all_fns.append(g)
    return mapping


def inline_call(caller, bidx, callee, all_fns=None):
    """splice `callee` into `caller` at the call terminating block bidx"""
    cmap = _clone_closures(callee, caller, all_fns) if all_fns is not None else {}
    blk = caller["blocks"][bidx]
    t = blk["term"]
    loff = len(caller["locals"])
    boff = len(caller["blocks"])
    poff = len(caller.get("promoted") or [])
    lmap = lambda l: l + loff
    bmap = lambda b: b + boff
    pmap = lambda p: p + poff
    caller["locals"].extend(copy.deepcopy(callee["locals"]))
    caller.setdefault("inlined_ret", []).append(lmap(0))
    if callee.get("promoted"):
        caller.setdefault("promoted", [])
        caller["promoted"].extend(copy.deepcopy(callee["promoted"]))
    line = t.get("line")
    # arguments
    for i, a in enumerate(t["args"]):
        if i < callee["argc"]:
            blk["stmts"].append({"k": "assign", "place": {"l": lmap(i + 1), "p": []}, "rv": {"k": "use", "op": a}, "line": line, "exp": False, "inlined": "from " + callee["path"] + " (canon)"})
    target = t.get("target")
    dest = t.get("dest")
    # the helper's type parameters stand for the generic arguments of this call (theta_value::<Self::T1>: E := Self::T1) in the types
    # and callees of the inlined copy
    gsub = []
    gn, ga = callee.get("generics") or [], (t.get("callee") or {}).get("args") or []
    if gn and len(gn) == len(ga):
        gsub = [(n_, a_) for n_, a_ in zip(gn, ga) if n_ != a_ and re.match(r"^[A-Za-z_]\w*$", n_) and not n_.startswith("'")]
    TYPE_KEYS = ("args", "full", "self_ty", "resolved_full", "ty", "dest_ty", "indirect_ty", "lty", "rty")
    def sub_str(x):
        for n_, a_ in gsub:
            x = re.sub(r"(?<![\w:'])" + re.escape(n_) + r"(?![\w:])", lambda m_: a_, x)
        return x
    def gen_subst(obj, in_type=False):
        """type-bearing strings only: item paths (`Theta::<E>::from_spectrum_unchecked`) name declarations and stay as they are"""
        if not gsub:
            return obj
        if isinstance(obj, str):
            return sub_str(obj) if in_type else obj
        if isinstance(obj, list):
            return [gen_subst(v, in_type) for v in obj]
        if isinstance(obj, dict):
            return {k: gen_subst(v, in_type or (k in TYPE_KEYS and not (k == "args" and v and isinstance(v[0], dict)))) for k, v in obj.items()}
        return obj
    if gsub:
        for i_ in range(loff, len(caller["locals"])):
            caller["locals"][i_] = gen_subst(caller["locals"][i_])
    for cb in callee["blocks"]:
        cb = gen_subst(cb) if gsub else cb
        nb = {"cleanup": cb.get("cleanup", False), "stmts": [_remap(s, lmap, bmap, pmap) for s in cb["stmts"]], "term": None}
        ct = cb["term"]
        if ct["k"] == "return":
            if target is None:
                nb["term"] = {"k": "unreachable", "line": ct.get("line"), "exp": False}
            else:
                if dest is not None:
                    nb["stmts"].append({"k": "assign", "place": dest, "rv": {"k": "use", "op": {"k": "move", "place": {"l": lmap(0), "p": []}}}, "line": ct.get("line"), "exp": False, "inlined": "from " + callee["path"] + " (canon)"})
                nb["term"] = {"k": "goto", "target": target, "line": ct.get("line"), "exp": False}
        else:
            nb["term"] = _remap_term(ct, lmap, bmap, pmap)
            # a promoted of the callee is named by the callee's item: keep resolvable through the caller's list
        if cmap:
            blob = json.dumps(nb)
            for o, n in sorted(cmap.items(), key=lambda kv: -len(kv[0])):
                blob = blob.replace(json.dumps(o)[1:-1], json.dumps(n)[1:-1])
            nb = json.loads(blob)
        caller["blocks"].append(nb)
    blk["term"] = {"k": "goto", "target": bmap(0), "line": line, "exp": False}


def _fix_promoted_items(caller, callee_path):
    """promoted constants moved from the callee into the caller must name the caller as their item"""
    def walk(o):
        if isinstance(o, dict):
            if "promoted" in o and o.get("item") == callee_path:
                o["item"] = caller["path"]
            for v in o.values():
                walk(v)
        elif isinstance(o, list):
            for v in o:
                walk(v)
    for b in caller["blocks"]:
        walk(b)


def canonicalise(raws):
    """raws: {crate key: raw facts}.  Returns (raws, report)."""
    inv = load_inventory()
    report = {"renamed": [], "inlined": [], "new_functions_kept": [], "gone": {}}
    if inv is None:
        return raws, report
    current = {}
    for key, raw in raws.items():
        for f in raw["fns"]:
            if f["kind"] != "Closure" and not f.get("derived"):
                current[f["path"]] = f
    gone = [p for p in inv if p not in current]
    new = [p for p in current if p not in inv]
    if not gone and not new:
        return raws, report
    # ---- renames ----
    pairs = []
    by_scope_gone, by_scope_new = {}, {}
    for p in gone:
        by_scope_gone.setdefault(scope_of(p), []).append(p)
    for p in new:
        by_scope_new.setdefault(scope_of(p), []).append(p)
    for sc, gs in by_scope_gone.items():
        ns = by_scope_new.get(sc, [])
        for g in gs:
            sig = (inv[g]["ret"], tuple(inv[g]["args"]))
            cands = [n for n in ns if (current[n].get("ret"), tuple(l["ty"] for l in current[n]["locals"][1:1 + current[n]["argc"]])) == sig]
            others = [g2 for g2 in gs if (inv[g2]["ret"], tuple(inv[g2]["args"])) == sig]
            if len(cands) == 1 and len(others) == 1:
                pairs.append((cands[0], g))
    if pairs:
        for key in list(raws):
            s = json.dumps(raws[key])
            for n, g in pairs:
                qn = json.dumps(n)[1:-1]
                qg = json.dumps(g)[1:-1]
                s = re.sub(re.escape(qn) + r'(?=("|::\{|::<|::promoted))', qg.replace("\\", "\\\\"), s)
            raws[key] = json.loads(s)
        for n, g in pairs:
            report["renamed"].append("%s -> %s" % (n, g))
        for key, raw in raws.items():
            for f in raw["fns"]:
                for n, g in pairs:
                    if f["path"] == g:
                        f["name"] = g.rsplit("::", 1)[-1].split("<")[0]
        new = [p for p in new if p not in {n for n, g in pairs}]
    # inventoried functions that are gone and were not renamed: a helper merged into its caller(s); reviewed rows follow it there
    renamed_to = {g for n, g in pairs}
    for g in gone:
        if g not in renamed_to:
            report["gone"][g] = [c for c in inv[g].get("callers", []) if c in current or c in renamed_to]
    # ---- extraction: inline direct calls to functions that are not in the inventory ----
    if new:
        fn_by_path = {}
        for key, raw in raws.items():
            for f in raw["fns"]:
                fn_by_path[f["path"]] = f
        newset = set(new)

        def direct_calls_to_new(f):
            out = []
            for i, b in enumerate(f["blocks"]):
                t = b["term"]
                if t["k"] == "call":
                    c = t["callee"]
                    tgt = c.get("resolved") or c.get("path")
                    if tgt in newset and not c.get("virtual") and fn_by_path.get(tgt) is not None and fn_by_path[tgt]["blocks"]:
                        out.append((i, tgt))
            return out
        for rounds in range(8):
            changed = False
            for p, f in list(fn_by_path.items()):
                for i, tgt in direct_calls_to_new(f):
                    g = fn_by_path[tgt]
                    if tgt == p or direct_calls_to_new(g):
                        continue  # recursive, or not a leaf yet: its own helpers are inlined first
                    crate_fns = next(raw["fns"] for raw in raws.values() if any(x is f for x in raw["fns"]))
                    n_before = len(crate_fns)
                    inline_call(f, i, g, crate_fns)
                    for x in crate_fns[n_before:]:
                        fn_by_path[x["path"]] = x
                    _fix_promoted_items(f, tgt)
                    report["inlined"].append("%s into %s" % (tgt, p))
                    changed = True
            if not changed:
                break
        # drop new functions that are no longer referenced; re-parent their closures
        blob = {key: json.dumps([f for f in raw["fns"] if f["path"] not in newset and f.get("encl") not in newset] + raw.get("consts", [])) for key, raw in raws.items()}
        for n in new:
            qn = json.dumps(n)[1:-1]
            still = any(re.search(re.escape(qn) + r'"', blob[key]) for key in blob)
            callers = sorted({x.split(" into ")[1] for x in report["inlined"] if x.startswith(n + " into ")})
            if still or not callers:
                report["new_functions_kept"].append(n)
                continue
            for key in list(raws):
                raw = raws[key]
                raw["fns"] = [f for f in raw["fns"] if f["path"] != n and not (f["kind"] == "Closure" and f["path"].startswith(n + "::{closure#"))]
    return raws, report


if __name__ == "__main__":
    import sys
    sys.path.insert(0, HERE)
    from facts import get_facts
    os.environ["SFSVERIF_NO_CANON"] = "1"
    prog, info = get_facts(sys.argv[1] if len(sys.argv) > 1 else "/repo")
    inv = make_inventory(prog.crates)
    with open(INVENTORY, "w") as fh:
        json.dump(inv, fh, indent=0, sort_keys=True)
    print("inventory: %d functions -> %s" % (len(inv), INVENTORY))
